// C04, second part: the units check of connected (equivalent) variables on NESTED units definitions.
// Ground truth by construction: a chain  L0 (user base units or a product of standard units),  L_i = L_(i-1)^e_i x
// [standard unit]^f_i,  top = L_d (d = 2..5 user-defined levels), and its "twin": the same dimension written as one flat
// product of base/standard units with the exponents multiplied out (all exponents are multiples of 0.5, so the products
// are exact).  Two variables in sibling components are connected:
//   accept:  top ~ twin                      -> the validator must report nothing;
//   reject:  top ~ twin with ONE exponent changed by +-1 or +-0.5 (or one factor dropped / added)
//                                            -> an ERROR citing MAP_VARIABLES_ELEMENT must be reported.
// Each model is validated API-built and parsed back from its printed text.
#include "vhc.h"
#include "vh.h"

#include <cmath>
#include <map>

using namespace vh;
using namespace libcellml;

int64_t vh_case_count(const std::string &tier, uint64_t)
{
    return tier == "thorough" ? 30000 : 2400;
}

static const std::vector<std::string> kStd = {"second", "metre", "kilogram", "ampere", "volt", "newton", "joule", "hertz", "katal", "litre", "coulomb", "mole"};
static const std::vector<double> kExp = {2.0, 3.0, -1.0, -2.0, 0.5, 1.5, -0.5, 1.0, 4.0, -3.0};

static std::string expText(double e)
{
    char buf[64];
    snprintf(buf, sizeof buf, "%.17g", e);
    return buf;
}

void vh_run_case(Ctx &ctx)
{
    Rng &rng = ctx.rng;
    bool faulty = ctx.index % 2 == 1;
    auto model = Model::create("m");
    int depth = rng.range(2, 5);
    // flat expansion: name of base/standard unit -> exponent
    std::map<std::string, double> flat;
    std::string shape;
    // level 0
    auto l0 = Units::create("L0");
    model->addUnits(l0);
    int baseKind = rng.range(0, 2);
    if (baseKind == 0) {
        // a user-defined base unit (no children)
        flat["L0"] = 1.0;
        shape += "B";
    } else {
        int n = rng.range(1, 2);
        for (int i = 0; i < n; ++i) {
            std::string s = rng.pick(kStd);
            double e = rng.pick(kExp);
            l0->addUnit(s, rng.chance(0.3) ? "milli" : "", e, rng.chance(0.3) ? 1000.0 : 1.0);
            flat[s] += e;
        }
        shape += "S" + std::to_string(n);
    }
    std::string prev = "L0";
    for (int lvl = 1; lvl <= depth; ++lvl) {
        auto u = Units::create("L" + std::to_string(lvl));
        double e = rng.pick(kExp);
        if (lvl == 1 && rng.chance(0.6)) {
            e = rng.pick(std::vector<double>{2.0, 3.0, -1.0, 0.5, -2.0}); // never 1 right above the base: the case that matters
        }
        // optional extra standard factor before / after the reference to the previous level
        bool extraFirst = rng.chance(0.25);
        bool extraLast = rng.chance(0.25);
        std::map<std::string, double> extra;
        if (extraFirst) {
            std::string s = rng.pick(kStd);
            double f = rng.pick(kExp);
            u->addUnit(s, "", f, 1.0);
            extra[s] += f;
        }
        u->addUnit(prev, rng.chance(0.2) ? "kilo" : "", e, rng.chance(0.2) ? 0.001 : 1.0);
        if (rng.chance(0.15)) {
            // the previous level referenced twice
            double e2 = rng.pick(kExp);
            u->addUnit(prev, "", e2, 1.0);
            e += e2;
            shape += "d";
        }
        if (extraLast) {
            std::string s = rng.pick(kStd);
            double f = rng.pick(kExp);
            u->addUnit(s, "", f, 1.0);
            extra[s] += f;
        }
        for (auto &kv : flat) {
            kv.second *= e;
        }
        for (const auto &kv : extra) {
            flat[kv.first] += kv.second;
        }
        shape += (e == 1.0 ? "1" : "e") + std::string(extraFirst ? "<" : "") + std::string(extraLast ? ">" : "");
        model->addUnits(u);
        prev = u->name();
    }
    // the twin; base units whose exponent cancelled to zero are left out
    auto twin = Units::create("twin");
    std::vector<std::string> names;
    for (const auto &kv : flat) {
        names.push_back(kv.first);
    }
    std::string faultDesc;
    if (faulty) {
        int fk = rng.range(0, 2);
        if (fk == 0 || flat.empty()) {
            std::string s = names.empty() ? "second" : rng.pick(names);
            double d = rng.pick(std::vector<double>{1.0, -1.0, 0.5, -0.5});
            flat[s] += d;
            faultDesc = "exponent-off";
        } else if (fk == 1) {
            std::string s = rng.pick(kStd);
            while (flat.count(s) != 0U) {
                s = rng.pick(kStd) + std::string(); // may loop a few times; 12 names, at most ~10 in use
                if (flat.size() >= kStd.size()) {
                    break;
                }
            }
            flat[s] += rng.pick(std::vector<double>{1.0, -1.0, 2.0});
            faultDesc = "factor-added";
        } else {
            std::string s = rng.pick(names);
            if (flat[s] == 0.0) {
                flat[s] = 1.0;
            } else {
                flat[s] = 0.0;
            }
            faultDesc = "factor-dropped";
        }
    }
    rng.shuffle(names);
    for (const auto &kv : flat) {
        if (std::find(names.begin(), names.end(), kv.first) == names.end()) {
            names.push_back(kv.first);
        }
    }
    bool any = false;
    for (const auto &n : names) {
        double e = flat[n];
        if (e == 0.0) {
            continue;
        }
        twin->addUnit(n, "", e, rng.chance(0.2) ? 10.0 : 1.0);
        any = true;
    }
    if (!any) {
        twin->addUnit("dimensionless", "", 1.0, 1.0);
    }
    model->addUnits(twin);
    // Every fault changes the exponent of ONE name by a non-zero amount; no name used here is dimensionless, so the
    // dimension of the twin really differs from the chain's whatever the other factors are.
    auto c1 = Component::create("c1");
    auto c2 = Component::create("c2");
    model->addComponent(c1);
    model->addComponent(c2);
    auto x = Variable::create("x");
    x->setUnits(model->units(prev));
    x->setInterfaceType("public");
    c1->addVariable(x);
    auto y = Variable::create("y");
    y->setUnits(twin);
    y->setInterfaceType("public");
    c2->addVariable(y);
    if (rng.chance(0.5)) {
        Variable::addEquivalence(x, y);
    } else {
        Variable::addEquivalence(y, x);
    }
    std::string text = Printer::create()->printModel(model);
    std::string tag = std::string(faulty ? "reject:" + faultDesc : "accept") + ":depth" + std::to_string(depth) + ":" + (baseKind == 0 ? "user-base" : "standard-base");
    for (int path = 0; path < 2; ++path) {
        ModelPtr mdl = model;
        if (path == 1) {
            auto parser = Parser::create(true);
            mdl = parser->parseModel(text);
            if (mdl == nullptr || parser->issueCount() != 0) {
                viol("C04", "harness:nested-units-model-not-parsed", issueSummary(*parser), text);
                return;
            }
        }
        stage(std::string("validate ") + (path == 0 ? "api" : "parsed"));
        auto validator = Validator::create();
        validator->validateModel(mdl);
        monitorLogger(*validator, "Validator::validateModel", text);
        stat("nested_units_validations");
        bool mapError = false;
        for (size_t i = 0; i < validator->errorCount(); ++i) {
            mapError = mapError || validator->error(i)->referenceRule() == Issue::ReferenceRule::MAP_VARIABLES_ELEMENT;
        }
        if (!faulty) {
            if (validator->issueCount() != 0) {
                std::string shapeKey = mismatchOfZero(validator->issue(0)->description());
                viol("C04", "false-rejection:nested-units:" + ruleName(validator->issue(0)->referenceRule()) + (shapeKey.empty() ? ":depth" + std::to_string(depth) + ":" + (baseKind == 0 ? "user-base" : "standard-base") : shapeKey),
                     "chain " + shape + " vs its flat twin; " + issueSummary(*validator), text);
            } else {
                stat("nested_units_accepted");
            }
        } else {
            if (!mapError) {
                viol("C04", "missed-violation:nested-units:" + faultDesc + ":depth" + std::to_string(depth) + ":" + (baseKind == 0 ? "user-base" : "standard-base"),
                     "chain " + shape + " vs a twin with the wrong dimension; validator reports " + std::to_string(validator->issueCount()) + " issues\n" + issueSummary(*validator), text);
            } else {
                stat("nested_units_faults_detected");
            }
        }
    }
    seen("nested_units_shape", tag);
    seen("nested_units_chain", shape.substr(0, 12));
    caseInfo(hex64(fnv1a(tag + shape)), true, tag + " chain=" + shape);
}
