// The whole processing pipeline on one input text (C01, reused by C12/C15).
#pragma once
#include "vhc.h"

namespace vh {

struct PipelineOptions
{
    bool strict = true;
    std::string baseDir;      // for import resolution ("" = skip resolution against disk)
    bool unitsPairs = true;   // pairwise Units::compatible/scalingFactor (capped)
    bool cloneEquals = true;
    bool annotate = true;
    bool generate = true;
    bool markStages = true;   // emit stage markers (crash attribution)
    std::string replay;       // attached to monitor violations
};

struct PipelineResult
{
    bool parsed = false;
    size_t parseIssues = 0;
    size_t validatorIssues = 0;
    bool resolved = false;
    bool flattened = false;
    std::string analyserType;
    size_t cCodeSize = 0;
    size_t pyCodeSize = 0;
    std::string stagesReached; // compact string of stage letters
    std::string digest;        // canonical text of everything the pipeline produced (for purity comparisons)
};

PipelineResult runPipeline(const std::string &input, const PipelineOptions &opt);

} // namespace vh
