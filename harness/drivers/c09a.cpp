// C09 part A: ownership invariants survive any API history.
//
// Universe (fixed): 2 models, 4 components (C0 and C1 structurally identical: same name, nothing else),
// 4 variables (V0 and V1 identical), 3 units (U0 and U1 identical), 2 resets (identical).
// An *ownership reference model* (entities, at most one parent each, ordered child lists, symmetric
// equivalence sets, liveness = reachable from what the harness still holds) predicts, for every
// operation, the SET of outcomes the property allows (e.g. for a by-pointer call on an object that is
// not a child: refusal, or a same-named child matched and properly unlinked).  After every call the
// real state is read back through public getters only (parent(), component(i), variable(i), units(i),
// reset(i), equivalentVariable(i), counts) and
//   I1 every listed child reports the container as parent()
//   I2 no entity listed twice / by two containers
//   I3 the hierarchy is acyclic (bounded walks, never a recursive library call)
//   I4 equivalence is symmetric and equivalentVariable(i) is non-null for i < count
//   I5 the observed state + return value equals one of the allowed outcomes ("affects exactly that object")
// are checked.  A history ends at its first violation (the model and the library have diverged, and a
// cyclic hierarchy makes later library calls recurse for ever).
// "Add an entity to the container that already holds it" is never generated (outside the claim);
// neither is "replace X by an entity that the same container already lists".
//
// Cases: [0, E) exhaustive batches: case = (start state, first operation); the batch runs the history
// [op1] and, if it is clean, every history [op1, op2].  [E, E+R) one random history of length 40 each.
#include "vh.h"
#include "vhc.h"

#include <algorithm>
#include <cstring>
#include <map>
#include <memory>
#include <set>

using namespace vh;

namespace {

// ---------------------------------------------------------------- universe
constexpr int N = 15;
enum EKind
{
    EK_MODEL,
    EK_COMP,
    EK_VAR,
    EK_UNITS,
    EK_RESET
};
const EKind kindOf[N] = {EK_MODEL, EK_MODEL, EK_COMP, EK_COMP, EK_COMP, EK_COMP, EK_VAR, EK_VAR, EK_VAR, EK_VAR, EK_UNITS, EK_UNITS, EK_UNITS, EK_RESET, EK_RESET};
const char *const label[N] = {"M0", "M1", "C0", "C1", "C2", "C3", "V0", "V1", "V2", "V3", "U0", "U1", "U2", "R0", "R1"};
const char *const ename[N] = {"m0", "m1", "a", "a", "b", "c", "x", "x", "y", "z", "u", "u", "w", "", ""};
constexpr int M_BASE = 0, C_BASE = 2, V_BASE = 6, U_BASE = 10, R_BASE = 13;
constexpr int NM = 2, NC = 4, NV = 4, NU = 3, NR = 2;

// list kinds
enum LK
{
    L_COMP,
    L_VAR,
    L_RESET,
    L_UNITS,
    NLK
};
const char *const lkName[NLK] = {"Component", "Variable", "Reset", "Units"};
LK lkOfEntity(int id)
{
    switch (kindOf[id]) {
    case EK_COMP:
        return L_COMP;
    case EK_VAR:
        return L_VAR;
    case EK_RESET:
        return L_RESET;
    default:
        return L_UNITS;
    }
}
// may entity `p` own a list of kind lk?
bool canOwn(int p, LK lk)
{
    if (kindOf[p] == EK_MODEL) {
        return lk == L_COMP || lk == L_UNITS;
    }
    if (kindOf[p] == EK_COMP) {
        return lk == L_COMP || lk == L_VAR || lk == L_RESET;
    }
    return false;
}
int elemBase(LK lk)
{
    return lk == L_COMP ? C_BASE : lk == L_VAR ? V_BASE :
                                   lk == L_RESET ? R_BASE :
                                                   U_BASE;
}
int elemCount(LK lk)
{
    return lk == L_COMP ? NC : lk == L_VAR ? NV :
                               lk == L_RESET ? NR :
                                               NU;
}

struct SmallList
{
    int8_t n = 0;
    int8_t e[10] = {0, 0, 0, 0, 0, 0, 0, 0, 0, 0};
    bool overflow = false;
    void push(int v)
    {
        if (n < 10) {
            e[n++] = static_cast<int8_t>(v);
        } else {
            overflow = true;
        }
    }
    int find(int v) const
    {
        for (int i = 0; i < n; ++i) {
            if (e[i] == v) {
                return i;
            }
        }
        return -1;
    }
    int count(int v) const
    {
        int c = 0;
        for (int i = 0; i < n; ++i) {
            c += e[i] == v;
        }
        return c;
    }
    void eraseAt(int i)
    {
        for (int j = i + 1; j < n; ++j) {
            e[j - 1] = e[j];
        }
        --n;
        e[n] = 0;
    }
    bool eraseValue(int v)
    {
        int i = find(v);
        if (i < 0) {
            return false;
        }
        eraseAt(i);
        return true;
    }
    void clear()
    {
        n = 0;
        memset(e, 0, sizeof(e));
    }
    void sort() { std::sort(e, e + n); }
    bool operator==(const SmallList &o) const { return n == o.n && memcmp(e, o.e, sizeof(e)) == 0; }
    std::string str() const
    {
        std::string s = "[";
        for (int i = 0; i < n; ++i) {
            s += (i ? "," : "");
            s += (e[i] >= 0 && e[i] < N) ? label[e[i]] : "?";
        }
        return s + "]";
    }
};

// State of the reference model / observed state (same shape).
struct St
{
    bool held[N];
    bool alive[N];
    int8_t parent[N]; // -1 none, -2 foreign/unknown object
    SmallList ls[NLK][N];
    SmallList eq[N]; // sorted
    St()
    {
        for (int i = 0; i < N; ++i) {
            held[i] = true;
            alive[i] = true;
            parent[i] = -1;
        }
    }
    bool sameObservable(const St &o) const
    {
        for (int i = 0; i < N; ++i) {
            if (alive[i] != o.alive[i]) {
                return false;
            }
            if (!alive[i]) {
                continue;
            }
            if (parent[i] != o.parent[i] || !(eq[i] == o.eq[i])) {
                return false;
            }
            for (int k = 0; k < NLK; ++k) {
                if (!(ls[k][i] == o.ls[k][i])) {
                    return false;
                }
            }
        }
        return true;
    }
    std::string str() const
    {
        std::string s;
        for (int i = 0; i < N; ++i) {
            s += label[i];
            if (!alive[i]) {
                s += ":dead ";
                continue;
            }
            s += std::string(held[i] ? "" : "(released)") + ":parent=" + (parent[i] >= 0 ? label[parent[i]] : parent[i] == -1 ? "-" :
                                                                                                                                  "FOREIGN");
            for (int k = 0; k < NLK; ++k) {
                if (ls[k][i].n > 0) {
                    s += std::string(" ") + lkName[k] + "s" + ls[k][i].str();
                }
            }
            if (eq[i].n > 0) {
                s += " eq" + eq[i].str();
            }
            s += "; ";
        }
        return s;
    }
};

std::string diffStates(const St &exp, const St &act)
{
    std::string d;
    for (int i = 0; i < N; ++i) {
        if (exp.alive[i] != act.alive[i]) {
            d += std::string(label[i]) + (act.alive[i] ? " is alive but should have been destroyed; " : " was destroyed but should be alive; ");
            continue;
        }
        if (!exp.alive[i]) {
            continue;
        }
        if (exp.parent[i] != act.parent[i]) {
            d += std::string(label[i]) + ".parent() is " + (act.parent[i] >= 0 ? label[act.parent[i]] : act.parent[i] == -1 ? "null" :
                                                                                                                              "a foreign object")
                 + " expected " + (exp.parent[i] >= 0 ? label[exp.parent[i]] : "null") + "; ";
        }
        for (int k = 0; k < NLK; ++k) {
            if (!(exp.ls[k][i] == act.ls[k][i])) {
                d += std::string(label[i]) + " lists " + lkName[k] + "s " + act.ls[k][i].str() + " expected " + exp.ls[k][i].str() + "; ";
            }
        }
        if (!(exp.eq[i] == act.eq[i])) {
            d += std::string(label[i]) + " equivalents " + act.eq[i].str() + " expected " + exp.eq[i].str() + "; ";
        }
    }
    return d;
}

// ---------------------------------------------------------------- model helpers
bool isAncestorOrSelf(const St &s, int a, int of)
{
    int cur = of;
    for (int step = 0; step <= N && cur >= 0; ++step) {
        if (cur == a) {
            return true;
        }
        cur = s.parent[cur];
    }
    return false;
}
// x is a proper descendant of root (through component lists / parent chain)
bool inSubtree(const St &s, int root, int x)
{
    return x != root && s.parent[x] >= 0 && isAncestorOrSelf(s, root, s.parent[x]);
}
void detach(St &s, int x)
{
    int p = s.parent[x];
    if (p >= 0) {
        s.ls[lkOfEntity(x)][p].eraseValue(x);
    }
    s.parent[x] = -1;
}
void attach(St &s, int p, int x)
{
    s.ls[lkOfEntity(x)][p].push(x);
    s.parent[x] = static_cast<int8_t>(p);
}
// liveness: reachable from held entities through child lists
void collect(St &s)
{
    bool reach[N];
    int stack[N * 4];
    int sp = 0;
    for (int i = 0; i < N; ++i) {
        reach[i] = s.alive[i] && s.held[i];
        if (reach[i]) {
            stack[sp++] = i;
        }
    }
    while (sp > 0) {
        int c = stack[--sp];
        for (int k = 0; k < NLK; ++k) {
            for (int j = 0; j < s.ls[k][c].n; ++j) {
                int x = s.ls[k][c].e[j];
                if (!reach[x]) {
                    reach[x] = true;
                    stack[sp++] = x;
                }
            }
        }
    }
    for (int i = 0; i < N; ++i) {
        if (s.alive[i] && !reach[i]) {
            s.alive[i] = false;
            s.held[i] = false;
            for (int k = 0; k < NLK; ++k) {
                for (int j = 0; j < s.ls[k][i].n; ++j) {
                    int x = s.ls[k][i].e[j];
                    if (reach[x] && s.parent[x] == i) {
                        s.parent[x] = -1;
                    }
                }
                s.ls[k][i].clear();
            }
            s.parent[i] = -1;
            for (int v = 0; v < N; ++v) {
                while (s.eq[v].eraseValue(i)) {
                }
            }
            s.eq[i].clear();
        }
    }
}
// components in the scope of P: direct children, or (deep) all descendants in depth-first order
void scopeOf(const St &s, LK lk, int P, bool deep, std::vector<int> &out, int depth = 0)
{
    for (int j = 0; j < s.ls[lk][P].n; ++j) {
        out.push_back(s.ls[lk][P].e[j]);
    }
    if (deep && lk == L_COMP && depth < N) {
        for (int j = 0; j < s.ls[L_COMP][P].n; ++j) {
            scopeOf(s, lk, s.ls[L_COMP][P].e[j], true, out, depth + 1);
        }
    }
}

// ---------------------------------------------------------------- operations
enum Verb
{
    ADD,
    RM_IDX,
    RM_NAME,
    RM_PTR,
    TAKE_IDX,
    TAKE_NAME,
    REPL_IDX,
    REPL_NAME,
    REPL_PTR,
    RM_ALL,
    HAS_PTR,
    HAS_ANCESTOR,
    ADD_EQ,
    ADD_EQ4,
    RM_EQ,
    RMALL_EQ,
    HAS_EQ,
    RELEASE
};

struct Op
{
    Verb verb = ADD;
    LK lk = L_COMP;
    int p = 0; // receiver / container (for equivalences: first variable; for RELEASE/HAS_ANCESTOR: the entity)
    int x = -1; // entity argument (old one for REPL_PTR)
    int y = -1; // replacement
    int idx = 0;
    int nameOf = -1; // entity whose name is used for by-name lookups
    bool flag = false; // searchEncapsulated / considerIndirect
};

bool verbApplies(Verb v, LK lk)
{
    switch (v) {
    case REPL_IDX:
    case REPL_PTR:
        return lk == L_COMP || lk == L_UNITS;
    case REPL_NAME:
        return lk == L_COMP || lk == L_UNITS;
    case RM_NAME:
    case TAKE_NAME:
        return lk != L_RESET;
    default:
        return true;
    }
}

std::string methodName(const Op &op)
{
    const std::string T = lkName[op.lk];
    switch (op.verb) {
    case ADD:
        return "add" + T;
    case RM_IDX:
    case RM_NAME:
    case RM_PTR:
        return "remove" + T;
    case TAKE_IDX:
    case TAKE_NAME:
        return "take" + T;
    case REPL_IDX:
    case REPL_NAME:
    case REPL_PTR:
        return "replace" + T;
    case RM_ALL:
        return op.lk == L_UNITS ? "removeAllUnits" : "removeAll" + T + "s";
    case HAS_PTR:
        return op.lk == L_COMP ? "containsComponent" : "has" + T;
    case HAS_ANCESTOR:
        return "hasAncestor";
    case ADD_EQ:
        return "addEquivalence";
    case ADD_EQ4:
        return "addEquivalence4";
    case RM_EQ:
        return "removeEquivalence";
    case RMALL_EQ:
        return "removeAllEquivalences";
    case HAS_EQ:
        return "hasEquivalentVariable";
    case RELEASE:
        return "release";
    }
    return "?";
}

// stable name of the operation kind (goes into keys)
std::string opKind(const Op &op)
{
    std::string m = methodName(op);
    std::string deep = (op.lk == L_COMP && op.flag) ? ",deep" : "";
    switch (op.verb) {
    case RM_IDX:
    case TAKE_IDX:
        return m + "(idx)";
    case RM_NAME:
    case TAKE_NAME:
        return m + "(name" + deep + ")";
    case RM_PTR:
    case HAS_PTR:
        return m + "(ptr" + deep + ")";
    case REPL_IDX:
        return m + "(idx,ptr)";
    case REPL_NAME:
        return m + "(name,ptr" + deep + ")";
    case REPL_PTR:
        return m + "(ptr,ptr" + deep + ")";
    case HAS_EQ:
        return m + (op.flag ? "(indirect)" : "(direct)");
    case RELEASE:
        return std::string("release(") + (kindOf[op.p] == EK_MODEL ? "model" : kindOf[op.p] == EK_COMP ? "component" :
                                                                           kindOf[op.p] == EK_VAR  ? "variable" :
                                                                           kindOf[op.p] == EK_UNITS ? "units" :
                                                                                                      "reset")
               + ")";
    default:
        return m;
    }
}

std::string opText(const Op &op)
{
    std::string P = label[op.p];
    std::string fl = (op.lk == L_COMP) ? (op.flag ? ", true" : ", false") : "";
    std::string nm = op.nameOf >= 0 ? std::string("\"") + ename[op.nameOf] + "\"" : "\"\"";
    std::string m = methodName(op);
    switch (op.verb) {
    case ADD:
        return P + "->" + m + "(" + label[op.x] + ")";
    case RM_IDX:
    case TAKE_IDX:
        return P + "->" + m + "(" + std::to_string(op.idx) + ")";
    case RM_NAME:
    case TAKE_NAME:
        return P + "->" + m + "(" + nm + fl + ")";
    case RM_PTR:
    case HAS_PTR:
        return P + "->" + m + "(" + label[op.x] + fl + ")";
    case REPL_IDX:
        return P + "->" + m + "(" + std::to_string(op.idx) + ", " + label[op.y] + ")";
    case REPL_NAME:
        return P + "->" + m + "(" + nm + ", " + label[op.y] + fl + ")";
    case REPL_PTR:
        return P + "->" + m + "(" + label[op.x] + ", " + label[op.y] + fl + ")";
    case RM_ALL:
        return P + "->" + m + "()";
    case HAS_ANCESTOR:
        return P + "->hasAncestor(" + label[op.x] + ")";
    case ADD_EQ:
        return std::string("Variable::addEquivalence(") + label[op.p] + ", " + label[op.x] + ")";
    case ADD_EQ4:
        return std::string("Variable::addEquivalence(") + label[op.p] + ", " + label[op.x] + ", \"mid\", \"cid\")";
    case RM_EQ:
        return std::string("Variable::removeEquivalence(") + label[op.p] + ", " + label[op.x] + ")";
    case RMALL_EQ:
        return P + "->removeAllEquivalences()";
    case HAS_EQ:
        return P + "->hasEquivalentVariable(" + label[op.x] + (op.flag ? ", true)" : ", false)");
    case RELEASE:
        return "release " + P + " (drop the harness's shared_ptr)";
    }
    return "?";
}

// ---- selection of the object(s) an operation may legitimately act on
struct Sel
{
    bool refuseOk = false;
    std::vector<int> cands;
};
bool sameName(int a, int b)
{
    return std::string(ename[a]) == ename[b];
}
Sel selIdx(const St &s, LK lk, int P, int idx)
{
    Sel r;
    if (idx < s.ls[lk][P].n) {
        r.cands.push_back(s.ls[lk][P].e[idx]);
    } else {
        r.refuseOk = true;
    }
    return r;
}
Sel selName(const St &s, LK lk, int P, int nameOf, bool deep)
{
    Sel r;
    for (int j = 0; j < s.ls[lk][P].n; ++j) {
        if (sameName(s.ls[lk][P].e[j], nameOf)) {
            r.cands.push_back(s.ls[lk][P].e[j]);
        }
    }
    if (r.cands.empty() && deep && lk == L_COMP) {
        std::vector<int> sc;
        scopeOf(s, lk, P, true, sc);
        for (int c : sc) {
            if (sameName(c, nameOf) && std::find(r.cands.begin(), r.cands.end(), c) == r.cands.end()) {
                r.cands.push_back(c);
            }
        }
    }
    r.refuseOk = r.cands.empty();
    return r;
}
Sel selPtr(const St &s, LK lk, int P, int X, bool deep)
{
    Sel r;
    if (s.ls[lk][P].find(X) >= 0) {
        r.cands.push_back(X); // a child: exactly that object
        return r;
    }
    if (deep && lk == L_COMP && inSubtree(s, P, X)) {
        r.cands.push_back(X);
    } else {
        r.refuseOk = true;
    }
    std::vector<int> sc;
    scopeOf(s, lk, P, deep, sc);
    for (int c : sc) {
        if (c != X && sameName(c, X) && std::find(r.cands.begin(), r.cands.end(), c) == r.cands.end()) {
            r.cands.push_back(c); // "matched to a structurally equal child" (the model only requires the same name)
        }
    }
    return r;
}
Sel selectFor(const St &s, const Op &op)
{
    switch (op.verb) {
    case RM_IDX:
    case TAKE_IDX:
    case REPL_IDX:
        return selIdx(s, op.lk, op.p, op.idx);
    case RM_NAME:
    case TAKE_NAME:
    case REPL_NAME:
        return selName(s, op.lk, op.p, op.nameOf, op.flag);
    default:
        return selPtr(s, op.lk, op.p, op.x, op.flag);
    }
}

// Is the operation meaningful and inside the claim in state s?
bool valid(const St &s, const Op &op)
{
    auto ok = [&](int id) { return id >= 0 && id < N && s.alive[id]; };
    if (!ok(op.p)) {
        return false;
    }
    switch (op.verb) {
    case ADD:
        return ok(op.x) && s.parent[op.x] != op.p; // adding to the current parent is outside the claim
    case RM_IDX:
    case TAKE_IDX:
        return op.idx <= s.ls[op.lk][op.p].n;
    case RM_NAME:
    case TAKE_NAME:
    case RM_ALL:
        return true;
    case RM_PTR:
    case HAS_PTR:
    case HAS_ANCESTOR:
    case ADD_EQ:
    case ADD_EQ4:
    case RM_EQ:
    case HAS_EQ:
        return ok(op.x);
    case RMALL_EQ:
        return true;
    case REPL_IDX:
    case REPL_NAME:
    case REPL_PTR: {
        if (!ok(op.y) || (op.verb == REPL_PTR && !ok(op.x)) || (op.verb == REPL_IDX && op.idx > s.ls[op.lk][op.p].n)) {
            return false;
        }
        Sel sel = selectFor(s, op);
        if (op.verb == REPL_IDX && sel.cands.size() == 1 && sel.cands[0] == op.y) {
            return true; // a child replaced by itself BY INDEX (c = p->component(i); edit c; p->replaceComponent(i, c)): nothing may change.  By pointer or name the library may match a structurally equal sibling first, which is the excluded case below.
        }
        for (int t : sel.cands) {
            if (s.parent[t] >= 0 && s.parent[t] == s.parent[op.y]) {
                return false; // the replacement is already held by that container: outside the claim
            }
        }
        return true;
    }
    case RELEASE:
        return s.held[op.p];
    }
    return false;
}

struct Alt
{
    St st;
    long ret;
    std::string what;
};

void finish(std::vector<Alt> &alts)
{
    for (auto &a : alts) {
        collect(a.st);
    }
}

// the outcomes of replacing `old` by Y
void replaceAlts(const St &s, LK lk, int old, int Y, std::vector<Alt> &alts)
{
    int Q = s.parent[old];
    if (Y == old) {
        alts.push_back({s, 1, std::string("replaced ") + label[old] + " by itself: nothing changes"});
        return;
    }
    if (lk == L_COMP && isAncestorOrSelf(s, Y, Q)) {
        alts.push_back({s, 0, "refused (replacement is the container or one of its ancestors)"});
        return;
    }
    St t = s;
    detach(t, Y);
    int pos = t.ls[lk][Q].find(old);
    t.ls[lk][Q].e[pos] = static_cast<int8_t>(Y);
    t.parent[Y] = static_cast<int8_t>(Q);
    t.parent[old] = -1;
    alts.push_back({t, 1, std::string("replaced ") + label[old] + " by " + label[Y]});
    if (s.parent[Y] >= 0) {
        alts.push_back({s, 0, "refused (replacement has another parent)"});
    }
}

bool eqReach(const St &s, int from, int to)
{
    bool seen[N] = {};
    int stack[N * N];
    int sp = 0;
    stack[sp++] = from;
    seen[from] = true;
    while (sp > 0) {
        int c = stack[--sp];
        for (int j = 0; j < s.eq[c].n; ++j) {
            int w = s.eq[c].e[j];
            if (w == to) {
                return true;
            }
            if (!seen[w]) {
                seen[w] = true;
                stack[sp++] = w;
            }
        }
    }
    return false;
}

// All outcomes the property allows.  ret: bool as 0/1, taken entity id or -1, void 0.
std::vector<Alt> expect(const St &s, const Op &op)
{
    std::vector<Alt> alts;
    switch (op.verb) {
    case ADD: {
        if (op.lk == L_COMP && isAncestorOrSelf(s, op.x, op.p)) {
            alts.push_back({s, 0, "refused (would create a cycle)"});
        } else {
            St t = s;
            detach(t, op.x);
            attach(t, op.p, op.x);
            alts.push_back({t, 1, "moved/added"});
        }
        break;
    }
    case RM_IDX:
    case RM_NAME:
    case RM_PTR:
    case TAKE_IDX:
    case TAKE_NAME: {
        bool take = op.verb == TAKE_IDX || op.verb == TAKE_NAME;
        Sel sel = selectFor(s, op);
        if (sel.refuseOk) {
            alts.push_back({s, take ? -1L : 0L, "refused"});
        }
        for (int c : sel.cands) {
            St t = s;
            detach(t, c);
            if (take) {
                t.held[c] = true;
            }
            alts.push_back({t, take ? long(c) : 1L, std::string("removed ") + label[c]});
        }
        break;
    }
    case REPL_IDX:
    case REPL_NAME:
    case REPL_PTR: {
        Sel sel = selectFor(s, op);
        if (sel.refuseOk) {
            alts.push_back({s, 0, "refused"});
        }
        for (int c : sel.cands) {
            replaceAlts(s, op.lk, c, op.y, alts);
        }
        break;
    }
    case RM_ALL: {
        St t = s;
        while (t.ls[op.lk][op.p].n > 0) {
            detach(t, t.ls[op.lk][op.p].e[0]);
        }
        alts.push_back({t, 0, "all removed"});
        break;
    }
    case HAS_PTR: {
        Sel sel = selPtr(s, op.lk, op.p, op.x, op.flag);
        bool has = std::find(sel.cands.begin(), sel.cands.end(), op.x) != sel.cands.end();
        if (has) {
            alts.push_back({s, 1, "contained"});
        } else {
            alts.push_back({s, 0, "not contained"});
            if (!sel.cands.empty()) {
                alts.push_back({s, 1, "a same-named child matched"});
            }
        }
        break;
    }
    case HAS_ANCESTOR:
        alts.push_back({s, (op.x != op.p && s.parent[op.p] >= 0 && isAncestorOrSelf(s, op.x, s.parent[op.p])) ? 1L : 0L, "query"});
        break;
    case ADD_EQ:
    case ADD_EQ4: {
        if (op.p == op.x || s.eq[op.p].find(op.x) >= 0) {
            alts.push_back({s, 0, "refused (self or already equivalent)"});
        } else {
            St t = s;
            t.eq[op.p].push(op.x);
            t.eq[op.p].sort();
            t.eq[op.x].push(op.p);
            t.eq[op.x].sort();
            alts.push_back({t, 1, "equivalence added"});
        }
        break;
    }
    case RM_EQ: {
        if (op.p != op.x && s.eq[op.p].find(op.x) >= 0) {
            St t = s;
            t.eq[op.p].eraseValue(op.x);
            t.eq[op.x].eraseValue(op.p);
            alts.push_back({t, 1, "equivalence removed"});
        } else {
            alts.push_back({s, 0, "refused (not equivalent)"});
        }
        break;
    }
    case RMALL_EQ: {
        St t = s;
        for (int j = 0; j < s.eq[op.p].n; ++j) {
            t.eq[s.eq[op.p].e[j]].eraseValue(op.p);
        }
        t.eq[op.p].clear();
        alts.push_back({t, 0, "all equivalences removed"});
        break;
    }
    case HAS_EQ: {
        bool r = op.flag ? (op.p != op.x && eqReach(s, op.p, op.x)) : (s.eq[op.p].find(op.x) >= 0);
        alts.push_back({s, r ? 1L : 0L, "query"});
        break;
    }
    case RELEASE: {
        St t = s;
        t.held[op.p] = false;
        alts.push_back({t, 0, "released"});
        break;
    }
    }
    finish(alts);
    return alts;
}

// Structural class of the argument(s) in the pre-state (goes into keys).
std::string twinClass(const St &s, LK lk, int container, int X, bool deep)
{
    // is there a same-named other entity in the scope of `container`, and does it precede X?
    std::vector<int> sc;
    scopeOf(s, lk, container, deep, sc);
    bool any = false;
    bool before = false;
    bool seenX = false;
    for (int c : sc) {
        if (c == X) {
            seenX = true;
        } else if (sameName(c, X)) {
            any = true;
            if (!seenX) {
                before = true;
            }
        }
    }
    bool xIn = std::find(sc.begin(), sc.end(), X) != sc.end();
    if (!any) {
        return "";
    }
    if (!xIn) {
        return "+twin";
    }
    return before ? "+twin-before" : "+twin-after";
}
std::string relClass(const St &s, LK lk, int P, int X, bool deep)
{
    std::string r;
    if (s.ls[lk][P].find(X) >= 0) {
        r = "child";
    } else if (lk == L_COMP && inSubtree(s, P, X)) {
        r = deep ? "descendant" : "descendant-not-searched";
    } else if (X == P) {
        r = s.parent[X] >= 0 ? "self-parented" : "self";
    } else if (lk == L_COMP && isAncestorOrSelf(s, X, P)) {
        r = "ancestor";
    } else if (s.parent[X] >= 0) {
        r = "elsewhere";
    } else {
        r = "orphan";
    }
    return r + twinClass(s, lk, P, X, deep);
}
std::string newClass(const St &s, LK lk, int P, int Y, const Sel &sel)
{
    if (sel.cands.size() == 1 && sel.cands[0] == Y) {
        return "itself"; // the replacement is the very child being replaced
    }
    if (lk == L_COMP) {
        if (Y == P) {
            return "self";
        }
        if (isAncestorOrSelf(s, Y, P)) {
            return "ancestor";
        }
        for (int c : sel.cands) {
            if (inSubtree(s, c, Y)) {
                return "inside-old";
            }
            if (s.parent[c] >= 0 && isAncestorOrSelf(s, Y, s.parent[c])) {
                return "ancestor-of-target";
            }
        }
    }
    return s.parent[Y] >= 0 ? "elsewhere" : "orphan";
}
std::string situation(const St &s, const Op &op)
{
    switch (op.verb) {
    case ADD: {
        std::string r;
        if (op.x == op.p) {
            r = s.parent[op.x] >= 0 ? "self-parented" : "self";
        } else if (op.lk == L_COMP && isAncestorOrSelf(s, op.x, op.p)) {
            r = s.parent[op.x] >= 0 ? "ancestor-parented" : "ancestor";
        } else if (s.parent[op.x] >= 0) {
            r = "move" + twinClass(s, op.lk, s.parent[op.x], op.x, false);
        } else {
            r = "orphan";
        }
        return r;
    }
    case RM_IDX:
    case TAKE_IDX:
        return op.idx < s.ls[op.lk][op.p].n ? "inrange" : "pastend";
    case RM_NAME:
    case TAKE_NAME:
    case REPL_NAME: {
        Sel sel = selName(s, op.lk, op.p, op.nameOf, op.flag);
        std::string r;
        if (sel.cands.empty()) {
            r = "miss";
        } else {
            r = s.parent[sel.cands[0]] == op.p ? "hit" : "hit-deep";
            if (sel.cands.size() > 1) {
                r += "+dup";
            }
        }
        if (op.verb == REPL_NAME) {
            r += ">" + newClass(s, op.lk, op.p, op.y, sel);
        }
        return r;
    }
    case RM_PTR:
    case HAS_PTR:
        return relClass(s, op.lk, op.p, op.x, op.flag);
    case REPL_IDX: {
        Sel sel = selIdx(s, op.lk, op.p, op.idx);
        return std::string(sel.cands.empty() ? "pastend" : "inrange") + ">" + newClass(s, op.lk, op.p, op.y, sel);
    }
    case REPL_PTR: {
        Sel sel = selPtr(s, op.lk, op.p, op.x, op.flag);
        return relClass(s, op.lk, op.p, op.x, op.flag) + ">" + newClass(s, op.lk, op.p, op.y, sel);
    }
    case RM_ALL:
        return s.ls[op.lk][op.p].n > 0 ? "nonempty" : "empty";
    case HAS_ANCESTOR:
        return "query";
    case ADD_EQ:
    case ADD_EQ4:
    case RM_EQ:
    case HAS_EQ:
        return op.p == op.x ? "self" : s.eq[op.p].find(op.x) >= 0 ? "existing" :
                                                                    "absent";
    case RMALL_EQ:
        return s.eq[op.p].n > 0 ? "nonempty" : "empty";
    case RELEASE: {
        bool kids = false;
        for (int k = 0; k < NLK; ++k) {
            kids = kids || s.ls[k][op.p].n > 0;
        }
        return std::string(s.parent[op.p] >= 0 ? "owned" : "root") + (kids ? "+children" : "") + (s.eq[op.p].n > 0 ? "+equivalences" : "");
    }
    }
    return "?";
}

// ---------------------------------------------------------------- the real objects
struct Uni
{
    ModelPtr hm[NM];
    ComponentPtr hc[NC];
    VariablePtr hv[NV];
    UnitsPtr hu[NU];
    ResetPtr hr[NR];
    std::weak_ptr<Model> wm[NM];
    std::weak_ptr<Component> wc[NC];
    std::weak_ptr<Variable> wv[NV];
    std::weak_ptr<Units> wu[NU];
    std::weak_ptr<Reset> wr[NR];
    const Entity *addr[N];

    Uni()
    {
        for (int i = 0; i < NM; ++i) {
            hm[i] = Model::create(ename[M_BASE + i]);
            wm[i] = hm[i];
            addr[M_BASE + i] = hm[i].get();
        }
        for (int i = 0; i < NC; ++i) {
            hc[i] = Component::create(ename[C_BASE + i]);
            wc[i] = hc[i];
            addr[C_BASE + i] = hc[i].get();
        }
        for (int i = 0; i < NV; ++i) {
            hv[i] = Variable::create(ename[V_BASE + i]);
            wv[i] = hv[i];
            addr[V_BASE + i] = hv[i].get();
        }
        for (int i = 0; i < NU; ++i) {
            hu[i] = Units::create(ename[U_BASE + i]);
            wu[i] = hu[i];
            addr[U_BASE + i] = hu[i].get();
        }
        for (int i = 0; i < NR; ++i) {
            hr[i] = Reset::create();
            wr[i] = hr[i];
            addr[R_BASE + i] = hr[i].get();
        }
    }
    ModelPtr M(int id) const { return wm[id - M_BASE].lock(); }
    ComponentPtr C(int id) const { return wc[id - C_BASE].lock(); }
    VariablePtr V(int id) const { return wv[id - V_BASE].lock(); }
    UnitsPtr U(int id) const { return wu[id - U_BASE].lock(); }
    ResetPtr R(int id) const { return wr[id - R_BASE].lock(); }
    ComponentEntityPtr CE(int id) const
    {
        if (kindOf[id] == EK_MODEL) {
            return M(id);
        }
        return C(id);
    }
    ParentedEntityPtr PE(int id) const
    {
        switch (kindOf[id]) {
        case EK_MODEL:
            return M(id);
        case EK_COMP:
            return C(id);
        case EK_VAR:
            return V(id);
        case EK_UNITS:
            return U(id);
        default:
            return R(id);
        }
    }
    bool expired(int id) const
    {
        switch (kindOf[id]) {
        case EK_MODEL:
            return wm[id - M_BASE].expired();
        case EK_COMP:
            return wc[id - C_BASE].expired();
        case EK_VAR:
            return wv[id - V_BASE].expired();
        case EK_UNITS:
            return wu[id - U_BASE].expired();
        default:
            return wr[id - R_BASE].expired();
        }
    }
    bool isHeld(int id) const
    {
        switch (kindOf[id]) {
        case EK_MODEL:
            return hm[id - M_BASE] != nullptr;
        case EK_COMP:
            return hc[id - C_BASE] != nullptr;
        case EK_VAR:
            return hv[id - V_BASE] != nullptr;
        case EK_UNITS:
            return hu[id - U_BASE] != nullptr;
        default:
            return hr[id - R_BASE] != nullptr;
        }
    }
    void release(int id)
    {
        switch (kindOf[id]) {
        case EK_MODEL:
            hm[id - M_BASE].reset();
            break;
        case EK_COMP:
            hc[id - C_BASE].reset();
            break;
        case EK_VAR:
            hv[id - V_BASE].reset();
            break;
        case EK_UNITS:
            hu[id - U_BASE].reset();
            break;
        default:
            hr[id - R_BASE].reset();
            break;
        }
    }
    int idOf(const Entity *e) const
    {
        if (e == nullptr) {
            return -1;
        }
        for (int i = 0; i < N; ++i) {
            if (addr[i] == e) {
                return i;
            }
        }
        return -2;
    }
    // keep what a take*() returned
    long keep(const ComponentPtr &c)
    {
        int id = idOf(c.get());
        if (id >= C_BASE && id < C_BASE + NC) {
            hc[id - C_BASE] = c;
        }
        return id;
    }
    long keep(const VariablePtr &c)
    {
        int id = idOf(c.get());
        if (id >= V_BASE && id < V_BASE + NV) {
            hv[id - V_BASE] = c;
        }
        return id;
    }
    long keep(const UnitsPtr &c)
    {
        int id = idOf(c.get());
        if (id >= U_BASE && id < U_BASE + NU) {
            hu[id - U_BASE] = c;
        }
        return id;
    }
    long keep(const ResetPtr &c)
    {
        int id = idOf(c.get());
        if (id >= R_BASE && id < R_BASE + NR) {
            hr[id - R_BASE] = c;
        }
        return id;
    }
};

struct Observed
{
    St st;
    std::vector<std::string> anomalies;
};

// Read the whole reachable state back through public getters.  Nothing here recurses in the library.
Observed observe(const Uni &u)
{
    Observed o;
    St &s = o.st;
    for (int id = 0; id < N; ++id) {
        s.held[id] = u.isHeld(id);
        s.alive[id] = !u.expired(id);
        s.parent[id] = -1;
    }
    for (int id = 0; id < N; ++id) {
        if (!s.alive[id]) {
            continue;
        }
        ParentedEntityPtr e = u.PE(id);
        if (e == nullptr) {
            s.alive[id] = false;
            continue;
        }
        ParentedEntityPtr par = e->parent();
        bool hp = e->hasParent();
        if (hp != (par != nullptr)) {
            o.anomalies.push_back(std::string("hasParent-disagrees-with-parent:") + lkName[lkOfEntity(id)]);
        }
        s.parent[id] = static_cast<int8_t>(u.idOf(par.get()));
        if (kindOf[id] == EK_MODEL || kindOf[id] == EK_COMP) {
            ComponentEntityPtr ce = u.CE(id);
            size_t n = ce->componentCount();
            for (size_t i = 0; i < n && i < 12; ++i) {
                ComponentPtr c = ce->component(i);
                int cid = u.idOf(c.get());
                if (cid < 0) {
                    o.anomalies.push_back(cid == -1 ? "null-child:component" : "foreign-child:component");
                } else {
                    s.ls[L_COMP][id].push(cid);
                }
            }
        }
        if (kindOf[id] == EK_MODEL) {
            ModelPtr m = u.M(id);
            size_t n = m->unitsCount();
            for (size_t i = 0; i < n && i < 12; ++i) {
                UnitsPtr c = m->units(i);
                int cid = u.idOf(c.get());
                if (cid < 0) {
                    o.anomalies.push_back(cid == -1 ? "null-child:units" : "foreign-child:units");
                } else {
                    s.ls[L_UNITS][id].push(cid);
                }
            }
        }
        if (kindOf[id] == EK_COMP) {
            ComponentPtr c = u.C(id);
            size_t n = c->variableCount();
            for (size_t i = 0; i < n && i < 12; ++i) {
                VariablePtr v = c->variable(i);
                int cid = u.idOf(v.get());
                if (cid < 0) {
                    o.anomalies.push_back(cid == -1 ? "null-child:variable" : "foreign-child:variable");
                } else {
                    s.ls[L_VAR][id].push(cid);
                }
            }
            n = c->resetCount();
            for (size_t i = 0; i < n && i < 12; ++i) {
                ResetPtr r = c->reset(i);
                int cid = u.idOf(r.get());
                if (cid < 0) {
                    o.anomalies.push_back(cid == -1 ? "null-child:reset" : "foreign-child:reset");
                } else {
                    s.ls[L_RESET][id].push(cid);
                }
            }
        }
        if (kindOf[id] == EK_VAR) {
            VariablePtr v = u.V(id);
            size_t n = v->equivalentVariableCount();
            for (size_t i = 0; i < n && i < 12; ++i) {
                VariablePtr w = v->equivalentVariable(i);
                int wid = u.idOf(w.get());
                if (wid == -1) {
                    o.anomalies.push_back("equivalent-variable-null-below-count");
                } else if (wid == -2) {
                    o.anomalies.push_back("equivalent-variable-foreign");
                } else {
                    s.eq[id].push(wid);
                }
            }
            if (v->equivalentVariable(n) != nullptr) {
                o.anomalies.push_back("equivalent-variable-nonnull-at-count");
            }
            s.eq[id].sort();
        }
    }
    // temporaries taken by lock() above are gone again here; liveness was sampled before taking them
    return o;
}

// Invariants I1-I4 on an observed state; returns (invariant name, detail) pairs.
std::vector<std::pair<std::string, std::string>> invariants(const Observed &o)
{
    std::vector<std::pair<std::string, std::string>> bad;
    const St &s = o.st;
    for (const auto &a : o.anomalies) {
        bad.push_back({a.rfind("equivalent-variable", 0) == 0 ? "equiv-dangling" : "listing-anomaly", a});
    }
    int listedBy[N];
    for (int i = 0; i < N; ++i) {
        listedBy[i] = -1;
    }
    for (int p = 0; p < N; ++p) {
        if (!s.alive[p]) {
            continue;
        }
        for (int k = 0; k < NLK; ++k) {
            const SmallList &l = s.ls[k][p];
            for (int j = 0; j < l.n; ++j) {
                int x = l.e[j];
                if (s.parent[x] != p) {
                    bad.push_back({"listed-parent-mismatch", std::string(label[p]) + " lists " + label[x] + " but " + label[x] + ".parent() is " + (s.parent[x] >= 0 ? label[s.parent[x]] : "null")});
                }
                if (l.find(x) != j) {
                    bad.push_back({"listed-twice", std::string(label[p]) + " lists " + label[x] + " twice: " + l.str()});
                } else if (listedBy[x] >= 0 && listedBy[x] != p) {
                    bad.push_back({"listed-by-two", std::string(label[x]) + " is listed by " + label[listedBy[x]] + " and by " + label[p]});
                }
                listedBy[x] = p;
            }
        }
    }
    // acyclic: parent chains and listing relation
    for (int x = 0; x < N; ++x) {
        if (!s.alive[x]) {
            continue;
        }
        int cur = s.parent[x];
        bool cyc = false;
        for (int step = 0; step <= N + 1 && cur >= 0; ++step) {
            if (cur == x) {
                cyc = true;
                break;
            }
            cur = s.parent[cur];
        }
        if (!cyc && cur >= 0) {
            cyc = true; // chain longer than the universe
        }
        if (cyc) {
            bad.push_back({"cycle", std::string(label[x]) + " is its own ancestor (parent() chain returns to it)"});
            break;
        }
    }
    for (int x = C_BASE; x < C_BASE + NC; ++x) {
        if (!s.alive[x]) {
            continue;
        }
        // breadth-first over listed components with a bound
        bool seen[N] = {};
        int queue[N * 12];
        int qh = 0;
        int qt = 0;
        queue[qt++] = x;
        bool cyc = false;
        int steps = 0;
        while (qh < qt && steps < 200 && !cyc) {
            int c = queue[qh++];
            ++steps;
            for (int j = 0; j < s.ls[L_COMP][c].n; ++j) {
                int y = s.ls[L_COMP][c].e[j];
                if (y == x) {
                    cyc = true;
                    break;
                }
                if (!seen[y] && qt < N * 12) {
                    seen[y] = true;
                    queue[qt++] = y;
                }
            }
        }
        if (cyc) {
            bad.push_back({"cycle", std::string(label[x]) + " is listed among its own descendants"});
            break;
        }
    }
    // equivalence symmetric
    for (int v = V_BASE; v < V_BASE + NV; ++v) {
        if (!s.alive[v]) {
            continue;
        }
        for (int w = V_BASE; w < V_BASE + NV; ++w) {
            if (!s.alive[w]) {
                if (s.eq[v].count(w) > 0) {
                    bad.push_back({"equiv-dangling", std::string(label[v]) + " lists destroyed " + label[w]});
                }
                continue;
            }
            if (s.eq[v].count(w) != s.eq[w].count(v)) {
                bad.push_back({"equiv-asymmetric", std::string(label[v]) + " lists " + label[w] + " x" + std::to_string(s.eq[v].count(w)) + " but " + label[w] + " lists " + label[v] + " x" + std::to_string(s.eq[w].count(v))});
            }
        }
    }
    return bad;
}

// Perform the call on the real objects.  All temporaries die before the function returns.
long applyReal(Uni &u, const Op &op)
{
    const std::string nm = op.nameOf >= 0 ? ename[op.nameOf] : "";
    const size_t idx = static_cast<size_t>(op.idx);
    switch (op.verb) {
    case RELEASE:
        u.release(op.p);
        return 0;
    case HAS_ANCESTOR:
        return u.PE(op.p)->hasAncestor(u.PE(op.x)) ? 1 : 0;
    case ADD_EQ:
        return Variable::addEquivalence(u.V(op.p), u.V(op.x)) ? 1 : 0;
    case ADD_EQ4:
        return Variable::addEquivalence(u.V(op.p), u.V(op.x), "mid", "cid") ? 1 : 0;
    case RM_EQ:
        return Variable::removeEquivalence(u.V(op.p), u.V(op.x)) ? 1 : 0;
    case RMALL_EQ:
        u.V(op.p)->removeAllEquivalences();
        return 0;
    case HAS_EQ:
        return u.V(op.p)->hasEquivalentVariable(u.V(op.x), op.flag) ? 1 : 0;
    default:
        break;
    }
    if (op.lk == L_COMP) {
        ComponentEntityPtr P = u.CE(op.p);
        switch (op.verb) {
        case ADD:
            return P->addComponent(u.C(op.x)) ? 1 : 0;
        case RM_IDX:
            return P->removeComponent(idx) ? 1 : 0;
        case RM_NAME:
            return P->removeComponent(nm, op.flag) ? 1 : 0;
        case RM_PTR:
            return P->removeComponent(u.C(op.x), op.flag) ? 1 : 0;
        case TAKE_IDX:
            return u.keep(P->takeComponent(idx));
        case TAKE_NAME:
            return u.keep(P->takeComponent(nm, op.flag));
        case REPL_IDX:
            return P->replaceComponent(idx, u.C(op.y)) ? 1 : 0;
        case REPL_NAME:
            return P->replaceComponent(nm, u.C(op.y), op.flag) ? 1 : 0;
        case REPL_PTR:
            return P->replaceComponent(u.C(op.x), u.C(op.y), op.flag) ? 1 : 0;
        case RM_ALL:
            P->removeAllComponents();
            return 0;
        case HAS_PTR:
            return P->containsComponent(u.C(op.x), op.flag) ? 1 : 0;
        default:
            return -99;
        }
    }
    if (op.lk == L_UNITS) {
        ModelPtr P = u.M(op.p);
        switch (op.verb) {
        case ADD:
            return P->addUnits(u.U(op.x)) ? 1 : 0;
        case RM_IDX:
            return P->removeUnits(idx) ? 1 : 0;
        case RM_NAME:
            return P->removeUnits(nm) ? 1 : 0;
        case RM_PTR:
            return P->removeUnits(u.U(op.x)) ? 1 : 0;
        case TAKE_IDX:
            return u.keep(P->takeUnits(idx));
        case TAKE_NAME:
            return u.keep(P->takeUnits(nm));
        case REPL_IDX:
            return P->replaceUnits(idx, u.U(op.y)) ? 1 : 0;
        case REPL_NAME:
            return P->replaceUnits(nm, u.U(op.y)) ? 1 : 0;
        case REPL_PTR:
            return P->replaceUnits(u.U(op.x), u.U(op.y)) ? 1 : 0;
        case RM_ALL:
            P->removeAllUnits();
            return 0;
        case HAS_PTR:
            return P->hasUnits(u.U(op.x)) ? 1 : 0;
        default:
            return -99;
        }
    }
    ComponentPtr P = u.C(op.p);
    if (op.lk == L_VAR) {
        switch (op.verb) {
        case ADD:
            return P->addVariable(u.V(op.x)) ? 1 : 0;
        case RM_IDX:
            return P->removeVariable(idx) ? 1 : 0;
        case RM_NAME:
            return P->removeVariable(nm) ? 1 : 0;
        case RM_PTR:
            return P->removeVariable(u.V(op.x)) ? 1 : 0;
        case TAKE_IDX:
            return u.keep(P->takeVariable(idx));
        case TAKE_NAME:
            return u.keep(P->takeVariable(nm));
        case RM_ALL:
            P->removeAllVariables();
            return 0;
        case HAS_PTR:
            return P->hasVariable(u.V(op.x)) ? 1 : 0;
        default:
            return -99;
        }
    }
    switch (op.verb) {
    case ADD:
        return P->addReset(u.R(op.x)) ? 1 : 0;
    case RM_IDX:
        return P->removeReset(idx) ? 1 : 0;
    case RM_PTR:
        return P->removeReset(u.R(op.x)) ? 1 : 0;
    case TAKE_IDX:
        return u.keep(P->takeReset(idx));
    case RM_ALL:
        P->removeAllResets();
        return 0;
    case HAS_PTR:
        return P->hasReset(u.R(op.x)) ? 1 : 0;
    default:
        return -99;
    }
}

// ---------------------------------------------------------------- start states
const int NSTART = 7;
const char *const startName[NSTART] = {"empty", "twins", "two-models", "chain", "twins-children-released", "two-models-intermediates-released", "equivalence-star-first-member-destroyed"};

void buildStart(Uni &u, int which)
{
    auto M = [&](int i) { return u.hm[i]; };
    auto C = [&](int i) { return u.hc[i]; };
    auto V = [&](int i) { return u.hv[i]; };
    auto U = [&](int i) { return u.hu[i]; };
    auto R = [&](int i) { return u.hr[i]; };
    switch (which) {
    case 0:
        break;
    case 1:
    case 4:
        // C0 and C1 stay empty so that they are structurally identical; V0/V1 (identical) share C2, U0/U1 share M0, R0/R1 share C3
        M(0)->addComponent(C(0));
        M(0)->addComponent(C(1));
        M(0)->addComponent(C(2));
        C(2)->addComponent(C(3));
        C(2)->addVariable(V(0));
        C(2)->addVariable(V(1));
        C(2)->addVariable(V(2));
        C(3)->addVariable(V(3));
        M(0)->addUnits(U(0));
        M(0)->addUnits(U(1));
        M(1)->addUnits(U(2));
        C(3)->addReset(R(0));
        C(3)->addReset(R(1));
        Variable::addEquivalence(V(2), V(3));
        if (which == 4) {
            for (int id = C_BASE; id < N; ++id) {
                u.release(id);
            }
        }
        break;
    case 2:
    case 5:
        M(0)->addComponent(C(0));
        C(0)->addComponent(C(2));
        M(1)->addComponent(C(1));
        C(1)->addComponent(C(3));
        C(0)->addVariable(V(0));
        C(1)->addVariable(V(1));
        C(2)->addVariable(V(2));
        C(3)->addVariable(V(3));
        M(0)->addUnits(U(0));
        M(1)->addUnits(U(1));
        M(0)->addUnits(U(2));
        C(0)->addReset(R(0));
        C(1)->addReset(R(1));
        Variable::addEquivalence(V(0), V(1));
        Variable::addEquivalence(V(2), V(3));
        Variable::addEquivalence(V(0), V(2));
        if (which == 5) {
            u.release(C_BASE + 0);
            u.release(C_BASE + 1);
            for (int id = V_BASE; id < V_BASE + NV; ++id) {
                u.release(id);
            }
        }
        break;
    case 6:
        // V0 is equivalent to V1, V2, V3 (added in that order); V1 belongs to nothing and is then destroyed, so V0's
        // list starts with an expired entry
        M(0)->addComponent(C(0));
        M(0)->addComponent(C(2));
        M(0)->addComponent(C(3));
        C(0)->addVariable(V(0));
        C(2)->addVariable(V(2));
        C(3)->addVariable(V(3));
        Variable::addEquivalence(V(0), V(1));
        Variable::addEquivalence(V(0), V(2));
        Variable::addEquivalence(V(0), V(3));
        u.release(V_BASE + 1);
        break;
    case 3:
        M(0)->addComponent(C(0));
        C(0)->addComponent(C(1));
        C(1)->addComponent(C(2));
        C(2)->addComponent(C(3));
        C(0)->addVariable(V(0));
        C(1)->addVariable(V(1));
        C(2)->addVariable(V(2));
        C(3)->addVariable(V(3));
        M(0)->addUnits(U(0));
        M(0)->addUnits(U(1));
        M(0)->addUnits(U(2));
        C(3)->addReset(R(0));
        C(3)->addReset(R(1));
        Variable::addEquivalence(V(0), V(1));
        Variable::addEquivalence(V(1), V(2));
        Variable::addEquivalence(V(2), V(3));
        break;
    }
}

// ---------------------------------------------------------------- op instances
const Verb listVerbs[] = {ADD, RM_IDX, RM_NAME, RM_PTR, TAKE_IDX, TAKE_NAME, REPL_IDX, REPL_NAME, REPL_PTR, RM_ALL, HAS_PTR};

// representative entity per distinct name of a list kind
std::vector<int> nameReps(LK lk)
{
    std::vector<int> r;
    for (int i = elemBase(lk); i < elemBase(lk) + elemCount(lk); ++i) {
        bool dup = false;
        for (int j : r) {
            dup = dup || sameName(i, j);
        }
        if (!dup) {
            r.push_back(i);
        }
    }
    return r;
}

// The complete, state-independent list of operation instances (validity is decided per state).
const std::vector<Op> &allOps()
{
    static std::vector<Op> ops;
    if (!ops.empty()) {
        return ops;
    }
    for (int lki = 0; lki < NLK; ++lki) {
        LK lk = static_cast<LK>(lki);
        for (int p = 0; p < N; ++p) {
            if (!canOwn(p, lk)) {
                continue;
            }
            const int eb = elemBase(lk);
            const int ec = elemCount(lk);
            const int nflags = lk == L_COMP ? 2 : 1;
            for (Verb v : listVerbs) {
                if (!verbApplies(v, lk)) {
                    continue;
                }
                for (int f = 0; f < nflags; ++f) {
                    Op o;
                    o.verb = v;
                    o.lk = lk;
                    o.p = p;
                    o.flag = f == 1;
                    switch (v) {
                    case ADD:
                        if (f == 0) {
                            for (int x = eb; x < eb + ec; ++x) {
                                o.x = x;
                                ops.push_back(o);
                            }
                        }
                        break;
                    case RM_IDX:
                    case TAKE_IDX:
                        if (f == 0) {
                            for (int i = 0; i <= ec; ++i) {
                                o.idx = i;
                                ops.push_back(o);
                            }
                        }
                        break;
                    case RM_NAME:
                    case TAKE_NAME:
                        for (int r : nameReps(lk)) {
                            o.nameOf = r;
                            ops.push_back(o);
                        }
                        break;
                    case RM_PTR:
                    case HAS_PTR:
                        for (int x = eb; x < eb + ec; ++x) {
                            o.x = x;
                            ops.push_back(o);
                        }
                        break;
                    case REPL_IDX:
                        if (f == 0) {
                            for (int i = 0; i <= ec; ++i) {
                                for (int y = eb; y < eb + ec; ++y) {
                                    o.idx = i;
                                    o.y = y;
                                    ops.push_back(o);
                                }
                            }
                        }
                        break;
                    case REPL_NAME:
                        for (int r : nameReps(lk)) {
                            for (int y = eb; y < eb + ec; ++y) {
                                o.nameOf = r;
                                o.y = y;
                                ops.push_back(o);
                            }
                        }
                        break;
                    case REPL_PTR:
                        for (int x = eb; x < eb + ec; ++x) {
                            for (int y = eb; y < eb + ec; ++y) {
                                o.x = x;
                                o.y = y;
                                ops.push_back(o);
                            }
                        }
                        break;
                    case RM_ALL:
                        if (f == 0) {
                            ops.push_back(o);
                        }
                        break;
                    default:
                        break;
                    }
                }
            }
        }
    }
    for (int x = C_BASE; x < C_BASE + NC; ++x) {
        for (int p = 0; p < C_BASE + NC; ++p) {
            Op o;
            o.verb = HAS_ANCESTOR;
            o.p = x;
            o.x = p;
            ops.push_back(o);
        }
    }
    for (int v = V_BASE; v < V_BASE + NV; ++v) {
        Op o;
        o.lk = L_VAR;
        o.p = v;
        o.verb = RMALL_EQ;
        ops.push_back(o);
        for (int w = V_BASE; w < V_BASE + NV; ++w) {
            o.x = w;
            for (Verb vb : {ADD_EQ, ADD_EQ4, RM_EQ}) {
                o.verb = vb;
                o.flag = false;
                ops.push_back(o);
            }
            o.verb = HAS_EQ;
            o.flag = false;
            ops.push_back(o);
            o.flag = true;
            ops.push_back(o);
        }
    }
    for (int e = 0; e < N; ++e) {
        Op o;
        o.verb = RELEASE;
        o.p = e;
        o.lk = kindOf[e] == EK_MODEL ? L_COMP : lkOfEntity(e);
        ops.push_back(o);
    }
    return ops;
}

// operation instances grouped by kind (verb, list kind, flag) so that random histories draw kinds uniformly
const std::vector<std::vector<size_t>> &opGroups()
{
    static std::vector<std::vector<size_t>> groups;
    if (groups.empty()) {
        std::map<std::string, size_t> index;
        const auto &ops = allOps();
        for (size_t i = 0; i < ops.size(); ++i) {
            std::string k = opKind(ops[i]);
            if (ops[i].verb == RELEASE) {
                k = "release";
            }
            auto it = index.find(k);
            if (it == index.end()) {
                it = index.emplace(k, groups.size()).first;
                groups.emplace_back();
            }
            groups[it->second].push_back(i);
        }
    }
    return groups;
}

// ---------------------------------------------------------------- running a history
struct History
{
    Uni u;
    St s;
    int start = 0;
    std::vector<std::string> text;
    std::vector<std::string> kinds;
    int changes = 0;
    bool broken = false;
    std::set<std::string> *reported = nullptr; // per case de-duplication of keys

    std::string replay() const
    {
        std::string r = "universe: M0,M1 models; C0,C1 components named \"a\" (identical), C2 \"b\", C3 \"c\"; V0,V1 variables \"x\" (identical), V2 \"y\", V3 \"z\"; "
                        "U0,U1 units \"u\" (identical), U2 \"w\"; R0,R1 resets (identical)\nstart state: "
                        + std::string(startName[start]) + " (see buildStart() in harness/drivers/c09a.cpp)\n";
        for (size_t i = 0; i < text.size(); ++i) {
            r += std::to_string(i + 1) + ". " + text[i] + "\n";
        }
        return r;
    }

    void report(const std::string &inv, const std::string &kind, const std::string &sit, const std::string &detail)
    {
        std::string key = "ownership:" + inv + ":" + kind + ":" + sit;
        stat("violations_raw");
        if (reported != nullptr) {
            if (!reported->insert(key).second) {
                return;
            }
        }
        viol("C09", key, detail, replay());
    }

    bool begin(int which)
    {
        start = which;
        buildStart(u, which);
        Observed o = observe(u);
        auto bad = invariants(o);
        if (!bad.empty()) {
            report(bad[0].first, "start-state", startName[which], bad[0].second + "\nstate: " + o.st.str());
            broken = true;
            return false;
        }
        s = o.st;
        // the model's liveness must agree with the real one for the start state
        St t = s;
        collect(t);
        if (!t.sameObservable(s)) {
            report("liveness", "start-state", startName[which], diffStates(t, s));
            broken = true;
            return false;
        }
        return true;
    }

    // returns false when the history must end
    bool step(const Op &op)
    {
        const std::string kind = opKind(op);
        const std::string sit = situation(s, op);
        text.push_back(opText(op));
        kinds.push_back(kind + ":" + sit);
        if (verbose()) {
            stage(kind + ":" + sit + " | " + opText(op));
        }
        std::vector<Alt> alts = expect(s, op);
        long ret = applyReal(u, op);
        Observed o = observe(u);
        stat("ops_checked");
        seen("op_kind", kind);
        seen("op_kind_situation", kind + ":" + sit);
        bool ok = true;
        auto bad = invariants(o);
        std::set<std::string> invs;
        for (const auto &b : bad) {
            if (invs.insert(b.first).second) {
                report(b.first, kind, sit, b.second + "\nafter: " + opText(op) + "\nstate before: " + s.str() + "\nstate after:  " + o.st.str());
            }
            ok = false;
        }
        const Alt *match = nullptr;
        for (const auto &a : alts) {
            if (a.ret == ret && a.st.sameObservable(o.st)) {
                match = &a;
                break;
            }
        }
        if (match == nullptr) {
            // describe against the closest alternative (fewest differing characters in the description)
            std::string best;
            std::string bestWhat;
            for (const auto &a : alts) {
                std::string d = diffStates(a.st, o.st);
                if (a.ret != ret) {
                    d = "returned " + std::to_string(ret) + " expected " + std::to_string(a.ret) + "; " + d;
                }
                if (best.empty() || d.size() < best.size()) {
                    best = d;
                    bestWhat = a.what;
                }
            }
            std::string allowed;
            for (const auto &a : alts) {
                allowed += (allowed.empty() ? "" : " | ") + a.what;
            }
            report("effect", kind, sit,
                   "after: " + opText(op) + " (returned " + std::to_string(ret) + ")\nallowed outcomes: " + allowed + "\ncompared with \"" + bestWhat + "\": " + best + "\nstate before: " + s.str() + "\nstate after:  " + o.st.str());
            ok = false;
        } else {
            if (!match->st.sameObservable(s)) {
                ++changes;
                stat("state_changing_ops");
            }
            seen("outcome", kind + ":" + sit + " -> " + match->what.substr(0, match->what.find(' ')));
            s = match->st;
            for (int i = 0; i < N; ++i) {
                s.held[i] = o.st.held[i] && s.alive[i];
            }
        }
        if (!ok) {
            broken = true;
        }
        return ok;
    }
};

int64_t randomCount(const std::string &tier)
{
    return tier == "thorough" ? 50000 : 2000;
}
int64_t exhaustiveCount()
{
    return static_cast<int64_t>(NSTART) * static_cast<int64_t>(allOps().size());
}
constexpr int RANDOM_LEN = 40;

} // namespace

int64_t vh_case_count(const std::string &tier, uint64_t)
{
    return exhaustiveCount() + randomCount(tier);
}

static void runExhaustive(Ctx &ctx)
{
    const auto &ops = allOps();
    const int start = static_cast<int>(ctx.index / static_cast<int64_t>(ops.size()));
    const Op &op1 = ops[static_cast<size_t>(ctx.index % static_cast<int64_t>(ops.size()))];
    std::set<std::string> reported;
    int histories = 0;
    bool firstOk = false;
    bool firstValid = false;
    int firstChanges = 0;
    {
        History h;
        h.reported = &reported;
        if (h.begin(start) && valid(h.s, op1)) {
            firstValid = true;
            firstOk = h.step(op1);
            firstChanges = h.changes;
            ++histories;
            stat("histories_len1");
        }
    }
    // quick tier: second operations restricted to a seed-chosen residue class (1 in 4); thorough: all
    const size_t stride = ctx.thorough() ? 1 : 4;
    const size_t offset = ctx.thorough() ? 0 : static_cast<size_t>((ctx.seed + static_cast<uint64_t>(ctx.index)) % stride);
    if (firstOk) {
        for (size_t j = offset; j < ops.size(); j += stride) {
            History h;
            h.reported = &reported;
            if (!h.begin(start)) {
                break;
            }
            h.step(op1); // known clean
            if (!valid(h.s, ops[j])) {
                continue;
            }
            h.step(ops[j]);
            ++histories;
            stat("histories_len2");
        }
    }
    stat("histories", histories);
    caseInfo("ex:" + std::to_string(start) + ":" + opText(op1), firstValid && firstChanges > 0,
             std::string("exhaustive from '") + startName[start] + "': " + opText(op1) + " then every valid second operation (" + std::to_string(histories) + " histories)");
}

static void runRandom(Ctx &ctx)
{
    Rng &rng = ctx.rng;
    const auto &ops = allOps();
    const auto &groups = opGroups();
    History h;
    std::set<std::string> reported;
    h.reported = &reported;
    int start = static_cast<int>(rng.below(NSTART));
    stat("histories");
    stat("histories_random");
    if (!h.begin(start)) {
        caseInfo("broken-start", false);
        return;
    }
    int done = 0;
    for (int i = 0; i < RANDOM_LEN; ++i) {
        const Op *pick = nullptr;
        for (int attempt = 0; attempt < 80 && pick == nullptr; ++attempt) {
            const auto &group = groups[rng.below(groups.size())];
            const Op &cand = ops[group[rng.below(group.size())]];
            if (valid(h.s, cand)) {
                pick = &cand;
            }
        }
        if (pick == nullptr) {
            break;
        }
        ++done;
        if (!h.step(*pick)) {
            stat("histories_ended_by_violation");
            break;
        }
    }
    stat("random_ops", done);
    if (!h.broken) {
        stat("histories_clean_full_length", done == RANDOM_LEN ? 1 : 0);
    }
    std::string sig;
    for (const auto &k : h.kinds) {
        sig += k + ";";
    }
    std::string sample = std::string("random from '") + startName[start] + "': ";
    for (size_t i = 0; i < h.text.size() && i < 8; ++i) {
        sample += h.text[i] + "; ";
    }
    sample += "... (" + std::to_string(done) + " ops, " + std::to_string(h.changes) + " state changes)";
    caseInfo(hex64(fnv1a(sig)), h.changes >= 3, sample);
}

void vh_run_case(Ctx &ctx)
{
    if (ctx.index < exhaustiveCount()) {
        runExhaustive(ctx);
    } else {
        runRandom(ctx);
    }
}
