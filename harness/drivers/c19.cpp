// C19: model repair helpers (fixVariableInterfaces, linkUnits, clean) establish what they promise.
// Oracles: required interface per variable from the component tree; identity of units objects; a twin model built
// without the seeded empty items.
#include "gen.h"
#include "vh.h"

#include <algorithm>

using namespace vh;

int64_t vh_case_count(const std::string &tier, uint64_t)
{
    return tier == "thorough" ? 400000 : 40000;
}

struct Node
{
    int parent = -1;
    std::vector<int> kids;
    ComponentPtr comp;
};

static bool isInterfaceIssue(const IssuePtr &is)
{
    // the validator reports interface problems and unreachable equivalences with MAP_VARIABLES_ELEMENT;
    // the two are told apart by the item: a variable (interface) or a variable pair (unreachable / units)
    return is->referenceRule() == Issue::ReferenceRule::MAP_VARIABLES_ELEMENT && is->item() != nullptr && is->item()->type() == CellmlElementType::VARIABLE;
}

static void caseInterfaces(Ctx &ctx)
{
    Rng &rng = ctx.rng;
    auto model = Model::create("m");
    int n = rng.range(2, 8);
    std::vector<Node> nodes(static_cast<size_t>(n));
    std::vector<VariablePtr> vars;
    std::vector<int> varComp;
    for (int i = 0; i < n; ++i) {
        nodes[static_cast<size_t>(i)].comp = Component::create("c" + std::to_string(i));
        if (i > 0 && rng.chance(0.65)) {
            int p = static_cast<int>(rng.below(static_cast<uint64_t>(i)));
            // depth limit 4
            int d = 0;
            for (int q = p; q >= 0; q = nodes[static_cast<size_t>(q)].parent) {
                ++d;
            }
            if (d < 4) {
                nodes[static_cast<size_t>(i)].parent = p;
                nodes[static_cast<size_t>(p)].kids.push_back(i);
            }
        }
    }
    for (int i = 0; i < n; ++i) {
        auto &nd = nodes[static_cast<size_t>(i)];
        if (nd.parent < 0) {
            model->addComponent(nd.comp);
        } else {
            nodes[static_cast<size_t>(nd.parent)].comp->addComponent(nd.comp);
        }
        int nv = rng.range(1, 3);
        for (int k = 0; k < nv; ++k) {
            auto v = Variable::create("v" + std::to_string(i) + "_" + std::to_string(k));
            v->setUnits("second");
            // (invalid strings too, some of which CONTAIN a valid name: a substring test is not a comparison)
            static const std::vector<std::string> ifs = {"", "", "public", "private", "public_and_private", "none", "bogus", "public_only", "not_private", "public_and_private_", "xpublic"};
            std::string s = rng.pick(ifs);
            if (!s.empty()) {
                v->setInterfaceType(s);
            }
            nd.comp->addVariable(v);
            vars.push_back(v);
            varComp.push_back(i);
        }
    }
    // parentless variables (0-1)
    std::vector<VariablePtr> orphans;
    if (rng.chance(0.15)) {
        auto o = Variable::create("orphan");
        o->setUnits("second");
        orphans.push_back(o);
    }
    auto relation = [&](int a, int b) -> int { // 0 unreachable, 1 sibling, 2 a is child of b (b parent), 3 a is parent of b
        if (a == b) {
            return -1;
        }
        if (nodes[static_cast<size_t>(a)].parent == nodes[static_cast<size_t>(b)].parent) {
            return 1;
        }
        if (nodes[static_cast<size_t>(a)].parent == b) {
            return 2;
        }
        if (nodes[static_cast<size_t>(b)].parent == a) {
            return 3;
        }
        return 0;
    };
    // equivalences: mostly reachable, sometimes unreachable
    int ne = rng.range(1, 10);
    bool wantUnreachable = rng.chance(0.3);
    std::string hist;
    for (int e = 0; e < ne; ++e) {
        size_t a = rng.below(vars.size());
        size_t b = rng.below(vars.size());
        int rel = relation(varComp[a], varComp[b]);
        if (rel < 0) {
            continue;
        }
        if (rel == 0 && !wantUnreachable) {
            continue;
        }
        if (Variable::addEquivalence(vars[a], vars[b])) {
            hist += " " + vars[a]->name() + "~" + vars[b]->name() + "(" + std::to_string(rel) + ")";
        }
    }
    for (const auto &o : orphans) {
        size_t a = rng.below(vars.size());
        Variable::addEquivalence(vars[a], o);
        hist += " " + vars[a]->name() + "~orphan";
    }
    // ---- oracle ----
    struct Need
    {
        bool pub = false;
        bool priv = false;
        bool bad = false; // some equivalence unreachable or parentless
        bool any = false;
    };
    std::vector<Need> need(vars.size());
    bool anyBad = false;
    std::map<const void *, size_t> idx;
    for (size_t i = 0; i < vars.size(); ++i) {
        idx[vars[i].get()] = i;
    }
    for (size_t i = 0; i < vars.size(); ++i) {
        for (size_t k = 0; k < vars[i]->equivalentVariableCount(); ++k) {
            auto w = vars[i]->equivalentVariable(k);
            need[i].any = true;
            if (w == nullptr || w->parent() == nullptr || idx.count(w.get()) == 0U) {
                need[i].bad = true;
                continue;
            }
            int rel = relation(varComp[i], varComp[idx[w.get()]]);
            if (rel == 0) {
                need[i].bad = true;
            } else if (rel == 1 || rel == 2) {
                need[i].pub = true;
            } else {
                need[i].priv = true;
            }
        }
        anyBad = anyBad || need[i].bad;
    }
    auto suffices = [](const std::string &have, const Need &nd) {
        if (have == "public_and_private") {
            return true;
        }
        if (nd.pub && nd.priv) {
            return false;
        }
        if (nd.pub) {
            return have == "public";
        }
        if (nd.priv) {
            return have == "private";
        }
        return true;
    };
    std::vector<std::string> before;
    for (const auto &v : vars) {
        before.push_back(v->interfaceType());
    }
    std::string replay = "tree:";
    for (int i = 0; i < n; ++i) {
        replay += " c" + std::to_string(i) + "^" + std::to_string(nodes[static_cast<size_t>(i)].parent);
    }
    replay += "\ninterfaces:";
    for (size_t i = 0; i < vars.size(); ++i) {
        replay += " " + vars[i]->name() + "=" + before[i];
    }
    replay += "\nequivalences:" + hist;
    std::string unitsBefore = dumpModel(model, [] { DumpOptions o; o.ids = false; return o; }());

    stage("Model::fixVariableInterfaces");
    bool r = model->fixVariableInterfaces();
    stat("fixVariableInterfaces_calls");
    stat(r ? "fix_returned_true" : "fix_returned_false");
    if (r != !anyBad) {
        // which structural situation: does the variable with the bad equivalence also need both interfaces?
        bool shortCircuit = false;
        for (size_t i = 0; i < vars.size(); ++i) {
            shortCircuit = shortCircuit || (need[i].bad && need[i].pub && need[i].priv);
        }
        viol("C19", std::string("fixVariableInterfaces:return-") + (r ? "true-with-unreachable-equivalence" : "false-without-unreachable-equivalence") + (shortCircuit ? ":variable-needs-both-interfaces" : ""),
             "returned " + std::to_string(r) + " but an unreachable/parentless equivalence " + (anyBad ? "exists" : "does not exist"), replay);
    }
    for (size_t i = 0; i < vars.size(); ++i) {
        std::string now = vars[i]->interfaceType();
        if (!need[i].any) {
            if (now != before[i]) {
                viol("C19", "fixVariableInterfaces:changed-unconnected-variable", vars[i]->name() + ": " + before[i] + " -> " + now, replay);
            }
            continue;
        }
        if (need[i].bad) {
            continue; // no claim
        }
        stat("connected_variables_judged");
        if (suffices(before[i], need[i])) {
            if (now != before[i]) {
                viol("C19", "fixVariableInterfaces:changed-sufficient-interface", vars[i]->name() + ": " + before[i] + " -> " + now, replay);
            }
        } else if (!suffices(now, need[i])) {
            viol("C19", std::string("fixVariableInterfaces:left-insufficient:") + (r ? "returned-true" : "returned-false") + ":had-" + (before[i].empty() ? "none" : before[i]),
                 vars[i]->name() + " needs pub=" + std::to_string(need[i].pub) + " priv=" + std::to_string(need[i].priv) + " has '" + now + "'", replay);
        }
    }
    if (r) {
        auto validator = Validator::create();
        validator->validateModel(model);
        monitorLogger(*validator, "Validator::validateModel", replay);
        for (size_t i = 0; i < validator->issueCount(); ++i) {
            if (isInterfaceIssue(validator->issue(i))) {
                viol("C19", "fixVariableInterfaces:true-but-validator-interface-issue", validator->issue(i)->description(), replay);
                break;
            }
        }
        stat("validated_after_true");
    }
    int classes = 0;
    for (const auto &nd : need) {
        classes += nd.any ? 1 : 0;
    }
    (void)unitsBefore;
    caseInfo("I" + hex64(fnv1a(replay)), classes >= 2, truncateForLog(replay, 400));
}

static void caseLinkUnits(Ctx &ctx)
{
    Rng &rng = ctx.rng;
    auto model = Model::create("m");
    auto other = Model::create("other");
    std::vector<UnitsPtr> mine;
    int nu = rng.range(1, 4);
    for (int i = 0; i < nu; ++i) {
        auto u = Units::create("u" + std::to_string(i));
        u->addUnit("second", "milli", 1.0, 1.0, "");
        model->addUnits(u);
        mine.push_back(u);
    }
    auto foreign = Units::create(rng.chance(0.5) ? "u0" : "foreign_units");
    foreign->addUnit("metre");
    other->addUnits(foreign);
    int nc = rng.range(1, 4);
    std::vector<VariablePtr> vars;
    std::vector<int> kind; // 0 by name (exists) 1 by own object 2 by foreign object 3 none 4 standard 5 by name (missing) 6 by standalone object with an existing name
    std::string replay = "variables:";
    ComponentPtr last;
    for (int c = 0; c < nc; ++c) {
        auto comp = Component::create("c" + std::to_string(c));
        if (last != nullptr && rng.chance(0.4)) {
            last->addComponent(comp);
        } else {
            model->addComponent(comp);
        }
        last = comp;
        // an IMPORTED component may encapsulate ordinary components (and carries placeholder variables itself): what is
        // below it is part of this model and gets its units linked like everything else
        if (rng.chance(0.25)) {
            auto src = ImportSource::create();
            src->setUrl("lib.cellml");
            comp->setImportSource(src);
            comp->setImportReference("ref_" + comp->name());
            stat("linkunits_imported_components");
        }
        int nv = rng.range(1, 3);
        for (int k = 0; k < nv; ++k) {
            auto v = Variable::create("v" + std::to_string(c) + "_" + std::to_string(k));
            int kd = static_cast<int>(rng.below(20));
            kd = kd < 7 ? 0 : (kd < 10 ? 1 : (kd < 11 ? 2 : (kd < 13 ? 3 : (kd < 16 ? 4 : (kd < 17 ? 5 : 6)))));
            switch (kd) {
            case 0:
                v->setUnits(rng.pick(mine)->name());
                break;
            case 1:
                v->setUnits(rng.pick(mine));
                break;
            case 2:
                v->setUnits(foreign);
                break;
            case 3:
                break;
            case 4:
                v->setUnits(rng.chance(0.5) ? "second" : "volt");
                break;
            case 5:
                v->setUnits("not_in_model");
                break;
            default: {
                auto standalone = Units::create(rng.pick(mine)->name());
                standalone->addUnit("kelvin");
                v->setUnits(standalone);
            } break;
            }
            comp->addVariable(v);
            vars.push_back(v);
            kind.push_back(kd);
            replay += " " + v->name() + ":kind" + std::to_string(kd);
        }
    }
    bool expectOk = true;
    for (int kd : kind) {
        expectOk = expectOk && kd != 2 && kd != 5;
    }
    stage("Model::linkUnits");
    bool had = model->hasUnlinkedUnits();
    bool r = model->linkUnits();
    stat("linkUnits_calls");
    stat(r ? "link_returned_true" : "link_returned_false");
    (void)had;
    if (r != expectOk) {
        viol("C19", std::string("linkUnits:return-") + (r ? "true-with-unlinkable-units" : "false-although-all-linkable"), "returned " + std::to_string(r), replay);
    }
    if (r) {
        if (model->hasUnlinkedUnits()) {
            viol("C19", "linkUnits:true-but-hasUnlinkedUnits", "", replay);
        }
    }
    for (size_t i = 0; i < vars.size(); ++i) {
        auto u = vars[i]->units();
        int kd = kind[i];
        stat("variables_judged");
        if (kd == 0 || kd == 1 || kd == 6) {
            // names non-standard units that exist in the model: must hold the model's own object (always when true;
            // linkable ones also when false: "link ... (if they are found)")
            if (u == nullptr || !model->hasUnits(u->name()) || model->units(u->name()) != u) {
                viol("C19", std::string("linkUnits:not-the-models-object:kind") + std::to_string(kd) + (r ? ":returned-true" : ":returned-false"), vars[i]->name(), replay);
            }
        } else if (kd == 3) {
            if (u != nullptr) {
                viol("C19", "linkUnits:gave-units-to-unitless-variable", vars[i]->name(), replay);
            }
        } else if (kd == 2) {
            if (u != foreign) {
                viol("C19", "linkUnits:replaced-foreign-units", vars[i]->name(), replay);
            }
        }
    }
    // the other model is untouched
    if (other->unitsCount() != 1 || other->units(0) != foreign) {
        viol("C19", "linkUnits:touched-other-model", "", replay);
    }
    caseInfo("L" + hex64(fnv1a(replay)), vars.size() >= 2, replay);
}

// Builds the same random tree twice: with (withEmpties) and without seeded empty components / units.
static ModelPtr buildCleanModel(uint64_t seed, uint64_t stream, bool withEmpties, int &emptiesSeeded, std::string &desc)
{
    Rng rng(seed, stream);
    auto model = Model::create("m");
    int counter = 0;
    emptiesSeeded = 0;
    std::function<void(const ComponentEntityPtr &, int)> grow = [&](const ComponentEntityPtr &parent, int depth) {
        int kids = depth == 0 ? rng.range(1, 3) : rng.range(0, 2);
        for (int k = 0; k < kids; ++k) {
            // decide everything with the rng FIRST so that both builds consume the same stream
            int kindOf = static_cast<int>(rng.below(10)); // 0-1: empty subtree, 2: nameless but not empty, else ordinary
            int emptyDepth = rng.range(1, 3);
            int what = rng.range(0, 3);
            bool recurse = depth < 3 && rng.chance(0.6);
            if (kindOf <= 1) {
                if (withEmpties) {
                    // a chain of empty components (empty inside empty)
                    ComponentEntityPtr cur = parent;
                    for (int d = 0; d < emptyDepth; ++d) {
                        auto e = Component::create();
                        cur->addComponent(e);
                        cur = e;
                        ++emptiesSeeded;
                    }
                }
                desc += "E" + std::to_string(emptyDepth);
                continue;
            }
            auto c = Component::create();
            int idn = counter++;
            if (kindOf == 2) {
                // nameless but NOT empty: exactly one of id / variable / math / reset / a non-empty child
                switch (what) {
                case 0:
                    c->setId("keep" + std::to_string(idn));
                    break;
                case 1:
                    c->addVariable(Variable::create("x" + std::to_string(idn)));
                    break;
                case 2:
                    c->setMath("<math xmlns=\"http://www.w3.org/1998/Math/MathML\"/>");
                    break;
                default: {
                    auto r = Reset::create();
                    r->setOrder(idn);
                    c->addReset(r);
                } break;
                }
                desc += "N" + std::to_string(what);
            } else {
                c->setName("c" + std::to_string(idn));
                if (what == 0) {
                    c->addVariable(Variable::create("x" + std::to_string(idn)));
                }
                desc += "C";
            }
            parent->addComponent(c);
            if (recurse) {
                desc += "(";
                grow(c, depth + 1);
                desc += ")";
            }
        }
    };
    grow(model, 0);
    int nu = rng.range(0, 4);
    for (int i = 0; i < nu; ++i) {
        int kindOf = static_cast<int>(rng.below(5)); // 0: empty, 1: nameless with id, 2: nameless with child, else named
        if (kindOf == 0) {
            if (withEmpties) {
                model->addUnits(Units::create());
                ++emptiesSeeded;
            }
            desc += "e";
            continue;
        }
        auto u = Units::create();
        if (kindOf == 1) {
            u->setId("ukeep" + std::to_string(i));
        } else if (kindOf == 2) {
            u->addUnit("second");
        } else {
            u->setName("u" + std::to_string(i));
        }
        model->addUnits(u);
        desc += "u" + std::to_string(kindOf);
    }
    return model;
}

static void caseClean(Ctx &ctx)
{
    int seeded = 0;
    int none = 0;
    std::string desc;
    std::string desc2;
    uint64_t stream = static_cast<uint64_t>(ctx.index) * 7919 + 13;
    auto withE = buildCleanModel(ctx.seed, stream, true, seeded, desc);
    auto without = buildCleanModel(ctx.seed, stream, false, none, desc2);
    DumpOptions o;
    o.orderSensitive = true; // clean() must not reorder either
    std::string expect = dumpModel(without, o);
    stage("Model::clean");
    withE->clean();
    stat("clean_calls");
    stat("empties_seeded", seeded);
    std::string got = dumpModel(withE, o);
    if (got != expect) {
        size_t countGot = allComponents(withE).size() + withE->unitsCount();
        size_t countExp = allComponents(without).size() + without->unitsCount();
        std::string what = countGot > countExp ? "kept-empty-item" : (countGot < countExp ? "removed-non-empty-item" : "changed-something-else");
        viol("C19", "clean:" + what, "A=expected B=after clean(): " + firstDiff(expect, got) + "\nshape: " + desc, "seed-stream " + std::to_string(stream) + " shape " + desc);
    }
    // idempotent on an already clean model
    std::string again = dumpModel(without, o);
    without->clean();
    if (dumpModel(without, o) != again) {
        viol("C19", "clean:changed-clean-model", firstDiff(again, dumpModel(without, o)), desc);
    }
    caseInfo("K" + hex64(fnv1a(desc)), seeded > 0, "clean shape=" + truncateForLog(desc, 200) + " empties=" + std::to_string(seeded));
}

void vh_run_case(Ctx &ctx)
{
    switch (ctx.index % 5) {
    case 0:
    case 1:
    case 2:
        caseInterfaces(ctx);
        break;
    case 3:
        caseLinkUnits(ctx);
        break;
    default:
        caseClean(ctx);
        break;
    }
}
