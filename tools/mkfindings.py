#!/usr/bin/env python3
"""Prints section 9 of DESIGN.md (findings and their disposition) from known_findings.json."""
import json, os
V = os.path.dirname(os.path.dirname(os.path.abspath(__file__)))
k = json.load(open(os.path.join(V, "known_findings.json")))
print("### 9.1 Recorded (not repaired): printed as KNOWN-FINDING lines, exit code unaffected\n")
print("| property | what fails | witness | key pattern |")
print("|---|---|---|---|")
for f in sorted(k["findings"], key=lambda f: f["property"]):
    esc = lambda s: s.replace("|", "\\|").replace("\n", " ")
    print("| %s | %s | %s | `%s` |" % (f["property"], esc(f["what"]), esc(f.get("witness", "")), esc(f["pattern"])))
print("\n### 9.2 Repaired by `fix:` commits in /repo (each passes the unedited suite; entries suppress nothing)\n")
for l in k["fixed"]:
    print("* " + l[len("fixed: "):] if l.startswith("fixed: ") else "* " + l)
