// C06: flattening yields an import-free model with the same meaning.
// The same semantic system is rendered as an import hierarchy of several files (subtrees of the component tree moved
// into library files, recursively; units defined in every file or imported from a units library; units referenced only
// from cn elements); the root is parsed, resolved and flattened; the flat model must have no imports, validate with zero
// issues and - analysed, generated (C and Python) and run - give the reference values of the semantic model; the model
// passed in and the importer's library models must be left unchanged.
#include "semjudge.h"
#include "vh.h"

#include <algorithm>
#include <cmath>
#include <sys/stat.h>

using namespace vh;

int64_t vh_case_count(const std::string &tier, uint64_t)
{
    return tier == "thorough" ? 8000 : 600;
}

struct FileSet
{
    std::vector<std::pair<std::string, IrModel>> files; // name -> model; files[0] is the root
    int importedSubtrees = 0;
    int depth = 0;
    bool unitsLib = false;
    bool cnOnlyUnits = false;
    bool nameClash = false;
    bool shallowImports = false;
    bool encapsulatedTargets = false;
};

// structural class of a before/after difference reported by firstDiff()
static std::string changeClass(const std::string &diff)
{
    size_t a = diff.find("A[");
    size_t b = diff.find("] B[");
    if (a == std::string::npos || b == std::string::npos) {
        return "other";
    }
    std::string la = diff.substr(a + 2, b - a - 2);
    std::string lb = diff.substr(b + 4);
    auto unitsOf = [](const std::string &l) {
        size_t p = l.find(" units=\"");
        if (p == std::string::npos) {
            return std::string();
        }
        size_t e = l.find('"', p + 8);
        return l.substr(p + 8, e - p - 8);
    };
    if (la.find("variable \"") != std::string::npos && lb.find("variable \"") != std::string::npos) {
        std::string ua = unitsOf(la);
        std::string ub = unitsOf(lb);
        if (!ua.empty() && ub.size() > ua.size() && ub.compare(0, ua.size(), ua) == 0 && ub[ua.size()] == '_') {
            return "variable-units-renamed";
        }
        return "variable";
    }
    std::string kw = trim(la).substr(0, trim(la).find(' '));
    return kw.empty() ? "other" : kw;
}

// ---- what a units definition MEANS: product of standard (or user base) unit names with exponents, and a factor ----
// Standard units are opaque names: both sides of every comparison are built from the same definitions.
struct Meaning
{
    std::map<std::string, double> base;
    double log10Factor = 0.0;
    bool ok = true;
};

static bool sameMeaningFwd(const Meaning &a, const Meaning &b);

static double prefixExponent(const std::string &p, bool &ok)
{
    static const std::map<std::string, int> named = {{"yotta", 24}, {"zetta", 21}, {"exa", 18}, {"peta", 15}, {"tera", 12}, {"giga", 9}, {"mega", 6}, {"kilo", 3}, {"hecto", 2}, {"deca", 1}, {"deci", -1}, {"centi", -2}, {"milli", -3}, {"micro", -6}, {"nano", -9}, {"pico", -12}, {"femto", -15}, {"atto", -18}, {"zepto", -21}, {"yocto", -24}};
    if (p.empty()) {
        return 0.0;
    }
    auto it = named.find(p);
    if (it != named.end()) {
        return it->second;
    }
    char *end = nullptr;
    double v = strtod(p.c_str(), &end);
    ok = ok && end != nullptr && *end == 0;
    return v;
}

static bool isStandardName(const std::string &n)
{
    static const std::set<std::string> names = {"ampere", "becquerel", "candela", "coulomb", "dimensionless", "farad", "gram", "gray", "henry", "hertz", "joule", "katal", "kelvin", "kilogram", "litre", "lumen", "lux", "metre", "mole", "newton", "ohm", "pascal", "radian", "second", "siemens", "sievert", "steradian", "tesla", "volt", "watt", "weber"};
    return names.count(n) != 0U;
}

static UnitsPtr followImports(UnitsPtr u)
{
    for (int hop = 0; u != nullptr && u->isImport() && hop < 20; ++hop) {
        auto src = u->importSource();
        auto mdl = src != nullptr ? src->model() : nullptr;
        u = mdl != nullptr ? mdl->units(u->importReference()) : nullptr;
    }
    return u;
}

static Meaning meaningOf(const UnitsPtr &u0, int depth = 0);

// At which nesting level does the flattened definition start to mean something else than the source definition?
// 0: the units themselves are defined differently (children differ); n >= 1: a reference n levels down resolves to units
// of a different meaning although everything above it is the same.
static int divergenceLevel(const UnitsPtr &src0, const UnitsPtr &flat0, int depth = 0)
{
    UnitsPtr src = followImports(src0);
    UnitsPtr flt = followImports(flat0);
    if (src == nullptr || flt == nullptr || depth > 10 || src->unitCount() != flt->unitCount()) {
        return 0;
    }
    auto sm = std::dynamic_pointer_cast<Model>(src->parent());
    auto fm = std::dynamic_pointer_cast<Model>(flt->parent());
    for (size_t i = 0; i < src->unitCount(); ++i) {
        std::string sr = src->unitAttributeReference(i);
        std::string fr = flt->unitAttributeReference(i);
        bool su = sm != nullptr && sm->hasUnits(sr);
        bool fu = fm != nullptr && fm->hasUnits(fr);
        if (!su && !fu) {
            if (sr != fr) {
                return 0;
            }
            continue;
        }
        if (su != fu) {
            return 0;
        }
        Meaning a = meaningOf(sm->units(sr));
        Meaning b = meaningOf(fm->units(fr));
        if (!a.ok || !b.ok || !sameMeaningFwd(a, b)) {
            return 1 + divergenceLevel(sm->units(sr), fm->units(fr), depth + 1);
        }
    }
    return 0;
}

static Meaning meaningOf(const UnitsPtr &u0, int depth)
{
    Meaning m;
    UnitsPtr u = followImports(u0);
    if (u == nullptr || depth > 20 || u->isImport()) {
        m.ok = false;
        return m;
    }
    auto model = std::dynamic_pointer_cast<Model>(u->parent());
    if (u->unitCount() == 0) {
        m.base[model != nullptr && model->hasUnits(u->name()) ? "user-base:" + u->name() : u->name()] = 1.0;
        return m;
    }
    for (size_t i = 0; i < u->unitCount(); ++i) {
        std::string ref;
        std::string prefix;
        std::string id;
        double exp = 1.0;
        double mult = 1.0;
        u->unitAttributes(i, ref, prefix, exp, mult, id);
        Meaning c;
        if (model != nullptr && model->hasUnits(ref)) {
            c = meaningOf(model->units(ref), depth + 1);
        } else if (isStandardName(ref)) {
            c.base[ref] = 1.0;
        } else {
            c.ok = false; // a reference to units that do not exist
        }
        m.ok = m.ok && c.ok && mult > 0.0;
        double pe = prefixExponent(prefix, m.ok);
        m.log10Factor += exp * (std::log10(mult > 0.0 ? mult : 1.0) + pe + c.log10Factor);
        for (const auto &kv : c.base) {
            m.base[kv.first] += exp * kv.second;
        }
    }
    for (auto it = m.base.begin(); it != m.base.end();) {
        it = (it->second == 0.0 || it->first == "dimensionless") ? m.base.erase(it) : std::next(it);
    }
    return m;
}

static bool sameMeaning(const Meaning &a, const Meaning &b)
{
    return a.base == b.base && std::fabs(a.log10Factor - b.log10Factor) < 1e-9;
}

static bool sameMeaningFwd(const Meaning &a, const Meaning &b)
{
    return sameMeaning(a, b);
}

static std::string meaningText(const Meaning &m)
{
    std::string s;
    for (const auto &kv : m.base) {
        s += kv.first + "^" + std::to_string(kv.second) + " ";
    }
    return s + "x 10^" + std::to_string(m.log10Factor);
}

static std::vector<int> subtree(const IrModel &ir, int root)
{
    std::vector<int> out = {root};
    for (size_t i = 0; i < out.size(); ++i) {
        for (int k : ir.comps[static_cast<size_t>(out[i])].children) {
            out.push_back(k);
        }
    }
    return out;
}

// Builds the file for `members` (indices into flat.comps; tops = those whose parent is outside the file) and recursively
// moves some subtrees into further files.
static void emitFile(const IrModel &flat, const std::string &fileName, const std::vector<int> &tops, const std::map<int, std::string> &rename, Rng &rng, double importProb, int depth, FileSet &fs, bool useUnitsLib, bool shallowTops = false)
{
    size_t slot = fs.files.size();
    fs.files.emplace_back(fileName, IrModel());
    fs.depth = std::max(fs.depth, depth);
    IrModel f;
    f.name = "model_" + std::to_string(slot);
    // which members are present in this file, which are replaced by imports
    std::vector<int> present;
    std::map<int, int> importOf; // flat comp index -> import index in f
    std::function<void(int, bool)> visit = [&](int c, bool isTop) {
        bool canImport = depth < 3 && !(depth == 0 && false);
        if (!isTop && canImport && rng.chance(importProb)) {
            // move the subtree at c into its own file
            std::string child = "lib_d" + std::to_string(depth + 1) + "_c" + std::to_string(c) + ".cellml";
            IrImport im;
            im.url = child;
            f.imports.push_back(im);
            importOf[c] = static_cast<int>(f.imports.size()) - 1;
            present.push_back(c);
            std::map<int, std::string> rn;
            rn[c] = "src_" + flat.comps[static_cast<size_t>(c)].name;
            ++fs.importedSubtrees;
            // "shallow": only the component itself lives in the library file, the components it encapsulates stay in
            // this file, as children of the import component
            bool shallow = !flat.comps[static_cast<size_t>(c)].children.empty() && rng.chance(0.3);
            emitFile(flat, child, {c}, rn, rng, importProb * 0.6, depth + 1, fs, useUnitsLib, shallow);
            if (shallow) {
                fs.shallowImports = true;
                for (int k : flat.comps[static_cast<size_t>(c)].children) {
                    visit(k, false);
                }
            }
            return;
        }
        present.push_back(c);
        for (int k : flat.comps[static_cast<size_t>(c)].children) {
            visit(k, false);
        }
    };
    for (int t : tops) {
        if (depth == 0 && rng.chance(importProb)) {
            // a top-level component of the root imported as a whole
            std::string child = "lib_d1_c" + std::to_string(t) + ".cellml";
            IrImport im;
            im.url = child;
            f.imports.push_back(im);
            importOf[t] = static_cast<int>(f.imports.size()) - 1;
            present.push_back(t);
            std::map<int, std::string> rn;
            rn[t] = "src_" + flat.comps[static_cast<size_t>(t)].name;
            ++fs.importedSubtrees;
            bool shallow = !flat.comps[static_cast<size_t>(t)].children.empty() && rng.chance(0.3);
            emitFile(flat, child, {t}, rn, rng, importProb * 0.6, depth + 1, fs, useUnitsLib, shallow);
            if (shallow) {
                fs.shallowImports = true;
                for (int k : flat.comps[static_cast<size_t>(t)].children) {
                    visit(k, false);
                }
            }
        } else if (shallowTops) {
            present.push_back(t); // the top alone; what it encapsulates stays with the importer
        } else {
            visit(t, true);
        }
    }
    // components of this file
    std::map<int, int> localIndex;
    for (int c : present) {
        localIndex[c] = static_cast<int>(f.comps.size());
        IrComponent nc;
        const auto &src = flat.comps[static_cast<size_t>(c)];
        auto rn = rename.find(c);
        nc.name = rn != rename.end() ? rn->second : src.name;
        if (importOf.count(c) != 0U) {
            nc.import = importOf[c];
            nc.importRef = "src_" + src.name;
        } else {
            nc.vars = src.vars;
            nc.math = src.math;
        }
        f.comps.push_back(nc);
    }
    for (int c : present) {
        int p = flat.comps[static_cast<size_t>(c)].parent;
        if (p >= 0 && localIndex.count(p) != 0U) {
            f.comps[static_cast<size_t>(localIndex[c])].parent = localIndex[p];
            f.comps[static_cast<size_t>(localIndex[p])].children.push_back(localIndex[c]);
        }
    }
    // In a library file the imported component may itself sit below another component: the import then targets an
    // ENCAPSULATED component of the library model (component names are unique model-wide, the reference is by name).
    if (depth >= 1 && rng.chance(0.3)) {
        IrComponent holder;
        holder.name = "holder_" + std::to_string(slot);
        int hi = static_cast<int>(f.comps.size());
        for (size_t i = 0; i < f.comps.size(); ++i) {
            if (f.comps[i].parent < 0) {
                f.comps[i].parent = hi;
                holder.children.push_back(static_cast<int>(i));
            }
        }
        f.comps.push_back(holder);
        fs.encapsulatedTargets = true;
    }
    // connections between present components; placeholders on imported sides
    for (const auto &cn : flat.conns) {
        if (localIndex.count(cn.c1) == 0U || localIndex.count(cn.c2) == 0U) {
            continue;
        }
        // a connection wholly inside an imported subtree belongs to that subtree's file: here both ends are present
        // only if each is either local or the ROOT of an imported subtree
        IrConnection nc;
        nc.c1 = localIndex[cn.c1];
        nc.c2 = localIndex[cn.c2];
        nc.maps = cn.maps;
        for (const auto &mp : cn.maps) {
            for (int side = 0; side < 2; ++side) {
                int li = side == 0 ? nc.c1 : nc.c2;
                const std::string &vn = side == 0 ? mp.v1 : mp.v2;
                auto &comp = f.comps[static_cast<size_t>(li)];
                if (comp.import >= 0) {
                    bool have = false;
                    for (const auto &v : comp.vars) {
                        have = have || v.name == vn;
                    }
                    if (!have) {
                        IrVariable ph;
                        ph.name = vn;
                        comp.vars.push_back(ph);
                    }
                }
            }
        }
        f.conns.push_back(nc);
    }
    // units: every file defines the user units its local variables / cn elements use; the root may import them instead
    std::set<std::string> needed;
    for (const auto &c : f.comps) {
        if (c.import >= 0) {
            continue;
        }
        for (const auto &v : c.vars) {
            needed.insert(v.units);
        }
        std::function<void(const ExprP &)> cnUnits = [&](const ExprP &e) {
            if (e == nullptr) {
                return;
            }
            if (e->op == Op::CN) {
                needed.insert(e->cnUnits);
            }
            for (const auto &k : e->kids) {
                cnUnits(k);
            }
        };
        for (const auto &mm : c.math) {
            for (const auto &e : mm) {
                cnUnits(e);
            }
        }
    }
    // sometimes also define units nobody here needs (name clashes on flattening)
    for (const auto &u : flat.units) {
        if (rng.chance(0.3)) {
            needed.insert(u.name);
        }
    }
    // close `needed` under "is defined through"
    for (int round = 0; round < 4; ++round) {
        for (const auto &u : flat.units) {
            if (needed.count(u.name) != 0U) {
                for (const auto &k : u.units) {
                    needed.insert(k.ref);
                }
            }
        }
    }
    // (library files may import their units too: the flattener then has to instantiate, in the flat model, units that
    // the LIBRARY imports, without touching the library)
    bool importUnits = useUnitsLib && (depth == 0 || rng.chance(0.5));
    int unitsImport = -1;
    for (const auto &u : flat.units) {
        if (needed.count(u.name) == 0U) {
            continue;
        }
        IrUnits nu = u;
        if (importUnits && rng.chance(0.6)) {
            if (unitsImport < 0) {
                IrImport im;
                im.url = "units_lib.cellml";
                f.imports.push_back(im);
                unitsImport = static_cast<int>(f.imports.size()) - 1;
            }
            nu.units.clear();
            nu.import = unitsImport;
            nu.importRef = u.name;
            fs.unitsLib = true;
        }
        f.units.push_back(nu);
    }
    // interfaces are those required in the ASSEMBLED model (a library component's variables must already offer the
    // interface its importers connect through); they were computed on the flat rendering and copied with the variables
    fs.files[slot].second = f;
}

static FileSet split(const IrModel &flat, Rng &rng)
{
    FileSet fs;
    std::vector<int> tops;
    for (size_t i = 0; i < flat.comps.size(); ++i) {
        if (flat.comps[i].parent < 0) {
            tops.push_back(static_cast<int>(i));
        }
    }
    bool useUnitsLib = rng.chance(0.4) && !flat.units.empty();
    emitFile(flat, "root.cellml", tops, {}, rng, rng.pick(std::vector<double>{0.3, 0.6, 0.9}), 0, fs, useUnitsLib);
    if (fs.unitsLib) {
        IrModel ul;
        ul.name = "units_library";
        ul.units = flat.units;
        fs.files.emplace_back("units_lib.cellml", ul);
    }
    // Name clashes with DIFFERENT meaning: the root defines, under a name that a library file (or the units library)
    // uses for something else, units that nothing in the root refers to.  Imported units and components keep the
    // meaning they have in their own file, so the flattener has to rename one of the two and follow the rename through
    // units references, variables and cn elements.
    if (fs.files.size() > 1 && rng.chance(0.5)) {
        IrModel &root = fs.files[0].second;
        std::set<std::string> referenced;
        for (const auto &u : root.units) {
            if (u.import < 0) {
                for (const auto &k : u.units) {
                    referenced.insert(k.ref);
                }
            }
        }
        std::function<void(const ExprP &)> cnUnits = [&](const ExprP &e) {
            if (e == nullptr) {
                return;
            }
            if (e->op == Op::CN) {
                referenced.insert(e->cnUnits);
            }
            for (const auto &k : e->kids) {
                cnUnits(k);
            }
        };
        for (const auto &c : root.comps) {
            for (const auto &v : c.vars) {
                referenced.insert(v.units);
            }
            for (const auto &mm : c.math) {
                for (const auto &e : mm) {
                    cnUnits(e);
                }
            }
        }
        auto alien = [](IrUnits &u) {
            u.units.clear();
            u.import = -1;
            u.importRef.clear();
            IrUnit k;
            k.ref = "candela";
            k.hasExp = true;
            k.exp = "2";
            u.units.push_back(k);
        };
        int made = 0;
        // (a) units the root defines itself but does not use
        for (auto &u : root.units) {
            if (u.import < 0 && referenced.count(u.name) == 0U && made < 3 && rng.chance(0.6)) {
                alien(u);
                ++made;
            }
        }
        // (b) names only the other files know
        for (size_t fi = 1; fi < fs.files.size() && made < 3; ++fi) {
            for (const auto &u : fs.files[fi].second.units) {
                if (root.findUnits(u.name) < 0 && made < 3 && rng.chance(0.3)) {
                    IrUnits nu;
                    nu.name = u.name;
                    alien(nu);
                    root.units.push_back(nu);
                    ++made;
                }
            }
        }
        fs.nameClash = made > 0;
    }
    return fs;
}

void vh_run_case(Ctx &ctx)
{
    Rng &rng = ctx.rng;
    SemOptions so;
    so.maxComponents = rng.range(2, 6);
    so.constants = rng.range(1, 4);
    so.computedConstants = rng.range(0, 3);
    so.ode = rng.chance(0.75);
    so.states = rng.range(1, 3);
    so.algebraics = rng.range(0, 4);
    so.nla = rng.chance(0.2);
    so.nlaDense = true;
    so.scaledUnits = rng.chance(0.7);
    so.exprDepth = rng.range(1, 2);
    so.initByConstant = false; // (a C03 known finding would mask everything downstream)
    SemModel m = generateSemModel(rng, so);
    IrModel flatIr = semToIr(m);
    // units referenced only from cn elements: give some literals a user unit of the model
    bool cnOnly = false;
    if (!flatIr.units.empty() && rng.chance(0.5)) {
        for (auto &c : flatIr.comps) {
            for (auto &mm : c.math) {
                for (auto &e : mm) {
                    std::function<void(const ExprP &)> tag = [&](const ExprP &x) {
                        if (x->op == Op::CN && rng.chance(0.3)) {
                            x->cnUnits = rng.pick(flatIr.units).name;
                            cnOnly = true;
                        }
                        for (const auto &k : x->kids) {
                            tag(k);
                        }
                    };
                    e = cloneExpr(e);
                    tag(e);
                }
            }
        }
    }
    // units defined through other user units (the flattener has to bring the whole chain along)
    bool chains = false;
    if (!flatIr.units.empty() && rng.chance(0.5)) {
        size_t n = flatIr.units.size();
        for (size_t i = 0; i < n; ++i) {
            if (!rng.chance(0.6)) {
                continue;
            }
            IrUnits base;
            base.name = flatIr.units[i].name + "_base";
            IrUnit k;
            k.ref = flatIr.units[i].units[0].ref;
            base.units.push_back(k);
            flatIr.units[i].units[0].ref = base.name; // prefix / multiplier stay on an exponent-1 child
            if (rng.chance(0.5)) {
                // three levels: x -> x_base -> x_base0 -> standard unit
                IrUnits base0;
                base0.name = base.name + "0";
                IrUnit k0;
                k0.ref = base.units[0].ref;
                base0.units.push_back(k0);
                base.units[0].ref = base0.name;
                flatIr.units.push_back(base0);
            }
            flatIr.units.push_back(base);
            chains = true;
        }
    }
    // several <math> elements per component (the flattener rewrites math block by block when cn units are renamed)
    for (auto &c : flatIr.comps) {
        if (c.math.size() == 1 && c.math[0].size() >= 2 && rng.chance(0.4)) {
            size_t cut = 1 + rng.below(c.math[0].size() - 1);
            std::vector<ExprP> second(c.math[0].begin() + static_cast<long>(cut), c.math[0].end());
            c.math[0].resize(cut);
            c.math.push_back(second);
            stat("components_with_two_math_blocks");
        }
    }
    FileSet fs = split(flatIr, rng);
    fs.cnOnlyUnits = cnOnly;
    std::string dir = scratchDir() + "/c06_" + std::to_string(ctx.index);
    mkdir(dir.c_str(), 0777);
    std::string replay;
    for (const auto &f : fs.files) {
        std::string text = writeCellml2(f.second, WriteStyle());
        writeFile(dir + "/" + f.first, text);
        replay += "<!-- ===== file " + f.first + " ===== -->\n" + text + "\n";
    }
    std::string shape = "files=" + std::to_string(fs.files.size()) + " imported-subtrees=" + std::to_string(fs.importedSubtrees) + " depth=" + std::to_string(fs.depth) + (fs.unitsLib ? " units-lib" : "") + (cnOnly ? " cn-units" : "");
    std::string tagFeatures = std::string(fs.unitsLib ? "+units-lib" : "") + (chains ? "+units-chains" : "") + (cnOnly ? "+cn-units" : "") + (fs.depth >= 2 ? "+nested-imports" : "") + (fs.nameClash ? "+units-name-clash" : "") + (fs.shallowImports ? "+import-with-local-children" : "");
    if (fs.encapsulatedTargets) {
        stat("hierarchies_importing_an_encapsulated_component");
    }
    seen("hierarchy_shape", "files" + std::to_string(std::min<size_t>(fs.files.size(), 6)) + "-depth" + std::to_string(fs.depth) + tagFeatures);

    auto parser = Parser::create(true);
    auto root = parser->parseModel(readFile(dir + "/root.cellml"));
    if (root == nullptr || parser->issueCount() != 0) {
        viol("C06", "harness:root-not-parsed", issueSummary(*parser), replay);
        caseInfo("", false);
        return;
    }
    // every source file validates on its own (precondition of the validity claim)
    bool sourcesValid = true;
    for (const auto &f : fs.files) {
        auto pm = Parser::create(true)->parseModel(readFile(dir + "/" + f.first));
        auto v = Validator::create();
        v->validateModel(pm);
        if (v->issueCount() != 0) {
            sourcesValid = false;
            note("source file " + f.first + " does not validate: " + issueSummary(*v, 3));
        }
    }
    if (!root->hasImports()) {
        // nothing was imported in this draw: still a legitimate (trivial) flatten
        stat("trivial_hierarchies");
    }
    auto importer = Importer::create(true);
    stage("resolveImports " + shape);
    bool ok = importer->resolveImports(root, dir + "/");
    monitorLogger(*importer, "Importer::resolveImports", replay);
    if (!ok || root->hasUnresolvedImports()) {
        // resolution of a resolvable hierarchy is C07's property
        viol("C07", std::string("resolvable-hierarchy-not-resolved") + tagFeatures, issueSummary(*importer), replay);
        stat("not_resolved");
        caseInfo("", false);
        return;
    }
    DumpOptions deep;
    deep.importedModels = true;
    std::string rootBefore = dumpModel(root, deep);
    std::vector<std::string> libBefore;
    for (size_t i = 0; i < importer->libraryCount(); ++i) {
        libBefore.push_back(dumpModel(importer->library(i), deep));
    }
    stage("flattenModel " + shape);
    auto flat = importer->flattenModel(root);
    monitorLogger(*importer, "Importer::flattenModel", replay);
    stat("flatten_calls");
    if (flat == nullptr) {
        monitorExplained(true, *importer, "Importer::flattenModel", replay);
        viol("C06", "flatten-null-for-resolved-hierarchy" + tagFeatures, issueSummary(*importer), replay);
        caseInfo("F" + hex64(fnv1a(shape)), true, shape + " -> null");
        return;
    }
    if (dumpModel(root, deep) != rootBefore) {
        viol("C06", "flatten-changed-input-model:" + changeClass(firstDiff(rootBefore, dumpModel(root, deep))) + tagFeatures, firstDiff(rootBefore, dumpModel(root, deep)), replay);
    }
    for (size_t i = 0; i < importer->libraryCount() && i < libBefore.size(); ++i) {
        if (dumpModel(importer->library(i), deep) != libBefore[i]) {
            viol("C06", "flatten-changed-library-model:" + changeClass(firstDiff(libBefore[i], dumpModel(importer->library(i), deep))) + tagFeatures, importer->key(i) + ": " + firstDiff(libBefore[i], dumpModel(importer->library(i), deep)), replay);
        }
    }
    if (flat->hasImports()) {
        viol("C06", "flat-model-has-imports" + tagFeatures, "", replay);
    }
    std::string flatText = Printer::create()->printModel(flat);
    // ---- units keep their meaning
    // (a) units the root imports directly: the flattened definition means what the definition in the source file means
    for (size_t i = 0; i < root->unitsCount(); ++i) {
        auto ru = root->units(i);
        if (!ru->isImport()) {
            continue;
        }
        Meaning want = meaningOf(ru);
        auto fu = flat->units(ru->name());
        if (!want.ok || fu == nullptr) {
            continue;
        }
        Meaning got = meaningOf(fu);
        stat("imported_units_meanings_compared");
        if (!got.ok || !sameMeaning(want, got)) {
            viol("C06", std::string("flat-imported-units-meaning-changed:") + (got.ok ? "different" : "undefined") + ":level" + std::to_string(divergenceLevel(ru, fu)), "units '" + ru->name() + "' imported by the root mean " + meaningText(want) + " in their source file and " + (got.ok ? meaningText(got) : std::string("<undefined>")) + " in the flattened model", replay + "\n<!-- ===== flattened ===== -->\n" + flatText);
            break;
        }
    }
    // (b) every variable of the flattened model has units that mean what the variable's units mean in the single-file
    //     rendering of the same system
    {
        auto single = Parser::create(true)->parseModel(writeCellml2(flatIr, WriteStyle()));
        std::map<std::string, ComponentPtr> flatComps;
        for (const auto &c : allComponents(flat)) {
            flatComps[c->name()] = c;
        }
        bool reported = false;
        for (const auto &c : single != nullptr ? allComponents(single) : std::vector<ComponentPtr>()) {
            auto fc = flatComps.find(c->name());
            if (fc == flatComps.end()) {
                continue;
            }
            for (size_t vi = 0; vi < c->variableCount() && !reported; ++vi) {
                auto v = c->variable(vi);
                auto fv = fc->second->variable(v->name());
                if (fv == nullptr || v->units() == nullptr || fv->units() == nullptr) {
                    continue;
                }
                Meaning want = meaningOf(single->hasUnits(v->units()->name()) ? single->units(v->units()->name()) : v->units());
                UnitsPtr fu = flat->hasUnits(fv->units()->name()) ? flat->units(fv->units()->name()) : fv->units();
                Meaning got = meaningOf(fu);
                if (!want.ok) {
                    continue;
                }
                stat("variable_units_meanings_compared");
                if (!got.ok || !sameMeaning(want, got)) {
                    // which way did the variable come into the flat model?
                    bool viaImport = root->component(c->name(), true) == nullptr || root->component(c->name(), true)->isImport();
                    viol("C06", std::string("flat-variable-units-meaning-changed:") + (got.ok ? "different" : "undefined") + (viaImport ? ":component-from-import" : ":component-of-root") + ":level" + std::to_string(divergenceLevel(single->hasUnits(v->units()->name()) ? single->units(v->units()->name()) : v->units(), fu)),
                         "variable " + c->name() + "." + v->name() + " has units '" + v->units()->name() + "' = " + meaningText(want) + "; in the flattened model its units '" + fv->units()->name() + "' mean " + (got.ok ? meaningText(got) : std::string("<undefined>")), replay + "\n<!-- ===== flattened ===== -->\n" + flatText);
                    reported = true;
                }
            }
        }
    }
    auto validator = Validator::create();
    validator->validateModel(flat);
    monitorLogger(*validator, "Validator::validateModel(flat)", replay);
    if (sourcesValid && validator->issueCount() != 0) {
        viol("C06", "flat-model-invalid:" + ruleName(validator->issue(0)->referenceRule()) + tagFeatures, issueSummary(*validator) + "\nflattened:\n" + truncateForLog(flatText, 3000), replay);
        caseInfo("F" + hex64(fnv1a(shape)), true, shape + " -> invalid flat model");
        return;
    }
    stat("flat_models_valid");
    // every component of the flat rendering is present in the flattened model, under its (instance) name
    std::set<std::string> flatNames;
    for (const auto &c : allComponents(flat)) {
        flatNames.insert(c->name());
    }
    for (const auto &c : flatIr.comps) {
        if (flatNames.count(c.name) == 0U) {
            // "renamed consistently where names clash" is allowed, and the flattener also renames (name -> name_<n>, once per level: name_1_1) an
            // import component that sits below another import component although nothing clashes in the end: accept a
            // unique name_<n> and give the component its name back so that the value comparison can find its variables
            ComponentPtr renamed;
            int candidates = 0;
            for (const auto &fc : allComponents(flat)) {
                const std::string &n = fc->name();
                if (n.size() > c.name.size() + 1 && n.compare(0, c.name.size() + 1, c.name + "_") == 0 && n.find_first_not_of("0123456789_", c.name.size() + 1) == std::string::npos && n.back() != '_') {
                    renamed = fc;
                    ++candidates;
                }
            }
            if (candidates == 1) {
                stat("components_renamed_by_flatten");
                renamed->setName(c.name);
                continue;
            }
            viol("C06", "component-missing-after-flatten" + tagFeatures, c.name, replay + "\nflattened:\n" + truncateForLog(flatText, 3000));
        }
    }
    // same values
    std::vector<SemPoint> points;
    points.push_back(initialPoint(m));
    for (int p = 1; p < 3 && m.voi >= 0; ++p) {
        SemPoint pt = initialPoint(m);
        pt.voi = p == 1 ? 0.7 : 2.3;
        for (auto &s : pt.stateValues) {
            s = s * (p == 1 ? 1.3 : 0.6) + (p == 1 ? 0.21 : -0.17);
        }
        points.push_back(pt);
    }
    std::vector<std::string> labels(m.q.size());
    for (size_t i = 0; i < m.q.size(); ++i) {
        labels[i] = std::string(qkindName(m.q[i].kind)) + tagFeatures;
    }
    Judged jd;
    judgeModel(ctx, "C06", m, flat, replay + "\n<!-- ===== flattened ===== -->\n" + flatText, labels, points, "flattened" + tagFeatures + " " + shape, jd);
    stat("values_compared", jd.compared);
    stat("imported_subtrees", fs.importedSubtrees);
    caseInfo("F" + hex64(fnv1a(replay)), fs.importedSubtrees > 0, shape + " q=" + std::to_string(m.q.size()));
}
