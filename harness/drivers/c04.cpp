// C04: the validator accepts valid models and rejects every rule violation.
//  (A) acceptance: valid-by-construction models (API-built and parsed from text) validate with zero issues;
//      a rejection is attributed to the feature that triggers it by feature removal (never by description).
//  (B) rejection: a fault catalogue; every fault is injected at several locations of a clean base model and must be
//      reported with >= 1 ERROR-level issue whose referenceRule() is in the fault's admissible set.
//  (C) cross-cutting: logger coherence after every validation; validation must not change the model.
#include "gen.h"
#include "vh.h"

#include <algorithm>
#include <cmath>
#include <cstring>
#include <functional>
#include <map>
#include <set>

#include <csignal>
#include <cxxabi.h>
#include <sys/wait.h>
#include <typeinfo>
#include <unistd.h>

using namespace vh;
using Rule = Issue::ReferenceRule;

// ---------------------------------------------------------------- rule names
#define C04_RULES(X) \
    X(UNDEFINED) X(XML) X(XML_UNEXPECTED_ELEMENT) X(XML_UNEXPECTED_CHARACTER) X(XML_UNEXPECTED_NAMESPACE) X(XML_ATTRIBUTE_HAS_NAMESPACE) \
    X(XML_ID_ATTRIBUTE) X(MODEL_ELEMENT) X(MODEL_NAME) X(MODEL_NAME_VALUE) X(MODEL_CHILD) X(MODEL_MORE_THAN_ONE_ENCAPSULATION) \
    X(IMPORT_ELEMENT) X(IMPORT_HREF) X(IMPORT_HREF_LOCATOR) X(IMPORT_CHILD) X(IMPORT_EQUIVALENT_INFOSET) X(IMPORT_UNITS_ELEMENT) \
    X(IMPORT_UNITS_NAME) X(IMPORT_UNITS_NAME_VALUE) X(IMPORT_UNITS_NAME_UNIQUE) X(IMPORT_UNITS_UNITS_REFERENCE) \
    X(IMPORT_UNITS_UNITS_REFERENCE_VALUE) X(IMPORT_UNITS_UNITS_REFERENCE_VALUE_TARGET) X(IMPORT_COMPONENT_ELEMENT) \
    X(IMPORT_COMPONENT_NAME) X(IMPORT_COMPONENT_NAME_VALUE) X(IMPORT_COMPONENT_NAME_UNIQUE) X(IMPORT_COMPONENT_COMPONENT_REFERENCE) \
    X(IMPORT_COMPONENT_COMPONENT_REFERENCE_VALUE) X(IMPORT_COMPONENT_COMPONENT_REFERENCE_TARGET) X(UNITS_ELEMENT) X(UNITS_NAME) \
    X(UNITS_NAME_VALUE) X(UNITS_NAME_UNIQUE) X(UNITS_STANDARD) X(UNITS_CHILD) X(UNIT_ELEMENT) X(UNIT_UNITS) X(UNIT_UNITS_REFERENCE) \
    X(UNIT_UNITS_CIRCULAR_REFERENCE) X(UNIT_ATTRIBUTE_OPTIONAL) X(UNIT_ATTRIBUTE_PREFIX_VALUE) X(UNIT_ATTRIBUTE_MULTIPLIER_VALUE) \
    X(UNIT_ATTRIBUTE_EXPONENT_VALUE) X(COMPONENT_ELEMENT) X(COMPONENT_NAME) X(COMPONENT_NAME_VALUE) X(COMPONENT_NAME_UNIQUE) \
    X(COMPONENT_CHILD) X(VARIABLE_ELEMENT) X(VARIABLE_ATTRIBUTE_REQUIRED) X(VARIABLE_NAME_VALUE) X(VARIABLE_NAME_UNIQUE) \
    X(VARIABLE_UNITS_VALUE) X(VARIABLE_ATTRIBUTE_OPTIONAL) X(VARIABLE_INTERFACE_VALUE) X(VARIABLE_INITIAL_VALUE_VALUE) X(RESET_ELEMENT) \
    X(RESET_ATTRIBUTE_REQUIRED) X(RESET_VARIABLE_REFERENCE) X(RESET_TEST_VARIABLE_REFERENCE) X(RESET_ORDER_VALUE) X(RESET_ORDER_UNIQUE) \
    X(RESET_CHILD) X(RESET_RESET_VALUE_CHILD) X(RESET_TEST_VALUE_CHILD) X(TEST_VALUE_ELEMENT) X(TEST_VALUE_CHILD) X(RESET_VALUE_ELEMENT) \
    X(RESET_VALUE_CHILD) X(MATH_ELEMENT) X(MATH_MATHML) X(MATH_CHILD) X(MATH_CI_VARIABLE_REFERENCE) X(MATH_CN_UNITS_ATTRIBUTE) \
    X(MATH_CN_UNITS_ATTRIBUTE_REFERENCE) X(MATH_CN_BASE10) X(MATH_CN_FORMAT) X(ENCAPSULATION_ELEMENT) X(ENCAPSULATION_CHILD) \
    X(COMPONENT_REF_ELEMENT) X(COMPONENT_REF_COMPONENT_ATTRIBUTE) X(COMPONENT_REF_COMPONENT_ATTRIBUTE_REFERENCE) \
    X(COMPONENT_REF_COMPONENT_ATTRIBUTE_UNIQUE) X(COMPONENT_REF_CHILD) X(CONNECTION_ELEMENT) X(CONNECTION_COMPONENT1_ATTRIBUTE) \
    X(CONNECTION_COMPONENT1_ATTRIBUTE_REFERENCE) X(CONNECTION_COMPONENT2_ATTRIBUTE) X(CONNECTION_COMPONENT2_ATTRIBUTE_REFERENCE) \
    X(CONNECTION_EXCLUDE_SELF) X(CONNECTION_UNIQUE) X(CONNECTION_CHILD) X(MAP_VARIABLES_ELEMENT) X(MAP_VARIABLES_VARIABLE1_ATTRIBUTE) \
    X(MAP_VARIABLES_VARIABLE1_ATTRIBUTE_REFERENCE) X(MAP_VARIABLES_VARIABLE2_ATTRIBUTE) X(MAP_VARIABLES_VARIABLE2_ATTRIBUTE_REFERENCE) \
    X(MAP_VARIABLES_UNIQUE) X(DATA_REPR_IDENTIFIER_AT_LEAST_ONE_ALPHANUM) X(DATA_REPR_IDENTIFIER_BEGIN_EURO_NUM) \
    X(DATA_REPR_IDENTIFIER_LATIN_ALPHANUM) X(INVALID_ARGUMENT)

static std::string rn(Rule r)
{
    switch (r) {
#define X(n) \
    case Rule::n: \
        return #n;
        C04_RULES(X)
#undef X
    default:
        break;
    }
    return "R" + std::to_string(static_cast<int>(r));
}

static std::string itemType(const IssuePtr &is)
{
    auto it = is->item();
    return it == nullptr ? "nullitem" : cellmlElementTypeAsString(it->type());
}

// ---------------------------------------------------------------- IR helpers
static IrModel deepCopy(const IrModel &m)
{
    IrModel c = m;
    for (auto &comp : c.comps) {
        for (auto &mm : comp.math) {
            for (auto &e : mm) {
                e = cloneExpr(e);
            }
        }
        for (auto &r : comp.resets) {
            r.testValue = cloneExpr(r.testValue);
            r.resetValue = cloneExpr(r.resetValue);
        }
    }
    return c;
}

static int compDepth(const IrModel &m, int ci)
{
    int d = 0;
    for (int p = m.comps[static_cast<size_t>(ci)].parent; p >= 0; p = m.comps[static_cast<size_t>(p)].parent) {
        ++d;
    }
    return d;
}

static std::string compClass(const IrModel &m, int ci)
{
    const auto &c = m.comps[static_cast<size_t>(ci)];
    int d = compDepth(m, ci);
    std::string s = c.import >= 0 ? "imp-" : "";
    s += d == 0 ? "top" : (d == 1 ? "enc1" : "enc2+");
    if (!c.children.empty()) {
        s += "-parent";
    }
    return s;
}

static std::string posClass(size_t i, size_t n)
{
    if (n <= 1) {
        return "only";
    }
    if (i == 0) {
        return "first";
    }
    return i + 1 == n ? "last" : "mid";
}

// insert a component at document position idx (0 = first, comps.size() = last) and fix all indices
static int insertComp(IrModel &m, size_t idx, IrComponent c, bool firstChild)
{
    int ii = static_cast<int>(idx);
    for (auto &o : m.comps) {
        if (o.parent >= ii) {
            ++o.parent;
        }
        for (auto &k : o.children) {
            if (k >= ii) {
                ++k;
            }
        }
    }
    for (auto &cn : m.conns) {
        if (cn.c1 >= ii) {
            ++cn.c1;
        }
        if (cn.c2 >= ii) {
            ++cn.c2;
        }
    }
    if (c.parent >= ii) {
        ++c.parent;
    }
    int parent = c.parent;
    m.comps.insert(m.comps.begin() + ii, c);
    if (parent >= 0) {
        auto &ch = m.comps[static_cast<size_t>(parent)].children;
        if (firstChild) {
            ch.insert(ch.begin(), ii);
        } else {
            ch.push_back(ii);
        }
    }
    return ii;
}

static void renameInExpr(const ExprP &e, const std::string &o, const std::string &n)
{
    if (e == nullptr) {
        return;
    }
    if ((e->op == Op::CI || e->op == Op::DIFF) && e->var == o) {
        e->var = n;
    }
    if (e->op == Op::DIFF && e->bvar == o) {
        e->bvar = n;
    }
    for (auto &k : e->kids) {
        renameInExpr(k, o, n);
    }
}

// rename variable `o` of component ci to `n` everywhere it is referenced (the model must be a deep copy)
static void renameVar(IrModel &m, int ci, const std::string &o, const std::string &n)
{
    auto &c = m.comps[static_cast<size_t>(ci)];
    for (auto &v : c.vars) {
        if (v.init == o) {
            v.init = n;
        }
    }
    for (auto &v : c.vars) {
        if (v.name == o) {
            v.name = n;
        }
    }
    for (auto &r : c.resets) {
        if (r.var == o) {
            r.var = n;
        }
        if (r.testVar == o) {
            r.testVar = n;
        }
        renameInExpr(r.testValue, o, n);
        renameInExpr(r.resetValue, o, n);
    }
    for (auto &mm : c.math) {
        for (auto &e : mm) {
            renameInExpr(e, o, n);
        }
    }
    for (auto &cn : m.conns) {
        for (auto &mp : cn.maps) {
            if (cn.c1 == ci && mp.v1 == o) {
                mp.v1 = n;
            }
            if (cn.c2 == ci && mp.v2 == o) {
                mp.v2 = n;
            }
        }
    }
}

static void cnUnitsInExpr(const ExprP &e, std::set<std::string> &out)
{
    if (e == nullptr) {
        return;
    }
    if (e->op == Op::CN) {
        out.insert(e->cnUnits);
    }
    for (const auto &k : e->kids) {
        cnUnitsInExpr(k, out);
    }
}

// every units name referenced anywhere (variables, unit children, cn)
static std::set<std::string> referencedUnits(const IrModel &m)
{
    std::set<std::string> s;
    for (const auto &u : m.units) {
        for (const auto &k : u.units) {
            s.insert(k.ref);
        }
    }
    for (const auto &c : m.comps) {
        for (const auto &v : c.vars) {
            s.insert(v.units);
        }
        for (const auto &mm : c.math) {
            for (const auto &e : mm) {
                cnUnitsInExpr(e, s);
            }
        }
        for (const auto &r : c.resets) {
            cnUnitsInExpr(r.testValue, s);
            cnUnitsInExpr(r.resetValue, s);
        }
    }
    return s;
}

static int importUsers(const IrModel &m, int ii)
{
    int n = 0;
    for (const auto &u : m.units) {
        n += u.import == ii ? 1 : 0;
    }
    for (const auto &c : m.comps) {
        n += c.import == ii ? 1 : 0;
    }
    return n;
}

// ---- independent dimension reducer (exponents of base dimensions only; scale is irrelevant to the property)
using Dim = std::map<std::string, double>;
static const std::map<std::string, Dim> &standardDims()
{
    static const std::map<std::string, Dim> t = {
        {"ampere", {{"A", 1}}}, {"becquerel", {{"s", -1}}}, {"candela", {{"cd", 1}}}, {"coulomb", {{"s", 1}, {"A", 1}}}, {"dimensionless", {}},
        {"farad", {{"m", -2}, {"kg", -1}, {"s", 4}, {"A", 2}}}, {"gram", {{"kg", 1}}}, {"gray", {{"m", 2}, {"s", -2}}},
        {"henry", {{"m", 2}, {"kg", 1}, {"s", -2}, {"A", -2}}}, {"hertz", {{"s", -1}}}, {"joule", {{"m", 2}, {"kg", 1}, {"s", -2}}},
        {"katal", {{"s", -1}, {"mol", 1}}}, {"kelvin", {{"K", 1}}}, {"kilogram", {{"kg", 1}}}, {"litre", {{"m", 3}}}, {"lumen", {{"cd", 1}}},
        {"lux", {{"m", -2}, {"cd", 1}}}, {"metre", {{"m", 1}}}, {"mole", {{"mol", 1}}}, {"newton", {{"m", 1}, {"kg", 1}, {"s", -2}}},
        {"ohm", {{"m", 2}, {"kg", 1}, {"s", -3}, {"A", -2}}}, {"pascal", {{"m", -1}, {"kg", 1}, {"s", -2}}}, {"radian", {}}, {"second", {{"s", 1}}},
        {"siemens", {{"m", -2}, {"kg", -1}, {"s", 3}, {"A", 2}}}, {"sievert", {{"m", 2}, {"s", -2}}}, {"steradian", {}},
        {"tesla", {{"kg", 1}, {"s", -2}, {"A", -1}}}, {"volt", {{"m", 2}, {"kg", 1}, {"s", -3}, {"A", -1}}}, {"watt", {{"m", 2}, {"kg", 1}, {"s", -3}}},
        {"weber", {{"m", 2}, {"kg", 1}, {"s", -2}, {"A", -1}}}};
    return t;
}

// false when the dimension cannot be known (imported units, missing reference, too deep)
static bool reduceDim(const IrModel &m, const std::string &name, double exp, Dim &d, int depth = 0)
{
    if (depth > 12) {
        return false;
    }
    int ui = m.findUnits(name);
    if (ui >= 0) {
        const auto &u = m.units[static_cast<size_t>(ui)];
        if (u.import >= 0) {
            return false;
        }
        if (u.units.empty()) {
            d["user:" + name] += exp;
            return true;
        }
        for (const auto &k : u.units) {
            double e = k.hasExp ? strtod(k.exp.c_str(), nullptr) : 1.0;
            if (!reduceDim(m, k.ref, exp * e, d, depth + 1)) {
                return false;
            }
        }
        return true;
    }
    auto it = standardDims().find(name);
    if (it == standardDims().end()) {
        return false;
    }
    for (const auto &kv : it->second) {
        d[kv.first] += exp * kv.second;
    }
    return true;
}

static bool sameDim(Dim a, const Dim &b)
{
    for (const auto &kv : b) {
        a[kv.first] -= kv.second;
    }
    for (const auto &kv : a) {
        if (std::fabs(kv.second) > 1e-9) {
            return false;
        }
    }
    return true;
}

// ---- equivalence classes of (component, variable) from the IR connections
using VarKey = std::pair<int, std::string>;
static std::map<VarKey, std::set<VarKey>> adjacency(const IrModel &m)
{
    std::map<VarKey, std::set<VarKey>> adj;
    for (const auto &cn : m.conns) {
        for (const auto &mp : cn.maps) {
            VarKey a {cn.c1, mp.v1};
            VarKey b {cn.c2, mp.v2};
            adj[a].insert(b);
            adj[b].insert(a);
        }
    }
    return adj;
}

// ---- math sites
struct MathSite
{
    int comp = 0;
    char kind = 'm'; // 'm' component math (a = math element, b = equation), 't' test_value of reset a, 'r' reset_value of reset a
    int a = 0;
    int b = 0;
    std::vector<int> path;
};

static ExprP *siteNode(IrModel &m, const MathSite &s)
{
    auto &c = m.comps[static_cast<size_t>(s.comp)];
    ExprP *p = nullptr;
    if (s.kind == 'm') {
        p = &c.math[static_cast<size_t>(s.a)][static_cast<size_t>(s.b)]->kids[1];
    } else if (s.kind == 't') {
        p = &c.resets[static_cast<size_t>(s.a)].testValue;
    } else {
        p = &c.resets[static_cast<size_t>(s.a)].resetValue;
    }
    for (int i : s.path) {
        p = &(*p)->kids[static_cast<size_t>(i)];
    }
    return p;
}

static void walkSites(const ExprP &e, MathSite cur, std::vector<MathSite> &out)
{
    out.push_back(cur);
    if (e == nullptr) {
        return;
    }
    for (size_t i = 0; i < e->kids.size(); ++i) {
        MathSite n = cur;
        n.path.push_back(static_cast<int>(i));
        walkSites(e->kids[i], n, out);
    }
}

static std::vector<MathSite> collectSites(const IrModel &m)
{
    std::vector<MathSite> out;
    for (size_t ci = 0; ci < m.comps.size(); ++ci) {
        const auto &c = m.comps[ci];
        if (c.import >= 0 || c.vars.empty()) {
            continue;
        }
        for (size_t a = 0; a < c.math.size(); ++a) {
            for (size_t b = 0; b < c.math[a].size(); ++b) {
                const auto &eq = c.math[a][b];
                if (eq != nullptr && eq->op == Op::EQ && eq->kids.size() == 2) {
                    MathSite s;
                    s.comp = static_cast<int>(ci);
                    s.kind = 'm';
                    s.a = static_cast<int>(a);
                    s.b = static_cast<int>(b);
                    walkSites(eq->kids[1], s, out);
                }
            }
        }
        for (size_t a = 0; a < c.resets.size(); ++a) {
            MathSite s;
            s.comp = static_cast<int>(ci);
            s.a = static_cast<int>(a);
            s.kind = 't';
            walkSites(c.resets[a].testValue, s, out);
            s.kind = 'r';
            walkSites(c.resets[a].resetValue, s, out);
        }
    }
    return out;
}

// "root", "nested" or "nested-in-degree" / "nested-in-logbase" (somewhere below a qualifier element)
static std::string siteContext(const IrModel &m, const MathSite &s)
{
    if (s.path.empty()) {
        return "root";
    }
    MathSite top = s;
    top.path.clear();
    const ExprP *p = siteNode(const_cast<IrModel &>(m), top);
    std::string ctx = "nested";
    for (int i : s.path) {
        const ExprP &e = *p;
        if (ctx == "nested" && e->hasQualifier && i == 0 && (e->op == Op::ROOT || e->op == Op::LOG)) {
            ctx = e->op == Op::ROOT ? "nested-in-degree" : "nested-in-logbase";
        }
        p = &e->kids[static_cast<size_t>(i)];
    }
    return ctx;
}

static std::string siteClass(const IrModel &m, const MathSite &s)
{
    const auto &c = m.comps[static_cast<size_t>(s.comp)];
    std::string k = s.kind == 'm' ? "component-math" : (s.kind == 't' ? "reset-test-value" : "reset-value");
    std::string pos = s.kind == 'm' ? posClass(static_cast<size_t>(s.a), c.math.size()) : posClass(static_cast<size_t>(s.a), c.resets.size());
    return k + "/" + siteContext(m, s) + "/" + compClass(m, s.comp) + "/" + pos;
}

static const char *kMarker = "c04_fault_marker";
static const char *kMarkerXml = "<ci>c04_fault_marker</ci>";

// Validation cost is dominated by the number of <math> elements (the MathML DTD is re-parsed for each), and components are
// validated independently of each other: math faults keep the math / resets of the faulty component only.
static void pruneOtherMath(IrModel &m, int keep)
{
    for (size_t i = 0; i < m.comps.size(); ++i) {
        if (static_cast<int>(i) != keep) {
            m.comps[i].math.clear();
            m.comps[i].resets.clear();
        }
    }
}

static bool replaceAll(std::string &s, const std::string &from, const std::string &to)
{
    bool any = false;
    size_t p = 0;
    while ((p = s.find(from, p)) != std::string::npos) {
        s.replace(p, from.size(), to);
        p += to.size();
        any = true;
    }
    return any;
}

// ---------------------------------------------------------------- fault model
struct Loc
{
    std::string cls;                              // location class (part of violation keys and of evidence)
    std::string what;                             // human description for replays
    std::function<void(IrModel &)> ir;            // mutation of (a deep copy of) the IR; may be empty
    std::function<void(const ModelPtr &)> api;    // patch of the API-built model; may be empty
    std::string rawXml;                           // replaces the marker <ci> in math strings / text when non-empty
    bool text = true;                             // also try the text + strict parse path
    bool must = false;                            // crafted location: always among the chosen ones
};

using LocFn = std::function<std::vector<Loc>(const IrModel &, Rng &)>;

struct Fault
{
    std::string name;
    std::vector<Rule> adm;
    LocFn locs;
    bool probe = false;   // rule not implemented by the validator / debatable: outcome recorded, never judged
    bool math = false;
    int maxReps = 1000000;
    bool crashy = false;  // the validator is known to die on this input: validate in a forked child first to get a stable signature
    std::function<void(GenOptions &)> tune;
};

static std::vector<Fault> &catalogue();

// objects that must outlive a validation although the model only holds weak references to them (cleared per case)
static std::vector<std::shared_ptr<void>> &keepAlive()
{
    static std::vector<std::shared_ptr<void>> v;
    return v;
}

// ---------------------------------------------------------------- catalogue: helpers
namespace {

struct IdKind
{
    const char *name;
    std::vector<std::string> values;
    Rule repr;
};

const std::vector<IdKind> &idKinds()
{
    static const std::vector<IdKind> k = {
        {"empty", {""}, Rule::DATA_REPR_IDENTIFIER_AT_LEAST_ONE_ALPHANUM},
        {"digit", {"1abc", "9", "0_x", "2nd_thing"}, Rule::DATA_REPR_IDENTIFIER_BEGIN_EURO_NUM},
        {"char", {"a-b", "a b", "a.b", "caf\xc3\xa9", "a:b", "x$", "-a", "a+b", "\xce\xb1"}, Rule::DATA_REPR_IDENTIFIER_LATIN_ALPHANUM}};
    return k;
}

std::vector<Rule> withKind(std::vector<Rule> base, const IdKind &k, std::vector<Rule> whenEmpty = {})
{
    base.push_back(k.repr);
    if (std::string(k.name) == "empty") {
        base.insert(base.end(), whenEmpty.begin(), whenEmpty.end());
    }
    return base;
}

Loc irLoc(const std::string &cls, const std::string &what, std::function<void(IrModel &)> fn)
{
    Loc l;
    l.cls = cls;
    l.what = what;
    l.ir = std::move(fn);
    return l;
}

IrVariable mkVar(const std::string &name, const std::string &units = "dimensionless", const std::string &iface = "")
{
    IrVariable v;
    v.name = name;
    v.units = units;
    v.iface = iface;
    return v;
}

IrReset mkReset(const std::string &var, int order)
{
    IrReset r;
    r.var = var;
    r.testVar = var;
    r.order = order;
    r.testValue = mkCn("1", "dimensionless");
    r.resetValue = mkCn("0", "dimensionless");
    return r;
}

std::vector<int> plainComps(const IrModel &m)
{
    std::vector<int> v;
    for (size_t i = 0; i < m.comps.size(); ++i) {
        if (m.comps[i].import < 0) {
            v.push_back(static_cast<int>(i));
        }
    }
    return v;
}

// a new, empty component placed at top level (first/last in document order) or as a child
std::vector<Loc> newComponentLocs(const IrModel &m, Rng &rng, const std::string &name, const std::string &tag, int import = -1, const std::string &ref = "")
{
    std::vector<Loc> out;
    auto mk = [=](int parent) {
        IrComponent c;
        c.name = name;
        c.parent = parent;
        c.import = import;
        c.importRef = ref;
        return c;
    };
    out.push_back(irLoc(tag + "new-top-last", "new component '" + name + "' appended at top level", [=](IrModel &f) { insertComp(f, f.comps.size(), mk(-1), false); }));
    out.push_back(irLoc(tag + "new-top-first", "new component '" + name + "' inserted first at top level", [=](IrModel &f) { insertComp(f, 0, mk(-1), false); }));
    if (!m.comps.empty()) {
        int p = static_cast<int>(rng.below(m.comps.size()));
        bool first = rng.chance(0.5);
        out.push_back(irLoc(tag + "new-child-of-" + compClass(m, p) + (first ? "-first" : "-last"), "new component '" + name + "' encapsulated under component #" + std::to_string(p),
                            [=](IrModel &f) { insertComp(f, f.comps.size(), mk(p), first); }));
    }
    return out;
}

struct IdSlot
{
    std::string kind;
    std::function<std::string &(IrModel &)> ref;
};

std::vector<IdSlot> idSlots(const IrModel &m)
{
    std::vector<IdSlot> s;
    s.push_back({"model", [](IrModel &f) -> std::string & { return f.id; }});
    if (m.hasEncapsulation()) {
        s.push_back({"encapsulation", [](IrModel &f) -> std::string & { return f.encId; }});
    }
    for (size_t i = 0; i < m.imports.size(); ++i) {
        if (importUsers(m, static_cast<int>(i)) == 1) {
            s.push_back({"import", [i](IrModel &f) -> std::string & { return f.imports[i].id; }});
        }
    }
    for (size_t i = 0; i < m.units.size(); ++i) {
        s.push_back({m.units[i].import >= 0 ? "imported-units" : "units", [i](IrModel &f) -> std::string & { return f.units[i].id; }});
        for (size_t k = 0; k < m.units[i].units.size(); ++k) {
            s.push_back({"unit", [i, k](IrModel &f) -> std::string & { return f.units[i].units[k].id; }});
        }
    }
    for (size_t i = 0; i < m.comps.size(); ++i) {
        const auto &c = m.comps[i];
        s.push_back({c.import >= 0 ? "imported-component" : "component", [i](IrModel &f) -> std::string & { return f.comps[i].id; }});
        if (c.parent >= 0 || !c.children.empty()) {
            s.push_back({"component_ref", [i](IrModel &f) -> std::string & { return f.comps[i].encId; }});
        }
        if (c.import >= 0) {
            continue;
        }
        for (size_t k = 0; k < c.vars.size(); ++k) {
            s.push_back({"variable", [i, k](IrModel &f) -> std::string & { return f.comps[i].vars[k].id; }});
        }
        for (size_t k = 0; k < c.resets.size(); ++k) {
            s.push_back({"reset", [i, k](IrModel &f) -> std::string & { return f.comps[i].resets[k].id; }});
            s.push_back({"test_value", [i, k](IrModel &f) -> std::string & { return f.comps[i].resets[k].tvId; }});
            s.push_back({"reset_value", [i, k](IrModel &f) -> std::string & { return f.comps[i].resets[k].rvId; }});
        }
    }
    for (size_t i = 0; i < m.conns.size(); ++i) {
        // the validator records connection / mapping ids from one side of each variable pair only, chosen by comparing
        // (variable name + component name) of the two ends: both orders are location classes of their own
        auto order = [&](size_t k) {
            const auto &cn = m.conns[i];
            std::string a = cn.maps[k].v1 + m.comps[static_cast<size_t>(cn.c1)].name;
            std::string b = cn.maps[k].v2 + m.comps[static_cast<size_t>(cn.c2)].name;
            bool firstIsC1 = cn.c1 < cn.c2; // components are visited in document order
            return std::string((a < b) == firstIsC1 ? "/first-visited-end-sorts-first" : "/first-visited-end-sorts-last");
        };
        s.push_back({"connection" + (m.conns[i].maps.empty() ? std::string() : order(0)), [i](IrModel &f) -> std::string & { return f.conns[i].id; }});
        for (size_t k = 0; k < m.conns[i].maps.size(); ++k) {
            s.push_back({"map_variables" + order(k), [i, k](IrModel &f) -> std::string & { return f.conns[i].maps[k].id; }});
        }
    }
    return s;
}

void add(std::vector<Fault> &cat, const std::string &name, std::vector<Rule> adm, LocFn fn, std::function<void(GenOptions &)> tune = nullptr)
{
    Fault f;
    f.name = name;
    f.adm = std::move(adm);
    f.locs = std::move(fn);
    f.tune = std::move(tune);
    cat.push_back(f);
}

void wantImports(GenOptions &g) { g.imports = true; }
void wantResets(GenOptions &g) { g.resets = true; g.maxVarsPerComponent = 4; g.maxComponents = 4; }
void wantConns(GenOptions &g) { g.connections = true; g.maxComponents = 7; }
void wantUnits(GenOptions &g) { g.maxUnits = 7; }
void wantMath(GenOptions &g) { g.mathProbability = 0.7; g.resets = true; g.maxComponents = 3; g.maxVarsPerComponent = 3; }

// ---------------------------------------------------------------- catalogue: structure (non-math) faults
void addIdentifierFaults(std::vector<Fault> &cat)
{
    for (const auto &k : idKinds()) {
        const IdKind kind = k;
        std::string kn = kind.name;
        bool empty = kn == "empty";
        // model name
        add(cat, "ident:model-name:" + kn, withKind({Rule::MODEL_NAME_VALUE}, kind, {Rule::MODEL_NAME}), [=](const IrModel &, Rng &rng) {
            std::string bad = rng.pick(kind.values);
            return std::vector<Loc> {irLoc("model", "model name := '" + bad + "'", [=](IrModel &f) { f.name = bad; })};
        });
        // component name (ordinary component): in place (connections/encapsulation follow automatically) and new empty component
        add(cat, "ident:component-name:" + kn, withKind({Rule::COMPONENT_NAME_VALUE}, kind, {Rule::COMPONENT_NAME}), [=](const IrModel &m, Rng &rng) {
            std::vector<Loc> out;
            std::string bad = rng.pick(kind.values);
            for (int ci : plainComps(m)) {
                out.push_back(irLoc("inplace/" + compClass(m, ci) + "/" + posClass(static_cast<size_t>(ci), m.comps.size()), "component #" + std::to_string(ci) + " name := '" + bad + "'",
                                    [=](IrModel &f) { f.comps[static_cast<size_t>(ci)].name = bad; }));
            }
            for (auto &l : newComponentLocs(m, rng, bad, "")) {
                out.push_back(l);
            }
            return out;
        });
        // imported component name
        add(cat, "ident:import-component-name:" + kn, withKind({Rule::IMPORT_COMPONENT_NAME_VALUE}, kind, {Rule::IMPORT_COMPONENT_NAME}), [=](const IrModel &m, Rng &rng) {
            std::vector<Loc> out;
            std::string bad = rng.pick(kind.values);
            for (size_t ci = 0; ci < m.comps.size(); ++ci) {
                if (m.comps[ci].import >= 0) {
                    out.push_back(irLoc("inplace/" + compClass(m, static_cast<int>(ci)), "imported component #" + std::to_string(ci) + " name := '" + bad + "'",
                                        [=](IrModel &f) { f.comps[ci].name = bad; }));
                }
            }
            for (size_t ii = 0; ii < m.imports.size(); ++ii) {
                if (importUsers(m, static_cast<int>(ii)) > 0) {
                    for (auto &l : newComponentLocs(m, rng, bad, "import" + std::to_string(importUsers(m, static_cast<int>(ii)) > 1 ? 2 : 1) + "/", static_cast<int>(ii), "c04_ref")) {
                        out.push_back(l);
                    }
                    break;
                }
            }
            return out; }, wantImports);
        // units name: in place when nothing references it, else a new units
        add(cat, "ident:units-name:" + kn, withKind({Rule::UNITS_NAME_VALUE}, kind, {Rule::UNITS_NAME}), [=](const IrModel &m, Rng &rng) {
            std::vector<Loc> out;
            std::string bad = rng.pick(kind.values);
            auto refd = referencedUnits(m);
            for (size_t ui = 0; ui < m.units.size(); ++ui) {
                if (m.units[ui].import < 0 && refd.count(m.units[ui].name) == 0) {
                    out.push_back(irLoc("inplace/" + posClass(ui, m.units.size()) + (m.units[ui].units.empty() ? "/base" : "/derived"), "units #" + std::to_string(ui) + " name := '" + bad + "'",
                                        [=](IrModel &f) { f.units[ui].name = bad; }));
                }
            }
            for (int first = 0; first < 2; ++first) {
                for (int derived = 0; derived < 2; ++derived) {
                    out.push_back(irLoc(std::string("new/") + (first ? "first" : "last") + (derived ? "/derived" : "/base"), "new units named '" + bad + "'", [=](IrModel &f) {
                        IrUnits u;
                        u.name = bad;
                        if (derived) {
                            IrUnit c;
                            c.ref = "second";
                            u.units.push_back(c);
                        }
                        f.units.insert(first ? f.units.begin() : f.units.end(), u);
                    }));
                }
            }
            return out;
        });
        add(cat, "ident:import-units-name:" + kn, withKind({Rule::IMPORT_UNITS_NAME_VALUE}, kind, {Rule::IMPORT_UNITS_NAME}), [=](const IrModel &m, Rng &rng) {
            std::vector<Loc> out;
            std::string bad = rng.pick(kind.values);
            auto refd = referencedUnits(m);
            for (size_t ui = 0; ui < m.units.size(); ++ui) {
                if (m.units[ui].import >= 0 && refd.count(m.units[ui].name) == 0) {
                    out.push_back(irLoc("inplace/" + posClass(ui, m.units.size()), "imported units #" + std::to_string(ui) + " name := '" + bad + "'", [=](IrModel &f) { f.units[ui].name = bad; }));
                }
            }
            for (size_t ii = 0; ii < m.imports.size(); ++ii) {
                if (importUsers(m, static_cast<int>(ii)) > 0) {
                    for (int first = 0; first < 2; ++first) {
                        out.push_back(irLoc(std::string("new/") + (first ? "first" : "last"), "new imported units named '" + bad + "'", [=](IrModel &f) {
                            IrUnits u;
                            u.name = bad;
                            u.import = static_cast<int>(ii);
                            u.importRef = "c04_ref_u";
                            f.units.insert(first ? f.units.begin() : f.units.end(), u);
                        }));
                    }
                    break;
                }
            }
            return out; }, wantImports);
        // variable name: new variable (all kinds) and consistent in-place rename (non-empty kinds)
        add(cat, "ident:variable-name:" + kn, withKind({Rule::VARIABLE_NAME_VALUE}, kind, {Rule::VARIABLE_ATTRIBUTE_REQUIRED}), [=](const IrModel &m, Rng &rng) {
            std::vector<Loc> out;
            std::string bad = rng.pick(kind.values);
            for (int ci : plainComps(m)) {
                const auto &c = m.comps[static_cast<size_t>(ci)];
                bool first = rng.chance(0.5);
                out.push_back(irLoc("new/" + compClass(m, ci) + (first ? "/first" : "/last"), "new variable '" + bad + "' in component #" + std::to_string(ci), [=](IrModel &f) {
                    auto &vs = f.comps[static_cast<size_t>(ci)].vars;
                    vs.insert(first ? vs.begin() : vs.end(), mkVar(bad));
                }));
                if (!empty) {
                    for (size_t vi = 0; vi < c.vars.size(); ++vi) {
                        std::string old = c.vars[vi].name;
                        out.push_back(irLoc("rename/" + compClass(m, ci) + "/" + posClass(vi, c.vars.size()), "variable '" + old + "' of component #" + std::to_string(ci) + " renamed to '" + bad + "' everywhere",
                                            [=](IrModel &f) { renameVar(f, ci, old, bad); }));
                    }
                }
            }
            return out;
        });
        // unit child reference
        add(cat, "ident:unit-units-ref:" + kn, withKind({Rule::UNIT_UNITS_REFERENCE}, kind, {Rule::UNIT_UNITS}), [=](const IrModel &m, Rng &rng) {
            std::vector<Loc> out;
            std::string bad = rng.pick(kind.values);
            for (size_t ui = 0; ui < m.units.size(); ++ui) {
                if (m.units[ui].import >= 0) {
                    continue;
                }
                for (size_t k = 0; k < m.units[ui].units.size(); ++k) {
                    out.push_back(irLoc("units-" + posClass(ui, m.units.size()) + "/child-" + posClass(k, m.units[ui].units.size()), "unit child " + std::to_string(k) + " of units #" + std::to_string(ui) + " units := '" + bad + "'",
                                        [=](IrModel &f) { f.units[ui].units[k].ref = bad; }));
                }
            }
            out.push_back(irLoc("new-units", "new units with one unit child referencing '" + bad + "'", [=](IrModel &f) {
                IrUnits u;
                u.name = "c04_new_units";
                IrUnit c;
                c.ref = bad;
                u.units.push_back(c);
                f.units.push_back(u);
            }));
            return out;
        });
        // variable units attribute
        add(cat, "ident:variable-units:" + kn, withKind({Rule::VARIABLE_UNITS_VALUE}, kind, {Rule::VARIABLE_ATTRIBUTE_REQUIRED}), [=](const IrModel &m, Rng &rng) {
            std::vector<Loc> out;
            std::string bad = rng.pick(kind.values);
            for (int ci : plainComps(m)) {
                const auto &c = m.comps[static_cast<size_t>(ci)];
                for (size_t vi = 0; vi < c.vars.size(); ++vi) {
                    bool conn = !requiredInterface(m, ci, c.vars[vi].name).empty();
                    out.push_back(irLoc(compClass(m, ci) + "/" + posClass(vi, c.vars.size()) + (conn ? "/connected" : "/free"), "variable '" + c.vars[vi].name + "' units := '" + bad + "'",
                                        [=](IrModel &f) { f.comps[static_cast<size_t>(ci)].vars[vi].units = bad; }));
                }
            }
            return out;
        });
        add(cat, "ident:import-component-ref:" + kn, withKind({Rule::IMPORT_COMPONENT_COMPONENT_REFERENCE_VALUE}, kind, {Rule::IMPORT_COMPONENT_COMPONENT_REFERENCE}), [=](const IrModel &m, Rng &rng) {
            std::vector<Loc> out;
            std::string bad = rng.pick(kind.values);
            for (size_t ci = 0; ci < m.comps.size(); ++ci) {
                if (m.comps[ci].import >= 0) {
                    out.push_back(irLoc(compClass(m, static_cast<int>(ci)) + "/" + posClass(ci, m.comps.size()), "imported component #" + std::to_string(ci) + " component_ref := '" + bad + "'",
                                        [=](IrModel &f) { f.comps[ci].importRef = bad; }));
                }
            }
            return out; }, wantImports);
        add(cat, "ident:import-units-ref:" + kn, withKind({Rule::IMPORT_UNITS_UNITS_REFERENCE_VALUE}, kind, {Rule::IMPORT_UNITS_UNITS_REFERENCE}), [=](const IrModel &m, Rng &rng) {
            std::vector<Loc> out;
            std::string bad = rng.pick(kind.values);
            for (size_t ui = 0; ui < m.units.size(); ++ui) {
                if (m.units[ui].import >= 0) {
                    out.push_back(irLoc(posClass(ui, m.units.size()), "imported units #" + std::to_string(ui) + " units_ref := '" + bad + "'", [=](IrModel &f) { f.units[ui].importRef = bad; }));
                }
            }
            return out; }, wantImports);
    }
}

void addUniquenessFaults(std::vector<Fault> &cat)
{
    add(cat, "dup:component-name", {Rule::COMPONENT_NAME_UNIQUE, Rule::IMPORT_COMPONENT_NAME_UNIQUE}, [](const IrModel &m, Rng &rng) {
        std::vector<Loc> out;
        for (size_t oi = 0; oi < m.comps.size(); ++oi) {
            std::string name = m.comps[oi].name;
            std::string tag = "orig-" + compClass(m, static_cast<int>(oi)) + "/";
            for (auto &l : newComponentLocs(m, rng, name, tag)) {
                out.push_back(l);
            }
        }
        // an existing ordinary component without connections takes the name of another one
        for (int ci : plainComps(m)) {
            bool connected = false;
            for (const auto &cn : m.conns) {
                connected = connected || cn.c1 == ci || cn.c2 == ci;
            }
            if (connected || m.comps.size() < 2) {
                continue;
            }
            size_t oi = rng.below(m.comps.size());
            if (static_cast<int>(oi) == ci) {
                oi = (oi + 1) % m.comps.size();
            }
            std::string name = m.comps[oi].name;
            out.push_back(irLoc("rename-" + compClass(m, ci) + "/orig-" + compClass(m, static_cast<int>(oi)), "component #" + std::to_string(ci) + " renamed to the name of component #" + std::to_string(oi),
                                [=](IrModel &f) { f.comps[static_cast<size_t>(ci)].name = name; }));
        }
        return out;
    });
    add(cat, "dup:import-component-name", {Rule::COMPONENT_NAME_UNIQUE, Rule::IMPORT_COMPONENT_NAME_UNIQUE}, [](const IrModel &m, Rng &rng) {
        std::vector<Loc> out;
        int ii = -1;
        for (size_t i = 0; i < m.imports.size() && ii < 0; ++i) {
            if (importUsers(m, static_cast<int>(i)) > 0) {
                ii = static_cast<int>(i);
            }
        }
        if (ii < 0) {
            return out;
        }
        for (size_t oi = 0; oi < m.comps.size(); ++oi) {
            for (auto &l : newComponentLocs(m, rng, m.comps[oi].name, "orig-" + compClass(m, static_cast<int>(oi)) + "/imported-", ii, "c04_ref")) {
                out.push_back(l);
            }
        }
        return out; }, wantImports);
    add(cat, "dup:units-name", {Rule::UNITS_NAME_UNIQUE, Rule::IMPORT_UNITS_NAME_UNIQUE}, [](const IrModel &m, Rng &) {
        std::vector<Loc> out;
        int ii = -1;
        for (size_t i = 0; i < m.imports.size() && ii < 0; ++i) {
            if (importUsers(m, static_cast<int>(i)) > 0) {
                ii = static_cast<int>(i);
            }
        }
        for (size_t oi = 0; oi < m.units.size(); ++oi) {
            std::string name = m.units[oi].name;
            std::string o = std::string("orig-") + (m.units[oi].import >= 0 ? "imported" : (m.units[oi].units.empty() ? "base" : "derived")) + "-" + posClass(oi, m.units.size());
            for (int first = 0; first < 2; ++first) {
                for (int imp = 0; imp < (ii >= 0 ? 2 : 1); ++imp) {
                    out.push_back(irLoc(o + "/new-" + (imp ? "imported-" : "") + (first ? "first" : "last"), "new units with the name of units #" + std::to_string(oi), [=](IrModel &f) {
                        IrUnits u;
                        u.name = name;
                        if (imp) {
                            u.import = ii;
                            u.importRef = "c04_ref_u";
                        }
                        f.units.insert(first ? f.units.begin() : f.units.end(), u);
                    }));
                }
            }
        }
        return out; }, wantUnits);
    add(cat, "dup:variable-name", {Rule::VARIABLE_NAME_UNIQUE}, [](const IrModel &m, Rng &) {
        std::vector<Loc> out;
        for (int ci : plainComps(m)) {
            const auto &c = m.comps[static_cast<size_t>(ci)];
            for (size_t vi = 0; vi < c.vars.size(); ++vi) {
                std::string name = c.vars[vi].name;
                std::string units = c.vars[vi].units;
                out.push_back(irLoc(compClass(m, ci) + "/orig-" + posClass(vi, c.vars.size()) + "/new-last", "second variable named '" + name + "' appended to component #" + std::to_string(ci),
                                    [=](IrModel &f) { f.comps[static_cast<size_t>(ci)].vars.push_back(mkVar(name, units)); }));
            }
        }
        return out;
    });
    // ids: two id-bearing items share one id
    add(cat, "dup:id", {Rule::XML_ID_ATTRIBUTE}, [](const IrModel &m, Rng &rng) {
        std::vector<Loc> out;
        auto slots = idSlots(m);
        if (slots.size() < 2) {
            return out;
        }
        for (size_t i = 0; i < slots.size(); ++i) {
            for (int rep = 0; rep < 2; ++rep) {
                size_t j = rep == 0 ? (i + 1) % slots.size() : rng.below(slots.size());
                if (j == i) {
                    continue;
                }
                auto a = slots[i];
                auto b = slots[j];
                std::string ka = a.kind < b.kind ? a.kind : b.kind;
                std::string kb = a.kind < b.kind ? b.kind : a.kind;
                out.push_back(irLoc(ka + "+" + kb, "id of " + a.kind + " and of " + b.kind + " := 'c04_dupid'", [=](IrModel &f) {
                    a.ref(f) = "c04_dupid";
                    b.ref(f) = "c04_dupid";
                }));
            }
        }
        // mapping id when variable-name + component-name of both ends concatenate to the same string
        for (size_t cni = 0; cni < m.conns.size(); ++cni) {
            const auto &cn = m.conns[cni];
            if (m.comps[static_cast<size_t>(cn.c1)].import >= 0 || m.comps[static_cast<size_t>(cn.c2)].import >= 0 || cn.maps.empty()) {
                continue;
            }
            int c1 = cn.c1;
            int c2 = cn.c2;
            std::string v1 = cn.maps[0].v1;
            std::string v2 = cn.maps[0].v2;
            out.push_back(irLoc("component+map_variables/name-concatenation-collision", "variables/components of one map renamed to c04_ab@c_c04 and c04_a@bc_c04; id of the map and of component c_c04 := 'c04_dupid'", [=](IrModel &f) {
                renameVar(f, c1, v1, "c04_ab");
                renameVar(f, c2, v2, "c04_a");
                f.comps[static_cast<size_t>(c1)].name = "c_c04";
                f.comps[static_cast<size_t>(c2)].name = "bc_c04";
                f.conns[cni].maps[0].id = "c04_dupid";
                f.comps[static_cast<size_t>(c1)].id = "c04_dupid";
            }));
            out.back().must = true;
            break;
        }
        // an id on a MathML element equal to the id of another item
        auto sites = collectSites(m);
        for (int rep = 0; rep < 3 && !sites.empty(); ++rep) {
            auto s = sites[rng.below(sites.size())];
            auto a = slots[rng.below(slots.size())];
            std::string v = m.comps[static_cast<size_t>(s.comp)].vars[0].name;
            Loc l = irLoc(a.kind + "+mathml-element/" + siteClass(m, s), "id of " + a.kind + " and of a ci element := 'c04_dupid'", [=](IrModel &f) {
                a.ref(f) = "c04_dupid";
                *siteNode(f, s) = mkCi(kMarker);
            });
            l.rawXml = "<ci id=\"c04_dupid\">" + v + "</ci>";
            out.push_back(l);
        }
        return out;
    }, [](GenOptions &g) { g.resets = true; g.mathProbability = 0.3; g.imports = true; g.maxComponents = 5; });
    add(cat, "id-syntax", {Rule::XML_ID_ATTRIBUTE}, [](const IrModel &m, Rng &rng) {
        std::vector<Loc> out;
        static const std::vector<std::string> bad = {"1id", "a b", "-x", ".x", "9", "a\tb", "<id>", "x y z"};
        for (auto &s : idSlots(m)) {
            std::string b = rng.pick(bad);
            auto slot = s;
            out.push_back(irLoc(s.kind, "id of " + s.kind + " := '" + b + "'", [=](IrModel &f) { slot.ref(f) = b; }));
            if (s.kind.rfind("connection", 0) == 0) {
                // every connection of the base model: which end of which variable pair the validator records the id
                // from depends on names and visiting order in ways the location class only approximates
                out.back().must = true;
            }
        }
        return out;
    }, [](GenOptions &g) { g.resets = true; g.mathProbability = 0.3; g.imports = true; g.maxComponents = 5; });
    // reset orders: unique within the connected variable set of the reset variable
    add(cat, "dup:reset-order", {Rule::RESET_ORDER_UNIQUE}, [](const IrModel &m, Rng &rng) {
        std::vector<Loc> out;
        auto adj = adjacency(m);
        for (size_t ci = 0; ci < m.comps.size(); ++ci) {
            for (size_t ri = 0; ri < m.comps[ci].resets.size(); ++ri) {
                const auto &r = m.comps[ci].resets[ri];
                if (!r.hasOrder) {
                    continue;
                }
                VarKey start {static_cast<int>(ci), r.var};
                std::map<VarKey, int> dist;
                std::vector<VarKey> queue = {start};
                dist[start] = 0;
                for (size_t q = 0; q < queue.size(); ++q) {
                    for (const auto &n : adj[queue[q]]) {
                        if (dist.count(n) == 0) {
                            dist[n] = dist[queue[q]] + 1;
                            queue.push_back(n);
                        }
                    }
                }
                for (const auto &kv : dist) {
                    int tc = kv.first.first;
                    std::string tv = kv.first.second;
                    if (m.comps[static_cast<size_t>(tc)].import >= 0) {
                        continue;
                    }
                    std::string rel = kv.second == 0 ? "same-variable" : (kv.second == 1 ? "direct-equivalent" : "transitive-equivalent");
                    if (kv.second != 0) {
                        // how many variables of this connected set carry resets once the new reset is added
                        std::set<VarKey> carriers = {kv.first};
                        for (const auto &member : dist) {
                            for (const auto &rr : m.comps[static_cast<size_t>(member.first.first)].resets) {
                                if (rr.var == member.first.second) {
                                    carriers.insert(member.first);
                                }
                            }
                        }
                        rel += carriers.size() <= 2 ? "/set-with-2-reset-variables" : "/set-with-3+-reset-variables";
                    }
                    bool first = rng.chance(0.5);
                    int order = r.order;
                    // does any component above the one that gets the reset carry resets itself?  (a traversal that
                    // prunes reset-less subtrees is only visible below a reset-less ancestor)
                    std::string above;
                    if (m.comps[static_cast<size_t>(tc)].parent >= 0) {
                        bool all = true;
                        for (int a = m.comps[static_cast<size_t>(tc)].parent; a >= 0; a = m.comps[static_cast<size_t>(a)].parent) {
                            all = all && !m.comps[static_cast<size_t>(a)].resets.empty();
                        }
                        above = all ? "/below-components-with-resets" : "/below-a-component-without-resets";
                    }
                    out.push_back(irLoc(rel + "/" + compClass(m, tc) + above + (first ? "/first" : "/last"),
                                        "new reset on variable '" + tv + "' of component #" + std::to_string(tc) + " with the order " + std::to_string(order) + " of reset " + std::to_string(ri) + " of component #" + std::to_string(ci) + " (" + rel + ", distance " + std::to_string(kv.second) + ")",
                                        [=](IrModel &f) {
                                            auto &rs = f.comps[static_cast<size_t>(tc)].resets;
                                            rs.insert(first ? rs.begin() : rs.end(), mkReset(tv, order));
                                        }));
                    out.back().must = kv.second >= 2;
                    if (above == "/below-components-with-resets") {
                        // the same fault with the resets of every component above removed (valid as before): the
                        // duplicate now sits below components that have no resets of their own
                        out.push_back(irLoc(rel + "/" + compClass(m, tc) + "/below-a-component-without-resets" + (first ? "/first" : "/last"),
                                            "new reset on variable '" + tv + "' of component #" + std::to_string(tc) + " with the order " + std::to_string(order) + " of reset " + std::to_string(ri) + " of component #" + std::to_string(ci) + " (" + rel + "), resets of all components above removed",
                                            [=](IrModel &f) {
                                                auto &rs = f.comps[static_cast<size_t>(tc)].resets;
                                                rs.insert(first ? rs.begin() : rs.end(), mkReset(tv, order));
                                                for (int a = f.comps[static_cast<size_t>(tc)].parent; a >= 0; a = f.comps[static_cast<size_t>(a)].parent) {
                                                    if (a != static_cast<int>(ci)) {
                                                        f.comps[static_cast<size_t>(a)].resets.clear();
                                                    }
                                                }
                                            }));
                        out.back().must = true;
                    }
                }
            }
        }
        return out; }, [](GenOptions &g) { g.resets = true; g.connections = true; g.maxComponents = 7; });
}

void addReferenceFaults(std::vector<Fault> &cat)
{
    add(cat, "ref:variable-units-missing", {Rule::VARIABLE_UNITS_VALUE}, [](const IrModel &m, Rng &) {
        std::vector<Loc> out;
        for (int ci : plainComps(m)) {
            const auto &c = m.comps[static_cast<size_t>(ci)];
            for (size_t vi = 0; vi < c.vars.size(); ++vi) {
                bool conn = !requiredInterface(m, ci, c.vars[vi].name).empty();
                out.push_back(irLoc(compClass(m, ci) + "/" + posClass(vi, c.vars.size()) + (conn ? "/connected" : "/free"), "variable '" + c.vars[vi].name + "' units := 'c04_no_such_units'",
                                    [=](IrModel &f) { f.comps[static_cast<size_t>(ci)].vars[vi].units = "c04_no_such_units"; }));
            }
        }
        return out;
    });
    add(cat, "ref:unit-units-missing", {Rule::UNIT_UNITS_REFERENCE}, [](const IrModel &m, Rng &) {
        std::vector<Loc> out;
        for (size_t ui = 0; ui < m.units.size(); ++ui) {
            if (m.units[ui].import >= 0) {
                continue;
            }
            for (size_t k = 0; k < m.units[ui].units.size(); ++k) {
                out.push_back(irLoc("units-" + posClass(ui, m.units.size()) + "/child-" + posClass(k, m.units[ui].units.size()), "unit child " + std::to_string(k) + " of units #" + std::to_string(ui) + " units := 'c04_no_such_units'",
                                    [=](IrModel &f) { f.units[ui].units[k].ref = "c04_no_such_units"; }));
            }
            out.push_back(irLoc("units-" + posClass(ui, m.units.size()) + "/new-child", "new unit child of units #" + std::to_string(ui) + " referencing 'c04_no_such_units'", [=](IrModel &f) {
                IrUnit c;
                c.ref = "c04_no_such_units";
                f.units[ui].units.push_back(c);
            }));
        }
        return out; }, wantUnits);
    add(cat, "iface:illegal-value", {Rule::VARIABLE_INTERFACE_VALUE}, [](const IrModel &m, Rng &rng) {
        std::vector<Loc> out;
        static const std::vector<std::string> bad = {"bogus", "Public", "public_or_private", "in", "out", "PUBLIC", "public ", "private_and_public", "yes"};
        for (int ci : plainComps(m)) {
            const auto &c = m.comps[static_cast<size_t>(ci)];
            for (size_t vi = 0; vi < c.vars.size(); ++vi) {
                std::string b = rng.pick(bad);
                bool conn = !requiredInterface(m, ci, c.vars[vi].name).empty();
                out.push_back(irLoc(compClass(m, ci) + "/" + posClass(vi, c.vars.size()) + (conn ? "/connected" : "/free"), "variable '" + c.vars[vi].name + "' interface := '" + b + "'",
                                    [=](IrModel &f) { f.comps[static_cast<size_t>(ci)].vars[vi].iface = b; }));
            }
        }
        return out;
    });
    add(cat, "init:illegal-value", {Rule::VARIABLE_INITIAL_VALUE_VALUE}, [](const IrModel &m, Rng &rng) {
        std::vector<Loc> out;
        static const std::vector<std::string> bad = {"c04_not_a_variable", "1.0.0", "1e", "0x10", "1,5", "one", "1e2e3", "--1", "1e1.5", "+1", "1 2", "e5", "NaN", "inf"};
        for (int ci : plainComps(m)) {
            const auto &c = m.comps[static_cast<size_t>(ci)];
            // name of a variable that exists only in another component
            std::string foreign;
            for (int cj : plainComps(m)) {
                for (const auto &v : m.comps[static_cast<size_t>(cj)].vars) {
                    bool here = false;
                    for (const auto &w : c.vars) {
                        here = here || w.name == v.name;
                    }
                    if (cj != ci && !here) {
                        foreign = v.name;
                    }
                }
            }
            for (size_t vi = 0; vi < c.vars.size(); ++vi) {
                bool useForeign = !foreign.empty() && rng.chance(0.3);
                std::string b = useForeign ? foreign : rng.pick(bad);
                out.push_back(irLoc(std::string(useForeign ? "variable-of-other-component/" : "not-a-real/") + compClass(m, ci) + "/" + posClass(vi, c.vars.size()) + (c.vars[vi].init.empty() ? "/was-unset" : "/was-set"),
                                    "variable '" + c.vars[vi].name + "' initial_value := '" + b + "'", [=](IrModel &f) { f.comps[static_cast<size_t>(ci)].vars[vi].init = b; }));
            }
        }
        return out;
    });
    // strings that are not CellML real numbers but consist only of sign / point characters
    add(cat, "init:degenerate-real", {Rule::VARIABLE_INITIAL_VALUE_VALUE}, [](const IrModel &m, Rng &rng) {
        std::vector<Loc> out;
        static const std::vector<std::string> bad = {"-", ".", "-."};
        for (int ci : plainComps(m)) {
            const auto &c = m.comps[static_cast<size_t>(ci)];
            for (size_t vi = 0; vi < c.vars.size(); ++vi) {
                std::string b = rng.pick(bad);
                out.push_back(irLoc("text=" + b, "variable '" + c.vars[vi].name + "' initial_value := '" + b + "'", [=](IrModel &f) { f.comps[static_cast<size_t>(ci)].vars[vi].init = b; }));
            }
        }
        return out;
    });
    add(cat, "units:name-is-standard-unit", {Rule::UNITS_STANDARD}, [](const IrModel &m, Rng &rng) {
        std::vector<Loc> out;
        auto refd = referencedUnits(m);
        std::vector<std::string> free;
        for (const auto &s : kStandardUnits) {
            if (refd.count(s) == 0) {
                free.push_back(s);
            }
        }
        if (free.empty()) {
            return out;
        }
        for (int first = 0; first < 2; ++first) {
            for (int derived = 0; derived < 2; ++derived) {
                std::string name = rng.pick(free);
                out.push_back(irLoc(std::string(first ? "first" : "last") + (derived ? "/derived" : "/base"), "new units named '" + name + "'", [=](IrModel &f) {
                    IrUnits u;
                    u.name = name;
                    if (derived) {
                        IrUnit c;
                        c.ref = name == "metre" ? "second" : "metre";
                        u.units.push_back(c);
                    }
                    f.units.insert(first ? f.units.begin() : f.units.end(), u);
                }));
            }
        }
        return out;
    });
    add(cat, "unit:prefix-invalid", {Rule::UNIT_ATTRIBUTE_PREFIX_VALUE}, [](const IrModel &m, Rng &rng) {
        std::vector<Loc> out;
        static const std::vector<std::string> bad = {"bogus", "1.5", "kilo ", "Kilo", "1e3", "99999999999999999999", "-", "+", "3k", "0x3"};
        for (size_t ui = 0; ui < m.units.size(); ++ui) {
            if (m.units[ui].import >= 0) {
                continue;
            }
            for (size_t k = 0; k < m.units[ui].units.size(); ++k) {
                std::string b = rng.pick(bad);
                bool big = b.size() > 12;
                out.push_back(irLoc(std::string(big ? "out-of-range/" : "not-a-prefix/") + "units-" + posClass(ui, m.units.size()) + "/child-" + posClass(k, m.units[ui].units.size()),
                                    "unit child " + std::to_string(k) + " of units #" + std::to_string(ui) + " prefix := '" + b + "'", [=](IrModel &f) { f.units[ui].units[k].prefix = b; }));
            }
        }
        return out; }, wantUnits);
}

bool isAncestor(const IrModel &m, int anc, int c)
{
    for (int p = m.comps[static_cast<size_t>(c)].parent; p >= 0; p = m.comps[static_cast<size_t>(p)].parent) {
        if (p == anc) {
            return true;
        }
    }
    return false;
}

// units names that are used by a connected variable, or reachable from such units through unit children
std::set<std::string> hotUnits(const IrModel &m)
{
    std::set<std::string> hot;
    std::vector<std::string> work;
    for (const auto &cn : m.conns) {
        for (const auto &mp : cn.maps) {
            for (int side = 0; side < 2; ++side) {
                int c = side == 0 ? cn.c1 : cn.c2;
                const std::string &vn = side == 0 ? mp.v1 : mp.v2;
                for (const auto &v : m.comps[static_cast<size_t>(c)].vars) {
                    if (v.name == vn && !v.units.empty() && hot.insert(v.units).second) {
                        work.push_back(v.units);
                    }
                }
            }
        }
    }
    while (!work.empty()) {
        std::string n = work.back();
        work.pop_back();
        int ui = m.findUnits(n);
        if (ui < 0) {
            continue;
        }
        for (const auto &k : m.units[static_cast<size_t>(ui)].units) {
            if (hot.insert(k.ref).second) {
                work.push_back(k.ref);
            }
        }
    }
    return hot;
}

IrUnits chainUnits(const std::string &name, const std::string &ref, bool extraChild)
{
    IrUnits u;
    u.name = name;
    IrUnit c;
    c.ref = ref;
    u.units.push_back(c);
    if (extraChild) {
        IrUnit d;
        d.ref = "second";
        d.hasExp = true;
        d.exp = "-1";
        u.units.insert(u.units.begin(), d);
    }
    return u;
}

void addEquivalenceFaults(std::vector<Fault> &cat)
{
    add(cat, "equiv:unreachable-components", {Rule::MAP_VARIABLES_ELEMENT}, [](const IrModel &m, Rng &rng) {
        std::vector<Loc> out;
        auto plain = plainComps(m);
        for (int a : plain) {
            for (int b : plain) {
                if (a >= b || reachable(m, a, b)) {
                    continue;
                }
                bool already = false;
                for (const auto &cn : m.conns) {
                    already = already || (cn.c1 == a && cn.c2 == b) || (cn.c1 == b && cn.c2 == a);
                }
                if (already) {
                    continue;
                }
                std::string rel = isAncestor(m, a, b) || isAncestor(m, b, a) ? "ancestor-descendant" : "unrelated";
                rel += "/" + compClass(m, a) + "~" + compClass(m, b);
                std::string iface = rng.pick(std::vector<std::string> {"public", "private", "public_and_private", ""});
                out.push_back(irLoc("fresh-variables/" + rel, "new variables c04_ua / c04_ub in components #" + std::to_string(a) + " and #" + std::to_string(b) + " (not siblings, not parent/child) mapped to each other", [=](IrModel &f) {
                    f.comps[static_cast<size_t>(a)].vars.push_back(mkVar("c04_ua", "dimensionless", iface));
                    f.comps[static_cast<size_t>(b)].vars.push_back(mkVar("c04_ub", "dimensionless", iface));
                    IrConnection cn;
                    cn.c1 = a;
                    cn.c2 = b;
                    IrMap mp;
                    mp.v1 = "c04_ua";
                    mp.v2 = "c04_ub";
                    cn.maps.push_back(mp);
                    f.conns.push_back(cn);
                }));
                // fresh variables that already need public_and_private through valid maps listed BEFORE the unreachable one
                out.push_back(irLoc("fresh-variables-needing-public_and_private/" + rel, "new variables in components #" + std::to_string(a) + " and #" + std::to_string(b) + ", each first mapped to a new child and to its parent / a sibling, then to each other", [=](IrModel &f) {
                    auto connect = [&](int c1, const std::string &v1, int c2, const std::string &v2) {
                        IrConnection cn;
                        cn.c1 = c1;
                        cn.c2 = c2;
                        IrMap mp;
                        mp.v1 = v1;
                        mp.v2 = v2;
                        cn.maps.push_back(mp);
                        f.conns.push_back(cn);
                    };
                    auto sides = [&](int c, const std::string &vn, const std::string &tag) {
                        f.comps[static_cast<size_t>(c)].vars.push_back(mkVar(vn, "dimensionless", "public_and_private"));
                        IrComponent k;
                        k.name = "c04_child_" + tag;
                        k.parent = c;
                        k.vars.push_back(mkVar("kv", "dimensionless", "public"));
                        int ki = insertComp(f, f.comps.size(), k, false);
                        connect(c, vn, ki, "kv");
                        int p = f.comps[static_cast<size_t>(c)].parent;
                        if (p >= 0 && f.comps[static_cast<size_t>(p)].import < 0) {
                            f.comps[static_cast<size_t>(p)].vars.push_back(mkVar("c04_pv_" + tag, "dimensionless", "private"));
                            connect(p, "c04_pv_" + tag, c, vn);
                        } else {
                            IrComponent sb;
                            sb.name = "c04_sibling_" + tag;
                            sb.parent = p;
                            sb.vars.push_back(mkVar("sv", "dimensionless", "public"));
                            int si = insertComp(f, f.comps.size(), sb, false);
                            connect(si, "sv", c, vn);
                        }
                    };
                    sides(a, "c04_ua", "a");
                    sides(b, "c04_ub", "b");
                    connect(a, "c04_ua", b, "c04_ub");
                }));
                out.back().must = true;
                // existing variables with literally the same units
                for (const auto &va : m.comps[static_cast<size_t>(a)].vars) {
                    bool done = false;
                    for (const auto &vb : m.comps[static_cast<size_t>(b)].vars) {
                        if (!done && !va.units.empty() && va.units == vb.units) {
                            bool ca = !requiredInterface(m, a, va.name).empty();
                            bool cb = !requiredInterface(m, b, vb.name).empty();
                            std::string n1 = va.name;
                            std::string n2 = vb.name;
                            out.push_back(irLoc(std::string("existing-variables/") + (ca && cb ? "both-connected/" : (ca || cb ? "one-connected/" : "free/")) + rel,
                                                "existing variables '" + n1 + "' (component #" + std::to_string(a) + ") and '" + n2 + "' (component #" + std::to_string(b) + ") mapped to each other", [=](IrModel &f) {
                                                    IrConnection cn;
                                                    cn.c1 = a;
                                                    cn.c2 = b;
                                                    IrMap mp;
                                                    mp.v1 = n1;
                                                    mp.v2 = n2;
                                                    cn.maps.push_back(mp);
                                                    f.conns.push_back(cn);
                                                }));
                            done = true;
                        }
                    }
                }
            }
        }
        return out; }, [](GenOptions &g) { g.encapsulation = true; g.maxComponents = 7; });

    // an equivalent variable that belongs to no component (API only)
    add(cat, "equiv:variable-without-component", {Rule::MAP_VARIABLES_VARIABLE1_ATTRIBUTE, Rule::MAP_VARIABLES_VARIABLE1_ATTRIBUTE_REFERENCE, Rule::MAP_VARIABLES_VARIABLE2_ATTRIBUTE, Rule::MAP_VARIABLES_VARIABLE2_ATTRIBUTE_REFERENCE}, [](const IrModel &m, Rng &) {
        std::vector<Loc> out;
        for (int ci : plainComps(m)) {
            const auto &c = m.comps[static_cast<size_t>(ci)];
            for (size_t vi = 0; vi < c.vars.size(); ++vi) {
                bool conn = !requiredInterface(m, ci, c.vars[vi].name).empty();
                std::string cname = c.name;
                std::string vname = c.vars[vi].name;
                std::string units = c.vars[vi].units;
                Loc l;
                l.cls = compClass(m, ci) + "/" + posClass(vi, c.vars.size()) + (conn ? "/connected" : "/free");
                l.what = "variable '" + vname + "' of component '" + cname + "' made equivalent to a variable that has no parent component (API)";
                l.text = false;
                l.api = [=](const ModelPtr &model) {
                    for (const auto &comp : allComponents(model)) {
                        if (comp->name() == cname && !comp->isImport() && comp->variable(vname) != nullptr) {
                            auto orphan = Variable::create("c04_orphan");
                            orphan->setUnits(units);
                            keepAlive().push_back(orphan);
                            Variable::addEquivalence(comp->variable(vname), orphan);
                        }
                    }
                };
                out.push_back(l);
            }
        }
        return out;
    });

    add(cat, "equiv:units-incompatible", {Rule::MAP_VARIABLES_ELEMENT}, [](const IrModel &m, Rng &rng) {
        std::vector<Loc> out;
        for (size_t cni = 0; cni < m.conns.size(); ++cni) {
            const auto &cn = m.conns[cni];
            if (m.comps[static_cast<size_t>(cn.c1)].import >= 0 || m.comps[static_cast<size_t>(cn.c2)].import >= 0) {
                continue;
            }
            for (size_t mi = 0; mi < cn.maps.size(); ++mi) {
                for (int side = 0; side < 2; ++side) {
                    int c = side == 0 ? cn.c1 : cn.c2;
                    int oc = side == 0 ? cn.c2 : cn.c1;
                    std::string vn = side == 0 ? cn.maps[mi].v1 : cn.maps[mi].v2;
                    std::string on = side == 0 ? cn.maps[mi].v2 : cn.maps[mi].v1;
                    std::string vu;
                    std::string ou;
                    for (const auto &v : m.comps[static_cast<size_t>(c)].vars) {
                        vu = v.name == vn ? v.units : vu;
                    }
                    for (const auto &v : m.comps[static_cast<size_t>(oc)].vars) {
                        ou = v.name == on ? v.units : ou;
                    }
                    Dim dv;
                    Dim dother;
                    if (!reduceDim(m, vu, 1.0, dv) || !reduceDim(m, ou, 1.0, dother)) {
                        continue; // imported units somewhere: dimension unknown
                    }
                    // every variable equivalent to (c, vn) must have a known dimension too
                    std::string where = compClass(m, c) + "~" + compClass(m, oc);
                    auto setUnits = [=](IrModel &f, const std::string &u) {
                        for (auto &v : f.comps[static_cast<size_t>(c)].vars) {
                            if (v.name == vn) {
                                v.units = u;
                            }
                        }
                    };
                    out.push_back(irLoc("user-base-units/" + where, "variable '" + vn + "' of component #" + std::to_string(c) + " gets new base units c04_newbase; its equivalent '" + on + "' keeps '" + ou + "'", [=](IrModel &f) {
                        IrUnits u;
                        u.name = "c04_newbase";
                        f.units.push_back(u);
                        setUnits(f, "c04_newbase");
                    }));
                    std::vector<std::string> cands;
                    for (const auto &s : kStandardUnits) {
                        Dim ds;
                        reduceDim(m, s, 1.0, ds);
                        if (!sameDim(ds, dother) && m.findUnits(s) < 0) {
                            cands.push_back(s);
                        }
                    }
                    if (!cands.empty()) {
                        std::string s = rng.pick(cands);
                        out.push_back(irLoc("standard-units/" + where, "variable '" + vn + "' of component #" + std::to_string(c) + " units := '" + s + "'; its equivalent '" + on + "' keeps '" + ou + "'",
                                            [=](IrModel &f) { setUnits(f, s); }));
                    }
                    Dim zero;
                    if (!sameDim(dother, zero)) {
                        out.push_back(irLoc("squared-units/" + where, "variable '" + vn + "' of component #" + std::to_string(c) + " gets units (" + ou + ")^2; its equivalent '" + on + "' keeps '" + ou + "'", [=](IrModel &f) {
                            IrUnits u;
                            u.name = "c04_squared";
                            IrUnit k;
                            k.ref = ou;
                            k.hasExp = true;
                            k.exp = "2";
                            u.units.push_back(k);
                            f.units.push_back(u);
                            setUnits(f, "c04_squared");
                        }));
                        out.push_back(irLoc("dimensionless/" + where, "variable '" + vn + "' of component #" + std::to_string(c) + " units := 'dimensionless'; its equivalent '" + on + "' keeps '" + ou + "'",
                                            [=](IrModel &f) { setUnits(f, "dimensionless"); }));
                    }
                }
            }
        }
        return out; }, wantConns);

    add(cat, "iface:insufficient-for-connection", {Rule::MAP_VARIABLES_ELEMENT, Rule::VARIABLE_INTERFACE_VALUE}, [](const IrModel &m, Rng &) {
        std::vector<Loc> out;
        for (int ci : plainComps(m)) {
            const auto &c = m.comps[static_cast<size_t>(ci)];
            for (size_t vi = 0; vi < c.vars.size(); ++vi) {
                std::string req = requiredInterface(m, ci, c.vars[vi].name);
                if (req.empty()) {
                    continue;
                }
                std::vector<std::string> repl = {"", "none"};
                if (req == "public") {
                    repl.push_back("private");
                } else if (req == "private") {
                    repl.push_back("public");
                } else {
                    repl.push_back("public");
                    repl.push_back("private");
                }
                for (const auto &r : repl) {
                    out.push_back(irLoc("needs-" + req + "/has-" + (r.empty() ? "unset" : r) + "/" + compClass(m, ci), "variable '" + c.vars[vi].name + "' of component #" + std::to_string(ci) + " needs '" + req + "', interface := '" + r + "'",
                                        [=](IrModel &f) { f.comps[static_cast<size_t>(ci)].vars[vi].iface = r; }));
                }
            }
        }
        return out; }, wantConns);

    // cyclic units, cycle length 1..3, never reachable from the units of a connected variable (see units-cycle-connected)
    for (int len = 1; len <= 3; ++len) {
        add(cat, "units:cycle:" + std::to_string(len), {Rule::UNIT_UNITS_CIRCULAR_REFERENCE}, [len](const IrModel &m, Rng &rng) {
            std::vector<Loc> out;
            for (int entry = 0; entry < 2; ++entry) {
                for (int first = 0; first < 2; ++first) {
                    bool extra = rng.chance(0.5);
                    out.push_back(irLoc(std::string("fresh") + (entry ? "-with-entry" : "") + (first ? "/first" : "/last"), "new units c04_cyc0.. forming a cycle of length " + std::to_string(len) + (entry ? " entered from new units c04_entry" : ""), [=](IrModel &f) {
                        std::vector<IrUnits> us;
                        if (entry) {
                            us.push_back(chainUnits("c04_entry", "c04_cyc0", false));
                        }
                        for (int i = 0; i < len; ++i) {
                            us.push_back(chainUnits("c04_cyc" + std::to_string(i), "c04_cyc" + std::to_string((i + 1) % len), extra && i == 0));
                        }
                        f.units.insert(first ? f.units.begin() : f.units.end(), us.begin(), us.end());
                    }));
                }
            }
            auto hot = hotUnits(m);
            std::set<std::string> usedByVar;
            for (const auto &c : m.comps) {
                for (const auto &v : c.vars) {
                    usedByVar.insert(v.units);
                }
            }
            for (size_t ui = 0; ui < m.units.size(); ++ui) {
                const auto &u = m.units[ui];
                if (u.import >= 0 || hot.count(u.name) != 0) {
                    continue;
                }
                std::string name = u.name;
                out.push_back(irLoc(std::string("through-existing-") + (u.units.empty() ? "base" : "derived") + (usedByVar.count(name) ? "-used-by-variable" : "-unused") + "/" + posClass(ui, m.units.size()),
                                    "existing units '" + name + "' made part of a cycle of length " + std::to_string(len), [=](IrModel &f) {
                                        IrUnit c;
                                        c.ref = len == 1 ? name : "c04_cyc1";
                                        f.units[ui].units.push_back(c);
                                        for (int i = 1; i < len; ++i) {
                                            f.units.push_back(chainUnits("c04_cyc" + std::to_string(i), i + 1 == len ? name : "c04_cyc" + std::to_string(i + 1), false));
                                        }
                                    }));
            }
            return out; }, wantUnits);
    }
}

void addResetFaults(std::vector<Fault> &cat)
{
    auto eachReset = [](const IrModel &m, const std::function<void(std::vector<Loc> &, int, size_t, const std::string &)> &fn) {
        std::vector<Loc> out;
        for (int ci : plainComps(m)) {
            const auto &c = m.comps[static_cast<size_t>(ci)];
            for (size_t ri = 0; ri < c.resets.size(); ++ri) {
                fn(out, ci, ri, compClass(m, ci) + "/reset-" + posClass(ri, c.resets.size()));
            }
        }
        return out;
    };
    auto resetAt = [](const ModelPtr &model, const IrModel &m, int ci, size_t ri) -> ResetPtr {
        for (const auto &c : allComponents(model)) {
            if (c->name() == m.comps[static_cast<size_t>(ci)].name && !c->isImport()) {
                return c->reset(ri);
            }
        }
        return nullptr;
    };
    add(cat, "reset:no-order", {Rule::RESET_ORDER_VALUE, Rule::RESET_ATTRIBUTE_REQUIRED}, [=](const IrModel &m, Rng &) {
        return eachReset(m, [](std::vector<Loc> &out, int ci, size_t ri, const std::string &cls) {
            out.push_back(irLoc(cls, "reset " + std::to_string(ri) + " of component #" + std::to_string(ci) + ": order removed", [=](IrModel &f) { f.comps[static_cast<size_t>(ci)].resets[ri].hasOrder = false; }));
        }); }, wantResets);
    add(cat, "reset:no-variable", {Rule::RESET_VARIABLE_REFERENCE, Rule::RESET_ATTRIBUTE_REQUIRED}, [=](const IrModel &m, Rng &rng) {
        return eachReset(m, [&](std::vector<Loc> &out, int ci, size_t ri, const std::string &cls) {
            std::string nv = rng.chance(0.5) ? "" : "c04_no_such_variable";
            out.push_back(irLoc(cls + (nv.empty() ? "/unset" : "/dangling-name"), "reset " + std::to_string(ri) + " of component #" + std::to_string(ci) + ": variable := '" + nv + "'", [=](IrModel &f) { f.comps[static_cast<size_t>(ci)].resets[ri].var = nv; }));
        }); }, wantResets);
    add(cat, "reset:no-test-variable", {Rule::RESET_TEST_VARIABLE_REFERENCE, Rule::RESET_ATTRIBUTE_REQUIRED}, [=](const IrModel &m, Rng &rng) {
        return eachReset(m, [&](std::vector<Loc> &out, int ci, size_t ri, const std::string &cls) {
            std::string nv = rng.chance(0.5) ? "" : "c04_no_such_variable";
            out.push_back(irLoc(cls + (nv.empty() ? "/unset" : "/dangling-name"), "reset " + std::to_string(ri) + " of component #" + std::to_string(ci) + ": test_variable := '" + nv + "'", [=](IrModel &f) { f.comps[static_cast<size_t>(ci)].resets[ri].testVar = nv; }));
        }); }, wantResets);
    // variable / test_variable living in another component: only expressible through the API
    for (int which = 0; which < 2; ++which) {
        add(cat, which == 0 ? "reset:variable-in-other-component" : "reset:test-variable-in-other-component", {which == 0 ? Rule::RESET_VARIABLE_REFERENCE : Rule::RESET_TEST_VARIABLE_REFERENCE}, [=](const IrModel &m, Rng &rng) {
            IrModel mm = m;
            return eachReset(m, [&](std::vector<Loc> &out, int ci, size_t ri, const std::string &cls) {
                std::vector<int> others;
                for (int cj : plainComps(mm)) {
                    if (cj != ci && !mm.comps[static_cast<size_t>(cj)].vars.empty()) {
                        others.push_back(cj);
                    }
                }
                if (others.empty()) {
                    return;
                }
                int cj = rng.pick(others);
                std::string oc = mm.comps[static_cast<size_t>(cj)].name;
                std::string ov = mm.comps[static_cast<size_t>(cj)].vars[0].name;
                Loc l;
                l.cls = cls + "/other-" + compClass(mm, cj) + (reachable(mm, ci, cj) ? "-reachable" : "-unreachable");
                l.what = "reset " + std::to_string(ri) + " of component #" + std::to_string(ci) + (which == 0 ? ": variable" : ": test_variable") + " := variable '" + ov + "' of component '" + oc + "' (API)";
                l.text = false;
                l.api = [=](const ModelPtr &model) {
                    auto r = resetAt(model, mm, ci, ri);
                    VariablePtr v;
                    for (const auto &c : allComponents(model)) {
                        if (c->name() == oc) {
                            v = c->variable(ov);
                        }
                    }
                    if (r != nullptr && v != nullptr) {
                        if (which == 0) {
                            r->setVariable(v);
                        } else {
                            r->setTestVariable(v);
                        }
                    }
                };
                out.push_back(l);
            }); }, [](GenOptions &g) { g.resets = true; g.maxComponents = 7; });
    }
    for (int which = 0; which < 2; ++which) {
        add(cat, which == 0 ? "reset:no-test-value" : "reset:no-reset-value",
            which == 0 ? std::vector<Rule> {Rule::TEST_VALUE_ELEMENT, Rule::RESET_CHILD, Rule::RESET_TEST_VALUE_CHILD, Rule::TEST_VALUE_CHILD} : std::vector<Rule> {Rule::RESET_VALUE_ELEMENT, Rule::RESET_CHILD, Rule::RESET_RESET_VALUE_CHILD, Rule::RESET_VALUE_CHILD},
            [=](const IrModel &m, Rng &rng) {
                IrModel mm = m;
                return eachReset(m, [&](std::vector<Loc> &out, int ci, size_t ri, const std::string &cls) {
                    std::string v = rng.pick(std::vector<std::string> {"", "   ", "\n\t "});
                    Loc l;
                    l.cls = cls + (v.empty() ? "/empty" : "/whitespace");
                    l.what = "reset " + std::to_string(ri) + " of component #" + std::to_string(ci) + (which == 0 ? ": test_value" : ": reset_value") + " math := " + (v.empty() ? "empty string" : "white space") + " (API)";
                    l.text = false;
                    l.api = [=](const ModelPtr &model) {
                        auto r = resetAt(model, mm, ci, ri);
                        if (r != nullptr) {
                            if (which == 0) {
                                r->setTestValue(v);
                            } else {
                                r->setResetValue(v);
                            }
                        }
                    };
                    out.push_back(l);
                }); }, wantResets);
    }
    // two math children in test_value / reset_value: the parser reports it; the validator has no such rule -> probe only
    for (int which = 0; which < 2; ++which) {
        add(cat, which == 0 ? "reset:two-math-in-test-value" : "reset:two-math-in-reset-value",
            which == 0 ? std::vector<Rule> {Rule::TEST_VALUE_CHILD, Rule::RESET_TEST_VALUE_CHILD, Rule::TEST_VALUE_ELEMENT} : std::vector<Rule> {Rule::RESET_VALUE_CHILD, Rule::RESET_RESET_VALUE_CHILD, Rule::RESET_VALUE_ELEMENT},
            [=](const IrModel &m, Rng &) {
                IrModel mm = m;
                return eachReset(m, [&](std::vector<Loc> &out, int ci, size_t ri, const std::string &cls) {
                    Loc l;
                    l.cls = cls;
                    l.what = "reset " + std::to_string(ri) + " of component #" + std::to_string(ci) + (which == 0 ? ": test_value" : ": reset_value") + " holds two math elements (API)";
                    l.text = false;
                    l.api = [=](const ModelPtr &model) {
                        auto r = resetAt(model, mm, ci, ri);
                        if (r != nullptr) {
                            if (which == 0) {
                                r->setTestValue(r->testValue() + r->testValue());
                            } else {
                                r->setResetValue(r->resetValue() + r->resetValue());
                            }
                        }
                    };
                    out.push_back(l);
                }); }, wantResets);
        cat.back().probe = true;
    }
}

void addImportFaults(std::vector<Fault> &cat)
{
    auto eachImport = [](const IrModel &m, const std::function<void(std::vector<Loc> &, size_t, const std::string &)> &fn) {
        std::vector<Loc> out;
        for (size_t ii = 0; ii < m.imports.size(); ++ii) {
            int nu = 0;
            int nc = 0;
            for (const auto &u : m.units) {
                nu += u.import == static_cast<int>(ii) ? 1 : 0;
            }
            for (const auto &c : m.comps) {
                nc += c.import == static_cast<int>(ii) ? 1 : 0;
            }
            if (nu + nc == 0) {
                continue;
            }
            fn(out, ii, std::string(nu > 0 ? "units" : "") + (nu > 0 && nc > 0 ? "+" : "") + (nc > 0 ? "component" : "") + (nu + nc > 1 ? "/shared" : "/single"));
        }
        return out;
    };
    add(cat, "import:href-empty", {Rule::IMPORT_HREF_LOCATOR, Rule::IMPORT_HREF}, [=](const IrModel &m, Rng &) {
        return eachImport(m, [](std::vector<Loc> &out, size_t ii, const std::string &cls) {
            out.push_back(irLoc(cls, "import #" + std::to_string(ii) + " href := ''", [=](IrModel &f) { f.imports[ii].url = ""; }));
        }); }, wantImports);
    add(cat, "import:href-not-a-uri", {Rule::IMPORT_HREF_LOCATOR, Rule::IMPORT_HREF}, [=](const IrModel &m, Rng &rng) {
        static const std::vector<std::string> bad = {"http://exa mple.org/a.cellml", "a b.cellml", "lib<1>.cellml", "http://[::1/x.cellml", "%zz.cellml", "a\\b^c`{d}|.cellml", "http://a b/"};
        return eachImport(m, [&](std::vector<Loc> &out, size_t ii, const std::string &cls) {
            std::string b = rng.pick(bad);
            out.push_back(irLoc(cls, "import #" + std::to_string(ii) + " href := '" + b + "'", [=](IrModel &f) { f.imports[ii].url = b; }));
        }); }, wantImports);
    // every candidate violates RFC 3986 (space, <>, ^`{}|\\, malformed escape, unclosed IP literal)
}

// ---------------------------------------------------------------- catalogue: MathML faults
// gen(V, W, rng) -> raw XML replacing one sub-expression; V is a variable of the component, W another (or the same) one
using XmlGen = std::function<std::string(const std::string &, const std::string &, Rng &)>;

std::string ciX(const std::string &v)
{
    return "<ci>" + v + "</ci>";
}

std::string applyN(const std::string &op, int n, const std::string &v, const std::string &w)
{
    std::string s = "<apply><" + op + "/>";
    for (int i = 0; i < n; ++i) {
        s += ciX(i % 2 == 0 ? v : w);
    }
    return s + "</apply>";
}

void addMath(std::vector<Fault> &cat, const std::string &name, std::vector<Rule> adm, XmlGen gen, bool probe = false)
{
    Fault f;
    f.name = name;
    f.adm = std::move(adm);
    f.math = true;
    f.probe = probe;
    f.tune = wantMath;
    f.locs = [gen](const IrModel &m, Rng &rng) {
        std::vector<Loc> out;
        for (const auto &s : collectSites(m)) {
            const auto &vars = m.comps[static_cast<size_t>(s.comp)].vars;
            std::string v = vars[rng.below(vars.size())].name;
            std::string w = vars[rng.below(vars.size())].name;
            Loc l;
            l.cls = siteClass(m, s);
            l.rawXml = gen(v, w, rng);
            l.what = "sub-expression replaced by " + l.rawXml;
            MathSite site = s;
            l.ir = [site](IrModel &f) {
                *siteNode(f, site) = mkCi(kMarker);
                pruneOtherMath(f, site.comp);
            };
            out.push_back(l);
        }
        return out;
    };
    cat.push_back(f);
}

void addMathFaults(std::vector<Fault> &cat)
{
    static const std::vector<std::string> unsupportedOps = {"sum", "factorial", "quotient", "gcd", "lcm", "conjugate", "arg", "real", "imaginary", "int", "partialdiff", "divergence", "grad", "curl",
                                                            "laplacian", "union", "intersect", "implies", "approx", "factorof", "equivalent", "mean", "sdev", "variance", "median", "mode", "determinant",
                                                            "transpose", "product", "compose", "inverse", "forall", "exists", "limit", "card", "setdiff", "cartesianproduct", "vectorproduct", "scalarproduct"};
    addMath(cat, "math:unsupported-operator", {Rule::MATH_CHILD}, [](const std::string &v, const std::string &w, Rng &rng) { return applyN(rng.pick(unsupportedOps), rng.range(1, 2), v, w); });
    addMath(cat, "math:unsupported-container", {Rule::MATH_CHILD}, [](const std::string &v, const std::string &w, Rng &rng) {
        std::string e = rng.pick(std::vector<std::string> {"vector", "set", "list", "matrixrow", "interval"});
        return "<" + e + ">" + ciX(v) + ciX(w) + "</" + e + ">";
    });
    addMath(cat, "math:unsupported-constant", {Rule::MATH_CHILD}, [](const std::string &, const std::string &, Rng &rng) {
        return "<" + rng.pick(std::vector<std::string> {"integers", "reals", "rationals", "naturalnumbers", "complexes", "primes", "emptyset", "eulergamma", "imaginaryi"}) + "/>";
    });
    addMath(cat, "math:unsupported-csymbol-or-semantics", {Rule::MATH_CHILD}, [](const std::string &v, const std::string &, Rng &rng) {
        return rng.chance(0.5) ? "<csymbol encoding=\"text\" definitionURL=\"http://example.org/f\">f</csymbol>" : "<semantics>" + ciX(v) + "</semantics>";
    });
    addMath(cat, "math:presentation-element", {Rule::MATH_CHILD}, [](const std::string &v, const std::string &, Rng &rng) {
        return rng.chance(0.5) ? "<mi>" + v + "</mi>" : "<mrow><mi>" + v + "</mi><mo>+</mo><mn>1</mn></mrow>";
    });
    addMath(cat, "math:unknown-element", {Rule::MATH_CHILD, Rule::MATH_MATHML}, [](const std::string &v, const std::string &, Rng &rng) {
        return rng.chance(0.5) ? std::string("<foo/>") : "<apply><frobnicate/>" + ciX(v) + "</apply>";
    });
    addMath(cat, "math:element-in-foreign-namespace", {Rule::MATH_CHILD, Rule::MATH_MATHML}, [](const std::string &v, const std::string &w, Rng &) {
        return "<apply><plus xmlns=\"http://example.org/not-mathml\"/>" + ciX(v) + ciX(w) + "</apply>";
    });

    struct Group
    {
        const char *name;
        std::vector<std::string> ops;
        std::vector<int> bad;
        int good;
    };
    static const std::vector<Group> groups = {
        {"relational", {"eq", "neq", "lt", "leq", "gt", "geq"}, {0, 1, 3}, 2},
        {"and-or-xor", {"and", "or", "xor"}, {0, 1}, 2},
        {"not", {"not"}, {0, 2}, 1},
        {"plus", {"plus"}, {0}, 2},
        {"minus", {"minus"}, {0, 3}, 2},
        {"times", {"times"}, {0, 1}, 2},
        {"divide", {"divide"}, {0, 1, 3}, 2},
        {"power", {"power"}, {0, 1, 3}, 2},
        {"root", {"root"}, {0, 3}, 1},
        {"abs-exp-ln", {"abs", "exp", "ln"}, {0, 2}, 1},
        {"log", {"log"}, {0, 3}, 1},
        {"ceiling-floor", {"ceiling", "floor"}, {0, 2}, 1},
        {"trig", {"sin", "cos", "tan", "sec", "csc", "cot", "sinh", "cosh", "tanh", "sech", "csch", "coth", "arcsin", "arccos", "arctan", "arcsec", "arccsc", "arccot", "arcsinh", "arccosh", "arctanh", "arcsech", "arccsch", "arccoth"}, {0, 2}, 1}};
    for (const auto &g : groups) {
        for (int n : g.bad) {
            auto ops = g.ops;
            addMath(cat, std::string("math:arity:") + g.name + ":" + std::to_string(n), {Rule::MATH_MATHML}, [ops, n](const std::string &v, const std::string &w, Rng &rng) { return applyN(rng.pick(ops), n, v, w); });
        }
        auto ops = g.ops;
        int good = g.good;
        addMath(cat, std::string("math:operator-not-first:") + g.name, {Rule::MATH_MATHML}, [ops, good](const std::string &v, const std::string &w, Rng &rng) {
            std::string s = "<apply>" + ciX(v) + "<" + rng.pick(ops) + "/>";
            for (int i = 1; i < good; ++i) {
                s += ciX(w);
            }
            return s + "</apply>";
        });
    }
    const std::string cn1 = "<cn cellml:units=\"dimensionless\">2</cn>";
    addMath(cat, "math:root-two-operands-no-degree", {Rule::MATH_MATHML}, [](const std::string &v, const std::string &w, Rng &) { return applyN("root", 2, v, w); });
    addMath(cat, "math:log-two-operands-no-logbase", {Rule::MATH_MATHML}, [](const std::string &v, const std::string &w, Rng &) { return applyN("log", 2, v, w); });
    addMath(cat, "math:degree-children:0", {Rule::MATH_MATHML}, [](const std::string &v, const std::string &, Rng &) { return "<apply><root/><degree/>" + ciX(v) + "</apply>"; });
    addMath(cat, "math:degree-children:2", {Rule::MATH_MATHML}, [=](const std::string &v, const std::string &w, Rng &) { return "<apply><root/><degree>" + cn1 + ciX(w) + "</degree>" + ciX(v) + "</apply>"; });
    addMath(cat, "math:degree-not-second", {Rule::MATH_MATHML}, [=](const std::string &v, const std::string &, Rng &) { return "<apply><root/>" + ciX(v) + "<degree>" + cn1 + "</degree></apply>"; });
    addMath(cat, "math:degree-with-wrong-operator", {Rule::MATH_MATHML}, [=](const std::string &v, const std::string &, Rng &) { return "<apply><exp/><degree>" + cn1 + "</degree>" + ciX(v) + "</apply>"; });
    addMath(cat, "math:logbase-children:0", {Rule::MATH_MATHML}, [](const std::string &v, const std::string &, Rng &) { return "<apply><log/><logbase/>" + ciX(v) + "</apply>"; });
    addMath(cat, "math:logbase-children:2", {Rule::MATH_MATHML}, [=](const std::string &v, const std::string &w, Rng &) { return "<apply><log/><logbase>" + cn1 + ciX(w) + "</logbase>" + ciX(v) + "</apply>"; });
    addMath(cat, "math:logbase-not-second", {Rule::MATH_MATHML}, [=](const std::string &v, const std::string &, Rng &) { return "<apply><log/>" + ciX(v) + "<logbase>" + cn1 + "</logbase></apply>"; });
    addMath(cat, "math:logbase-with-wrong-operator", {Rule::MATH_MATHML}, [=](const std::string &v, const std::string &, Rng &) { return "<apply><ln/><logbase>" + cn1 + "</logbase>" + ciX(v) + "</apply>"; });
    addMath(cat, "math:diff-no-bvar", {Rule::MATH_MATHML}, [](const std::string &v, const std::string &w, Rng &rng) { return applyN("diff", rng.range(1, 2), v, w); });
    addMath(cat, "math:diff-no-operand", {Rule::MATH_MATHML}, [](const std::string &v, const std::string &, Rng &) { return "<apply><diff/><bvar>" + ciX(v) + "</bvar></apply>"; });
    addMath(cat, "math:diff-two-operands", {Rule::MATH_MATHML}, [](const std::string &v, const std::string &w, Rng &) { return "<apply><diff/><bvar>" + ciX(v) + "</bvar>" + ciX(w) + ciX(v) + "</apply>"; });
    addMath(cat, "math:diff-bvar-not-second", {Rule::MATH_MATHML}, [](const std::string &v, const std::string &w, Rng &) { return "<apply><diff/>" + ciX(w) + "<bvar>" + ciX(v) + "</bvar></apply>"; });
    addMath(cat, "math:bvar-children:0", {Rule::MATH_MATHML}, [](const std::string &v, const std::string &, Rng &) { return "<apply><diff/><bvar/>" + ciX(v) + "</apply>"; });
    addMath(cat, "math:bvar-children:3", {Rule::MATH_MATHML}, [=](const std::string &v, const std::string &w, Rng &) { return "<apply><diff/><bvar>" + ciX(v) + "<degree>" + cn1 + "</degree>" + ciX(w) + "</bvar>" + ciX(w) + "</apply>"; });
    addMath(cat, "math:bvar-without-diff", {Rule::MATH_MATHML}, [](const std::string &v, const std::string &w, Rng &) { return "<apply><plus/><bvar>" + ciX(v) + "</bvar>" + ciX(w) + "</apply>"; });
    addMath(cat, "math:piece-children:1", {Rule::MATH_MATHML}, [](const std::string &v, const std::string &w, Rng &) { return "<piecewise><piece>" + ciX(v) + "</piece><otherwise>" + ciX(w) + "</otherwise></piecewise>"; });
    addMath(cat, "math:piece-children:3", {Rule::MATH_MATHML}, [](const std::string &v, const std::string &w, Rng &) { return "<piecewise><piece>" + ciX(v) + ciX(w) + ciX(v) + "</piece></piecewise>"; });
    addMath(cat, "math:otherwise-children:0", {Rule::MATH_MATHML}, [](const std::string &v, const std::string &w, Rng &) { return "<piecewise><piece>" + ciX(v) + "<apply><gt/>" + ciX(w) + ciX(v) + "</apply></piece><otherwise/></piecewise>"; });
    addMath(cat, "math:otherwise-children:2", {Rule::MATH_MATHML}, [](const std::string &v, const std::string &w, Rng &) { return "<piecewise><piece>" + ciX(v) + "<apply><gt/>" + ciX(w) + ciX(v) + "</apply></piece><otherwise>" + ciX(v) + ciX(w) + "</otherwise></piecewise>"; });
    addMath(cat, "math:apply-empty", {Rule::MATH_MATHML}, [](const std::string &, const std::string &, Rng &) { return std::string("<apply/>"); });
    addMath(cat, "math:text-in-apply", {Rule::MATH_MATHML}, [](const std::string &v, const std::string &w, Rng &) { return "<apply><plus/>stray text" + ciX(v) + ciX(w) + "</apply>"; });

    // ---- cn
    addMath(cat, "math:cn-no-units", {Rule::MATH_CN_UNITS_ATTRIBUTE}, [](const std::string &, const std::string &, Rng &rng) {
        return rng.pick(std::vector<std::string> {"<cn>1</cn>", "<cn type=\"real\">2.5</cn>", "<cn type=\"e-notation\">1<sep/>3</cn>"});
    });
    addMath(cat, "math:cn-units-empty", {Rule::MATH_CN_UNITS_ATTRIBUTE, Rule::DATA_REPR_IDENTIFIER_AT_LEAST_ONE_ALPHANUM}, [](const std::string &, const std::string &, Rng &) { return std::string("<cn cellml:units=\"\">1</cn>"); });
    addMath(cat, "math:cn-units-ident:digit", {Rule::MATH_CN_UNITS_ATTRIBUTE, Rule::DATA_REPR_IDENTIFIER_BEGIN_EURO_NUM}, [](const std::string &, const std::string &, Rng &rng) { return "<cn cellml:units=\"" + rng.pick(idKinds()[1].values) + "\">1</cn>"; });
    addMath(cat, "math:cn-units-ident:char", {Rule::MATH_CN_UNITS_ATTRIBUTE, Rule::DATA_REPR_IDENTIFIER_LATIN_ALPHANUM}, [](const std::string &, const std::string &, Rng &rng) { return "<cn cellml:units=\"" + rng.pick(idKinds()[2].values) + "\">1</cn>"; });
    addMath(cat, "math:cn-units-missing", {Rule::MATH_CN_UNITS_ATTRIBUTE_REFERENCE}, [](const std::string &, const std::string &, Rng &rng) {
        return rng.chance(0.5) ? std::string("<cn cellml:units=\"c04_no_such_units\">1</cn>") : std::string("<cn cellml:units=\"c04_no_such_units\" type=\"e-notation\">1<sep/>3</cn>");
    });
    addMath(cat, "math:cn-base-not-10", {Rule::MATH_CN_BASE10}, [](const std::string &, const std::string &, Rng &rng) {
        return "<cn cellml:units=\"dimensionless\" base=\"" + rng.pick(std::vector<std::string> {"16", "2", "8", "1", "010", "ten"}) + "\">11</cn>";
    });
    addMath(cat, "math:cn-type", {Rule::MATH_CN_FORMAT}, [](const std::string &, const std::string &, Rng &rng) {
        return rng.pick(std::vector<std::string> {"<cn cellml:units=\"dimensionless\" type=\"integer\">1</cn>", "<cn cellml:units=\"dimensionless\" type=\"rational\">1<sep/>3</cn>",
                                                  "<cn cellml:units=\"dimensionless\" type=\"complex-cartesian\">1<sep/>3</cn>", "<cn cellml:units=\"dimensionless\" type=\"complex-polar\">1<sep/>3</cn>",
                                                  "<cn cellml:units=\"dimensionless\" type=\"constant\">1</cn>"});
    });
    addMath(cat, "math:cn-text-not-a-number", {Rule::MATH_CN_FORMAT}, [](const std::string &, const std::string &, Rng &rng) {
        return "<cn cellml:units=\"dimensionless\"" + std::string(rng.chance(0.3) ? " type=\"real\"" : "") + ">" + rng.pick(std::vector<std::string> {"abc", "1e3", "1,5", "1 2", "0x10", "+1", "1.2.3", "--1", "one", "1E-2", "NaN"}) + "</cn>";
    });
    addMath(cat, "math:cn-text-empty", {Rule::MATH_CN_FORMAT}, [](const std::string &, const std::string &, Rng &rng) {
        return rng.pick(std::vector<std::string> {"<cn cellml:units=\"dimensionless\"/>", "<cn cellml:units=\"dimensionless\"></cn>", "<cn cellml:units=\"dimensionless\">  </cn>"});
    });
    addMath(cat, "math:cn-text-degenerate-real", {Rule::MATH_CN_FORMAT}, [](const std::string &, const std::string &, Rng &rng) {
        return "<cn cellml:units=\"dimensionless\">" + rng.pick(std::vector<std::string> {"-", ".", "-."}) + "</cn>";
    });
    cat.back().maxReps = 3; // known: uncaught std::invalid_argument from stod
    cat.back().crashy = true;
    addMath(cat, "math:cn-e-notation-malformed", {Rule::MATH_CN_FORMAT}, [](const std::string &, const std::string &, Rng &rng) {
        return "<cn cellml:units=\"dimensionless\" type=\"e-notation\">" + rng.pick(std::vector<std::string> {"1", "1<sep/>", "<sep/>2", "1<sep/>1.5", "1<sep/>x", "a<sep/>2", "1<sep/>2<sep/>3", "1e2<sep/>3"}) + "</cn>";
    });
    addMath(cat, "math:cn-foreign-cellml-attribute", {Rule::MATH_MATHML}, [](const std::string &, const std::string &, Rng &) { return std::string("<cn cellml:units=\"dimensionless\" cellml:flavour=\"x\">1</cn>"); });
    // ---- ci
    addMath(cat, "math:ci-empty", {Rule::MATH_CI_VARIABLE_REFERENCE}, [](const std::string &, const std::string &, Rng &rng) { return rng.pick(std::vector<std::string> {"<ci/>", "<ci></ci>", "<ci>  </ci>"}); });
    addMath(cat, "math:ci-missing-variable", {Rule::MATH_CI_VARIABLE_REFERENCE}, [](const std::string &v, const std::string &, Rng &rng) {
        return rng.pick(std::vector<std::string> {"<ci>c04_no_such_variable</ci>", "<ci>" + v + "_x</ci>", "<apply><plus/><ci>" + v + "</ci><ci>c04_no_such_variable</ci></apply>"});
    });
    addMath(cat, "math:ci-cellml-attribute", {Rule::MATH_MATHML}, [](const std::string &v, const std::string &, Rng &) { return "<ci cellml:units=\"second\">" + v + "</ci>"; });
}

// ci naming a variable that exists only in another component, and whole-<math> faults (API only)
void addMathSpecialFaults(std::vector<Fault> &cat)
{
    Fault f;
    f.name = "math:ci-variable-of-other-component";
    f.adm = {Rule::MATH_CI_VARIABLE_REFERENCE};
    f.math = true;
    f.tune = [](GenOptions &g) { wantMath(g); g.maxComponents = 4; };
    f.locs = [](const IrModel &m, Rng &rng) {
        std::vector<Loc> out;
        for (const auto &s : collectSites(m)) {
            const auto &c = m.comps[static_cast<size_t>(s.comp)];
            std::vector<std::string> foreign;
            for (size_t cj = 0; cj < m.comps.size(); ++cj) {
                for (const auto &v : m.comps[cj].vars) {
                    bool here = false;
                    for (const auto &w : c.vars) {
                        here = here || w.name == v.name;
                    }
                    if (static_cast<int>(cj) != s.comp && !here) {
                        foreign.push_back(v.name);
                    }
                }
            }
            if (foreign.empty()) {
                continue;
            }
            Loc l;
            l.cls = siteClass(m, s);
            l.rawXml = ciX(rng.pick(foreign));
            l.what = "sub-expression replaced by " + l.rawXml + " (variable of another component)";
            MathSite site = s;
            l.ir = [site](IrModel &g) {
                *siteNode(g, site) = mkCi(kMarker);
                pruneOtherMath(g, site.comp);
            };
            out.push_back(l);
        }
        return out;
    };
    cat.push_back(f);

    struct Whole
    {
        const char *name;
        std::vector<Rule> adm;
        std::string xml;
    };
    static const std::vector<Whole> wholes = {
        {"math:root-element-not-math", {Rule::MATH_ELEMENT}, "<apply xmlns=\"http://www.w3.org/1998/Math/MathML\"><eq/><ci>V</ci><ci>V</ci></apply>"},
        {"math:root-element-wrong-namespace", {Rule::MATH_ELEMENT}, "<math xmlns=\"http://www.w3.org/1998/Math/MathML2\"><apply><eq/><ci>V</ci><ci>V</ci></apply></math>"},
        {"math:root-element-no-namespace", {Rule::MATH_ELEMENT}, "<math><apply><eq/><ci>V</ci><ci>V</ci></apply></math>"},
        {"math:not-well-formed", {Rule::XML}, "<math xmlns=\"http://www.w3.org/1998/Math/MathML\"><apply><eq/><ci>V</ci><ci>V</ci></math>"},
        {"math:not-xml", {Rule::XML, Rule::MATH_ELEMENT}, "V = V + 1"}};
    for (const auto &w : wholes) {
        Fault g;
        g.name = w.name;
        g.adm = w.adm;
        g.math = true;
        g.tune = wantMath;
        std::string xml = w.xml;
        g.locs = [xml](const IrModel &m, Rng &rng) {
            std::vector<Loc> out;
            for (int ci : plainComps(m)) {
                const auto &c = m.comps[static_cast<size_t>(ci)];
                if (c.vars.empty()) {
                    continue;
                }
                std::string x = xml;
                replaceAll(x, "V", c.vars[rng.below(c.vars.size())].name);
                std::string cname = c.name;
                for (int mode = 0; mode < 3; ++mode) { // 0 replace component math, 1 append to it, 2 first reset's test/reset value
                    if (mode == 1 && c.math.empty()) {
                        continue;
                    }
                    if (mode == 2 && c.resets.empty()) {
                        continue;
                    }
                    bool rv = rng.chance(0.5);
                    size_t ri = mode == 2 ? rng.below(c.resets.size()) : 0;
                    Loc l;
                    l.cls = std::string(mode == 0 ? "component-math-replaced" : (mode == 1 ? "component-math-appended" : (rv ? "reset-value" : "reset-test-value"))) + "/" + compClass(m, ci);
                    l.what = "math string := " + x + " (API)";
                    l.text = false;
                    l.ir = [ci](IrModel &f) { pruneOtherMath(f, ci); };
                    l.api = [=](const ModelPtr &model) {
                        for (const auto &comp : allComponents(model)) {
                            if (comp->name() != cname || comp->isImport()) {
                                continue;
                            }
                            if (mode == 0) {
                                comp->setMath(x);
                            } else if (mode == 1) {
                                comp->appendMath(x);
                            } else if (rv) {
                                comp->reset(ri)->setResetValue(x);
                            } else {
                                comp->reset(ri)->setTestValue(x);
                            }
                        }
                    };
                    out.push_back(l);
                }
            }
            return out;
        };
        cat.push_back(g);
    }
}

} // namespace

static std::vector<Fault> &catalogue()
{
    static std::vector<Fault> cat;
    if (cat.empty()) {
        addIdentifierFaults(cat);
        addUniquenessFaults(cat);
        addReferenceFaults(cat);
        addEquivalenceFaults(cat);
        addResetFaults(cat);
        addImportFaults(cat);
        addMathFaults(cat);
        addMathSpecialFaults(cat);
    }
    return cat;
}

// ---------------------------------------------------------------- engine
struct Verdict
{
    size_t issues = 0;
    size_t errors = 0;
    std::map<Rule, int> errorRules;
    std::map<Rule, int> allRules;
    std::string firstItemType;
    Rule firstRule = Rule::UNDEFINED;
    std::string summary;
};

// validate + cross-cutting monitors (C15 logger coherence, C12 purity)
static Verdict validateMonitored(const ModelPtr &model, const std::string &replay, const std::string *dumpBefore = nullptr)
{
    std::string before = dumpBefore != nullptr ? *dumpBefore : dumpModel(model);
    auto validator = Validator::create();
    validator->validateModel(model);
    stat("validations");
    monitorLogger(*validator, "Validator::validateModel", replay);
    std::string after = dumpModel(model);
    if (after != before) {
        viol("C12", "validator-mutated-model", firstDiff(before, after), replay);
    }
    Verdict v;
    v.issues = validator->issueCount();
    for (size_t i = 0; i < v.issues; ++i) {
        auto is = validator->issue(i);
        if (is == nullptr) {
            continue;
        }
        if (i == 0) {
            v.firstRule = is->referenceRule();
            v.firstItemType = itemType(is);
        }
        v.allRules[is->referenceRule()]++;
        if (is->level() == Issue::Level::ERROR) {
            ++v.errors;
            v.errorRules[is->referenceRule()]++;
        }
        seen("rule_cited", rn(is->referenceRule()));
    }
    v.summary = issueSummary(*validator, 10);
    return v;
}

static void applyRawToApi(const ModelPtr &model, const std::string &raw)
{
    for (const auto &c : allComponents(model)) {
        std::string s = c->math();
        if (replaceAll(s, kMarkerXml, raw)) {
            c->setMath(s);
        }
        for (size_t i = 0; i < c->resetCount(); ++i) {
            auto r = c->reset(i);
            s = r->testValue();
            if (replaceAll(s, kMarkerXml, raw)) {
                r->setTestValue(s);
            }
            s = r->resetValue();
            if (replaceAll(s, kMarkerXml, raw)) {
                r->setResetValue(s);
            }
        }
    }
}

static ModelPtr parseStrict(const std::string &text, const std::string &replay, size_t &issues)
{
    auto p = Parser::create(true);
    auto m = p->parseModel(text);
    monitorLogger(*p, "Parser::parseModel", replay);
    issues = p->issueCount();
    return m;
}

// Validate in a forked child when the input is known to be able to kill the validator (unbounded recursion, uncaught exception):
// returns "" when the child survived, else a stable description of how it died.  Unknown crashes are NOT routed through
// here: they kill the worker and are triaged by the supervisor as usual.
static void childSegv(int)
{
    _exit(97);
}

static std::string validateInChild(const ModelPtr &model)
{
    int fds[2];
    if (pipe(fds) != 0) {
        return "";
    }
    fflush(stdout);
    pid_t pid = fork();
    if (pid < 0) {
        close(fds[0]);
        close(fds[1]);
        return "";
    }
    if (pid == 0) {
        close(fds[0]);
        // our own handler on an alternate stack: a stack overflow ends the child at once instead of producing a sanitizer report
        static char altStack[1 << 16];
        stack_t ss;
        ss.ss_sp = altStack;
        ss.ss_size = sizeof altStack;
        ss.ss_flags = 0;
        sigaltstack(&ss, nullptr);
        struct sigaction sa;
        memset(&sa, 0, sizeof sa);
        sa.sa_handler = childSegv;
        sa.sa_flags = SA_ONSTACK;
        sigaction(SIGSEGV, &sa, nullptr);
        sigaction(SIGBUS, &sa, nullptr);
        std::string msg = "ok";
        try {
            auto v = Validator::create();
            v->validateModel(model);
        } catch (const std::exception &e) {
            int st = 0;
            char *dn = abi::__cxa_demangle(typeid(e).name(), nullptr, nullptr, &st);
            msg = std::string("uncaught-exception:") + (dn != nullptr ? dn : typeid(e).name()) + ":" + e.what();
        } catch (...) {
            msg = "uncaught-exception:unknown";
        }
        ssize_t w = write(fds[1], msg.data(), msg.size());
        (void)w;
        _exit(0);
    }
    close(fds[1]);
    std::string got;
    char buf[512];
    ssize_t n;
    while ((n = read(fds[0], buf, sizeof buf)) > 0) {
        got.append(buf, static_cast<size_t>(n));
    }
    close(fds[0]);
    int status = 0;
    waitpid(pid, &status, 0);
    if (WIFEXITED(status) && WEXITSTATUS(status) == 0 && got == "ok") {
        return "";
    }
    if (WIFEXITED(status) && WEXITSTATUS(status) == 97) {
        return "stack-exhaustion-or-segv";
    }
    if (!got.empty() && got != "ok") {
        return got;
    }
    return WIFSIGNALED(status) ? "signal-" + std::to_string(WTERMSIG(status)) : "exit-" + std::to_string(WEXITSTATUS(status));
}

// ---- reductions used to attribute a false rejection to a feature (each keeps the model valid by construction)
struct Reduction
{
    const char *name;
    std::function<bool(IrModel &)> apply;
};

static void dropConnections(IrModel &m)
{
    m.conns.clear();
    for (auto &c : m.comps) {
        if (c.import >= 0) {
            c.vars.clear();
        }
    }
}

static const std::vector<Reduction> &reductions()
{
    static const std::vector<Reduction> r = {
        {"shared-import-source-id", [](IrModel &m) {
             bool any = false;
             for (size_t i = 0; i < m.imports.size(); ++i) {
                 if (importUsers(m, static_cast<int>(i)) >= 2 && !m.imports[i].id.empty()) {
                     m.imports[i].id.clear();
                     any = true;
                 }
             }
             return any;
         }},
        {"import-source-id", [](IrModel &m) {
             bool any = false;
             for (auto &im : m.imports) {
                 any = any || !im.id.empty();
                 im.id.clear();
             }
             return any;
         }},
        {"ids", [](IrModel &m) {
             for (auto &s : idSlots(m)) {
                 s.ref(m).clear();
             }
             for (auto &im : m.imports) {
                 im.id.clear();
             }
             return true;
         }},
        {"initial-value-by-variable", [](IrModel &m) {
             bool any = false;
             for (auto &c : m.comps) {
                 for (auto &v : c.vars) {
                     if (!v.init.empty() && (isalpha(static_cast<unsigned char>(v.init[0])) || v.init[0] == '_')) {
                         v.init = "1";
                         any = true;
                     }
                 }
             }
             return any;
         }},
        {"resets", [](IrModel &m) {
             bool any = false;
             for (auto &c : m.comps) {
                 any = any || !c.resets.empty();
                 c.resets.clear();
             }
             return any;
         }},
        {"component-math", [](IrModel &m) {
             bool any = false;
             for (auto &c : m.comps) {
                 any = any || !c.math.empty();
                 c.math.clear();
             }
             return any;
         }},
        {"connections", [](IrModel &m) {
             bool any = !m.conns.empty();
             dropConnections(m);
             return any;
         }},
        {"imports", [](IrModel &m) {
             bool any = false;
             dropConnections(m);
             for (auto &u : m.units) {
                 any = any || u.import >= 0;
                 u.import = -1;
             }
             for (auto &c : m.comps) {
                 any = any || c.import >= 0;
                 c.import = -1;
             }
             return any;
         }},
        {"encapsulation", [](IrModel &m) {
             bool any = m.hasEncapsulation();
             dropConnections(m);
             for (auto &c : m.comps) {
                 c.parent = -1;
                 c.children.clear();
                 c.encId.clear();
             }
             m.encId.clear();
             return any;
         }},
        {"unit-prefix-exponent-multiplier", [](IrModel &m) {
             bool any = false;
             for (auto &u : m.units) {
                 for (auto &k : u.units) {
                     any = any || !k.prefix.empty() || k.hasExp || k.hasMult;
                     k.prefix.clear();
                     k.hasExp = false;
                     k.hasMult = false;
                 }
             }
             return any;
         }}};
    return r;
}

// (A): a valid-by-construction model must validate with zero issues.  `rebuild` turns a (reduced) IR into a model the same
// way the rejected one was built.
static bool checkAccepted(const IrModel &ir0, const ModelPtr &model, const std::string &path, const std::string &replay,
                          const std::function<ModelPtr(const IrModel &)> &rebuild)
{
    Verdict v = validateMonitored(model, replay);
    stat("acceptance_validations");
    if (v.issues == 0) {
        stat("valid_models_accepted");
        return true;
    }
    stat("valid_models_rejected");
    {
        std::string shape = mismatchOfZero(v.summary.substr(0, v.summary.find('\n')));
        if (!shape.empty()) {
            // connected variables that "mismatch" by base^0 only: one known shape, whatever feature hides it
            viol("C04", "false-rejection:" + rn(v.firstRule) + shape, "valid-by-construction model (" + path + ") rejected\n" + v.summary, replay);
            return false;
        }
    }
    IrModel ir = deepCopy(ir0);
    for (int round = 0; round < 6 && v.issues != 0; ++round) {
        Rule r0 = v.firstRule;
        int have = v.allRules[r0];
        std::string cls;
        for (const auto &red : reductions()) {
            IrModel t = deepCopy(ir);
            if (!red.apply(t)) {
                continue;
            }
            ModelPtr tm = rebuild(t);
            if (tm == nullptr) {
                continue;
            }
            Verdict tv = validateMonitored(tm, replay);
            if (tv.allRules[r0] < have) {
                cls = red.name;
                ir = t;
                v = tv;
                break;
            }
        }
        if (cls.empty()) {
            viol("C04", "false-rejection:" + rn(r0) + ":unattributed:" + v.firstItemType + ":" + path,
                 "valid-by-construction model (" + path + ") rejected; no single feature removal clears the issue\n" + v.summary, replay);
            return false;
        }
        viol("C04", "false-rejection:" + rn(r0) + ":" + cls,
             "valid-by-construction model (" + path + ") rejected with " + rn(r0) + " on a " + v.firstItemType + "; the issue disappears when feature '" + cls + "' is removed\n" + v.summary, replay);
    }
    return false;
}

static GenOptions variedOptions(Rng &rng, std::string &desc)
{
    GenOptions g;
    g.maxComponents = rng.range(1, 8);
    g.maxVarsPerComponent = rng.range(1, 5);
    g.maxUnits = rng.range(0, 8);
    g.resets = rng.chance(0.7);
    g.imports = rng.chance(0.6);
    g.ids = rng.chance(0.7);
    g.connections = rng.chance(0.8);
    g.encapsulation = rng.chance(0.8);
    g.scaledConnections = rng.chance(0.7);
    g.initByVariable = rng.chance(0.7);
    g.nonUnitExponentPrefix = rng.chance(0.7);
    g.mathProbability = rng.pick(std::vector<double> {0.0, 0.3, 0.6, 0.9});
    desc = std::string("resets=") + (g.resets ? "1" : "0") + " imports=" + (g.imports ? "1" : "0") + " ids=" + (g.ids ? "1" : "0") + " conns=" + (g.connections ? "1" : "0")
           + " encaps=" + (g.encapsulation ? "1" : "0") + " scaled=" + (g.scaledConnections ? "1" : "0") + " initvar=" + (g.initByVariable ? "1" : "0") + " nonunitexp=" + (g.nonUnitExponentPrefix ? "1" : "0");
    return g;
}

static void runAcceptance(Ctx &ctx)
{
    Rng &rng = ctx.rng;
    std::string od;
    GenOptions g = variedOptions(rng, od);
    seen("gen_options", od);
    IrModel ir = generateModel(rng, g);
    std::string irDump = dumpIr(ir);
    stage("acceptance-api");
    ModelPtr api = buildApi(ir);
    checkAccepted(ir, api, "api", "API-built from IR (" + od + "):\n" + irDump, [](const IrModel &t) { return buildApi(t); });
    stage("acceptance-text");
    Rng wr = rng; // same writer choices for reduced variants
    std::string text = writeCellml2(ir, rng);
    size_t pi = 0;
    ModelPtr parsed = parseStrict(text, text, pi);
    if (parsed == nullptr || pi != 0) {
        stat("valid_text_rejected_by_parser"); // reported by C02's driver (generated-valid-model-rejected-by-parser)
    } else {
        checkAccepted(ir, parsed, "text", text, [wr](const IrModel &t) {
            Rng w = wr;
            size_t n = 0;
            auto m = parseStrict(writeCellml2(t, w), "", n);
            return n == 0 ? m : nullptr;
        });
    }
    stat("acceptance_cases");
    stat("features", ir.featureCount());
    caseInfo("A:" + ir.structuralHash(), ir.featureCount() >= 2,
             "acceptance: " + od + " units=" + std::to_string(ir.units.size()) + " comps=" + std::to_string(ir.comps.size()) + " conns=" + std::to_string(ir.conns.size()) + " imports=" + std::to_string(ir.imports.size()));
}

// ---- (B) one injected fault at one location, through the API and (when the strict parser is silent and faithful) through text
struct Outcome
{
    int injected = 0;
    int detected = 0;
};

static void judge(const Fault &f, const Loc &l, const Verdict &v, const std::string &path, const std::string &replay, Outcome &o)
{
    ++o.injected;
    stat("faults_injected");
    stat("inj:" + f.name);
    stat("injected_via_" + path);
    seen("fault_location", f.name + "@" + l.cls);
    bool hit = false;
    for (Rule r : f.adm) {
        hit = hit || v.errorRules.count(r) != 0;
    }
    if (verbose()) {
        fprintf(stderr, "[c04] fault %s at %s (%s): %s\n%s\n", f.name.c_str(), l.cls.c_str(), path.c_str(), l.what.c_str(), v.summary.c_str());
        if (getenv("C04_DUMP") != nullptr) {
            fprintf(stderr, "%s\n", replay.c_str());
        }
    }
    if (f.probe) {
        seen("probe_outcome", f.name + ":" + (hit ? "reported-with-listed-rule" : (v.errors != 0 ? "reported-with-other-rule" : "not-reported")));
        stat("probes");
        return;
    }
    if (hit) {
        ++o.detected;
        stat("faults_detected");
        stat("det:" + f.name);
        return;
    }
    std::string adm;
    for (Rule r : f.adm) {
        adm += (adm.empty() ? "" : ",") + rn(r);
    }
    std::string head = "fault " + f.name + " at " + l.cls + " (" + path + "): " + l.what + "\nadmissible rules: " + adm + "\n";
    if (v.errors == 0) {
        viol("C04", "missed-violation:" + f.name + ":" + l.cls, head + "validator reported no error-level issue (" + std::to_string(v.issues) + " issues)\n" + v.summary, replay);
    } else {
        std::string cited;
        for (const auto &kv : v.errorRules) {
            cited += (cited.empty() ? "" : "+") + rn(kv.first);
        }
        viol("C04", "wrong-rule:" + f.name + ":" + cited, head + "errors reported, none citing an admissible rule:\n" + v.summary, replay);
    }
}

static void injectAt(const Fault &f, const Loc &l, const IrModel &base, Rng &rng, Outcome &o)
{
    IrModel fi = deepCopy(base);
    if (l.ir) {
        l.ir(fi);
    }
    std::string head = "fault=" + f.name + " location=" + l.cls + "\n" + l.what + "\n";
    stage("fault-api:" + f.name);
    ModelPtr api = buildApi(fi);
    if (!l.rawXml.empty()) {
        applyRawToApi(api, l.rawXml);
    }
    if (l.api) {
        l.api(api);
    }
    std::string apiDump = dumpModel(api);
    if (f.crashy) {
        std::string died = validateInChild(api);
        if (!died.empty()) {
            ++o.injected;
            stat("faults_injected");
            stat("inj:" + f.name);
            stat("validator_died_in_child");
            seen("fault_location", f.name + "@" + l.cls);
            viol("C04", "validator-crash:" + f.name + ":" + died, "Validator::validateModel did not return (" + died + ") for fault " + f.name + " at " + l.cls + ": " + l.what, head + "API-built; canonical dump:\n" + apiDump);
            return;
        }
    }
    Verdict va = validateMonitored(api, head + "API-built; canonical dump:\n" + apiDump, &apiDump);
    judge(f, l, va, "api", head + "API-built; canonical dump:\n" + apiDump, o);
    if (!l.text) {
        stat("text_path_not_applicable");
        return;
    }
    stage("fault-text:" + f.name);
    std::string text = writeCellml2(fi, rng);
    if (!l.rawXml.empty()) {
        replaceAll(text, kMarkerXml, l.rawXml);
    }
    size_t pi = 0;
    ModelPtr parsed = parseStrict(text, text, pi);
    if (parsed == nullptr || pi != 0) {
        stat("text_path_parser_reports_it");
        seen("parser_reports_fault", f.name);
        return;
    }
    std::string textDump = dumpModel(parsed);
    if (textDump != apiDump) {
        stat("text_path_parser_changed_model"); // the parser silently repaired / resolved the construct differently: not the same fault any more
        seen("parser_changes_fault", f.name);
        return;
    }
    Verdict vt = validateMonitored(parsed, head + text, &textDump);
    judge(f, l, vt, "text", head + text, o);
}

static void stripSharedImportIds(IrModel &m)
{
    for (size_t i = 0; i < m.imports.size(); ++i) {
        if (importUsers(m, static_cast<int>(i)) >= 2) {
            m.imports[i].id.clear();
        }
    }
}

static std::vector<Loc> chooseLocs(std::vector<Loc> all, Rng &rng, size_t maxN)
{
    rng.shuffle(all);
    std::vector<Loc> out;
    std::set<std::string> classes;
    for (const auto &l : all) {
        if (l.must && out.empty() && maxN > 1 && classes.insert(l.cls).second) {
            out.push_back(l);
        }
    }
    for (const auto &l : all) {
        if (out.size() < maxN && classes.insert(l.cls).second) {
            out.push_back(l);
        }
    }
    for (const auto &l : all) {
        if (out.size() >= maxN) {
            break;
        }
        bool dup = false;
        for (const auto &k : out) {
            dup = dup || (k.cls == l.cls && k.what == l.what);
        }
        if (!dup) {
            out.push_back(l);
        }
    }
    return out;
}

static void runFault(Ctx &ctx, size_t fi)
{
    Rng &rng = ctx.rng;
    const Fault &f = catalogue()[fi];
    // base model: among a few applicable candidates, the one with the most location classes that validates cleanly
    struct Cand
    {
        IrModel ir;
        std::vector<Loc> locs;
        size_t classes = 0;
    };
    std::vector<Cand> cands;
    for (int tries = 0; tries < 150 && cands.size() < 5; ++tries) {
        GenOptions g;
        // validation cost is dominated by the number of <math> elements (MathML DTD re-parsed for each): keep bases lean
        g.maxComponents = rng.range(2, 6);
        g.mathProbability = 0.1;
        g.resets = rng.chance(0.15);
        if (f.tune) {
            f.tune(g);
        }
        Cand c;
        c.ir = generateModel(rng, g);
        stripSharedImportIds(c.ir); // known false rejection (see acceptance part); keep bases clean
        c.locs = f.locs(c.ir, rng);
        if (c.locs.empty()) {
            continue;
        }
        std::set<std::string> cls;
        for (const auto &l : c.locs) {
            cls.insert(l.cls);
        }
        c.classes = cls.size();
        cands.push_back(std::move(c));
    }
    std::stable_sort(cands.begin(), cands.end(), [](const Cand &a, const Cand &b) { return a.classes > b.classes; });
    IrModel best;
    std::vector<Loc> bestLocs;
    for (auto &c : cands) {
        stage("base-validation");
        ModelPtr api = buildApi(c.ir);
        Verdict v = validateMonitored(api, "base model for fault " + f.name + ":\n" + dumpIr(c.ir));
        stat("base_validations");
        if (v.issues != 0) {
            stat("base_not_clean");
            continue;
        }
        best = c.ir;
        bestLocs = c.locs;
        break;
    }
    if (bestLocs.empty()) {
        stat("fault_case_without_applicable_base");
        seen("no_base_for", f.name);
        caseInfo("F:none:" + f.name, false, "fault " + f.name + ": no applicable base model found");
        return;
    }
    size_t maxN = ctx.thorough() ? (f.math ? 8 : 10) : 3;
    auto locs = chooseLocs(bestLocs, rng, maxN);
    Outcome o;
    std::string classes;
    for (const auto &l : locs) {
        injectAt(f, l, best, rng, o);
        classes += (classes.empty() ? "" : ", ") + l.cls;
    }
    stat("fault_cases");
    stat("locations_available", static_cast<int64_t>(bestLocs.size()));
    caseInfo("F:" + f.name + ":" + best.structuralHash() + ":" + hex64(fnv1a(classes)), o.injected > 0 && best.featureCount() >= 2,
             "fault " + f.name + " on a model with units=" + std::to_string(best.units.size()) + " comps=" + std::to_string(best.comps.size()) + " conns=" + std::to_string(best.conns.size()) + " at [" + classes + "]: injected "
                 + std::to_string(o.injected) + " detected " + std::to_string(o.detected) + (f.probe ? " (probe, not judged)" : ""));
}

// ---------------------------------------------------------------- special scenarios
// S1: one <import> element (one ImportSource object) with an id and two imported children
static void runSharedImportWitness(Ctx &ctx, int variant)
{
    IrModel ir;
    ir.name = "m";
    IrImport im;
    im.url = "lib.cellml";
    im.id = "imp1";
    ir.imports.push_back(im);
    auto addU = [&](const std::string &n) {
        IrUnits u;
        u.name = n;
        u.import = 0;
        u.importRef = "ref_" + n;
        ir.units.push_back(u);
    };
    auto addC = [&](const std::string &n) {
        IrComponent c;
        c.name = n;
        c.import = 0;
        c.importRef = "ref_" + n;
        ir.comps.push_back(c);
    };
    if (variant == 0) {
        addU("u");
        addC("c");
    } else if (variant == 1) {
        addC("c1");
        addC("c2");
    } else {
        addU("u1");
        addU("u2");
    }
    seen("scenario", "shared-import-witness:" + std::to_string(variant));
    if (variant == 0) {
        // validateModel(nullptr) must be reported, not crash
        auto validator = Validator::create();
        validator->validateModel(nullptr);
        monitorLogger(*validator, "Validator::validateModel(null)", "validateModel(nullptr)");
        stat("faults_injected");
        stat("inj:null-model");
        if (validator->errorCount() >= 1 && validator->error(0)->referenceRule() == Rule::INVALID_ARGUMENT) {
            stat("faults_detected");
            stat("det:null-model");
        } else {
            viol("C04", validator->errorCount() == 0 ? "missed-violation:null-model:api" : "wrong-rule:null-model:" + rn(validator->error(0)->referenceRule()), issueSummary(*validator), "validateModel(nullptr)");
        }
    }
    checkAccepted(ir, buildApi(ir), "api", "API: one ImportSource (url lib.cellml, id imp1) set on two imported entities:\n" + dumpIr(ir), [](const IrModel &t) { return buildApi(t); });
    WriteStyle st;
    st.pretty = true;
    std::string text = writeCellml2(ir, st);
    size_t pi = 0;
    ModelPtr parsed = parseStrict(text, text, pi);
    if (parsed != nullptr && pi == 0) {
        checkAccepted(ir, parsed, "text", text, [st](const IrModel &t) {
            size_t n = 0;
            auto m = parseStrict(writeCellml2(t, st), "", n);
            return n == 0 ? m : nullptr;
        });
    } else {
        stat("valid_text_rejected_by_parser");
    }
    (void)ctx;
    caseInfo("S1:" + std::to_string(variant), true, "minimal witness: one import element with id and two imported children, variant " + std::to_string(variant));
}

// S2: cellml: prefix used inside reset math but declared only on an ancestor element
static void runAncestorPrefix(Ctx &ctx)
{
    Rng &rng = ctx.rng;
    IrModel ir;
    bool found = false;
    for (int tries = 0; tries < 60 && !found; ++tries) {
        GenOptions g;
        g.resets = true;
        g.imports = rng.chance(0.3);
        ir = generateModel(rng, g);
        stripSharedImportIds(ir);
        for (const auto &c : ir.comps) {
            found = found || !c.resets.empty();
        }
    }
    if (!found) {
        caseInfo("S2:none", false, "no model with resets");
        return;
    }
    WriteStyle st;
    st.prefixAll = rng.chance(0.3);
    st.cellmlPrefixOnRoot = true;
    st.pretty = rng.chance(0.7);
    std::string text = writeCellml2(ir, st);
    size_t pi = 0;
    ModelPtr ref = parseStrict(text, text, pi);
    if (ref == nullptr || pi != 0) {
        stat("valid_text_rejected_by_parser");
        caseInfo("S2:parser", false);
        return;
    }
    Verdict v0 = validateMonitored(ref, text);
    if (v0.issues != 0) {
        stat("ancestor_prefix_reference_not_clean"); // reported by the acceptance part
        caseInfo("S2:ref", false);
        return;
    }
    // remove the declaration from every <math> (the root element keeps it)
    size_t rootEnd = text.find('>', text.find("model"));
    std::string head = text.substr(0, rootEnd + 1);
    std::string tail = text.substr(rootEnd + 1);
    bool removed = replaceAll(tail, " xmlns:cellml=\"http://www.cellml.org/cellml/2.0#\"", "");
    std::string text2 = head + tail;
    bool usesPrefix = false;
    const std::string open = st.prefixAll ? "<cellml:reset " : "<reset ";
    const std::string close = st.prefixAll ? "</cellml:reset>" : "</reset>";
    for (size_t p = text2.find(open); p != std::string::npos && !usesPrefix; p = text2.find(open, p + 1)) {
        size_t e = text2.find(close, p);
        usesPrefix = e != std::string::npos && text2.substr(p, e - p).find("cellml:units") != std::string::npos;
    }
    seen("scenario", std::string("ancestor-prefix:") + (st.prefixAll ? "prefixed-elements" : "default-namespace") + (usesPrefix ? ":cn-in-reset" : ":no-cn-in-reset"));
    ModelPtr m2 = parseStrict(text2, text2, pi);
    if (m2 == nullptr || pi != 0) {
        stat("ancestor_prefix_parser_complains");
        caseInfo("S2:parser2", false);
        return;
    }
    Verdict v = validateMonitored(m2, text2);
    stat("ancestor_prefix_models");
    stat("acceptance_validations");
    if (v.issues != 0) {
        stat("valid_models_rejected");
        viol("C04", "false-rejection:reset-math-ancestor-prefix",
             "the same document validates with zero issues when xmlns:cellml is repeated on the reset's <math>; with the declaration only on the <model> element the validator reports " + rn(v.firstRule) + ":\n" + v.summary, text2);
    } else {
        stat("valid_models_accepted");
    }
    caseInfo("S2:" + ir.structuralHash(), removed && usesPrefix, "reset math with ancestor-declared cellml prefix; uses prefix in reset: " + std::string(usesPrefix ? "yes" : "no"));
}

// S3: imports resolved through ImportSource::setModel: acceptance, then faults on / inside the imported items
// `keep` receives the library models (ImportSource only holds a weak reference)
static ModelPtr buildResolved(const IrModel &ir, int mod, std::string &cls, std::vector<ModelPtr> &keep)
{
    ModelPtr model = buildApi(ir);
    std::map<ImportSourcePtr, ModelPtr> libs;
    auto libFor = [&](const ImportSourcePtr &s) {
        auto it = libs.find(s);
        if (it == libs.end()) {
            auto lib = Model::create("library_" + std::to_string(libs.size()));
            s->setModel(lib);
            keep.push_back(lib);
            it = libs.emplace(s, lib).first;
        }
        return it->second;
    };
    bool didUnits = false;
    bool didComp = false;
    for (size_t i = 0; i < model->unitsCount(); ++i) {
        auto u = model->units(i);
        if (!u->isImport()) {
            continue;
        }
        auto lib = libFor(u->importSource());
        auto lu = Units::create(u->importReference());
        lu->addUnit("second", "milli", 1.0, 1.0);
        bool target = !didUnits;
        if (mod == 1 && target) {
            didUnits = true;
            cls = "imported-units";
            continue; // target missing
        }
        if (mod == 2 && target) {
            lu->addUnit("c04_no_such_units");
            didUnits = true;
            cls = "imported-units";
        }
        if (mod == 3 && target) {
            lu->addUnit(u->importReference());
            didUnits = true;
            cls = "imported-units";
        }
        if (lib->units(u->importReference()) == nullptr) {
            lib->addUnits(lu);
        }
    }
    for (const auto &c : allComponents(model)) {
        if (!c->isImport()) {
            continue;
        }
        auto lib = libFor(c->importSource());
        auto lc = Component::create(c->importReference());
        auto v = Variable::create("x");
        v->setUnits("second");
        lc->addVariable(v);
        lc->setMath("<math xmlns=\"http://www.w3.org/1998/Math/MathML\" xmlns:cellml=\"http://www.cellml.org/cellml/2.0#\"><apply><eq/><ci>x</ci><cn cellml:units=\"second\">1</cn></apply></math>");
        bool target = !didComp;
        std::string k = "imported-component/" + std::string(c->parent() != nullptr && std::dynamic_pointer_cast<Component>(c->parent()) != nullptr ? "encapsulated" : "top");
        if (mod == 4 && target) {
            didComp = true;
            cls = k;
            continue;
        }
        if (mod == 5 && target) {
            lc->addVariable(Variable::create("1bad"));
            lc->variable(1)->setUnits("second");
            didComp = true;
            cls = k;
        }
        if (mod == 6 && target) {
            v->setUnits("c04_no_such_units");
            didComp = true;
            cls = k;
        }
        if (mod == 7 && target) {
            lc->setMath("<math xmlns=\"http://www.w3.org/1998/Math/MathML\" xmlns:cellml=\"http://www.cellml.org/cellml/2.0#\"><apply><eq/><ci>x</ci><ci>c04_no_such_variable</ci></apply></math>");
            didComp = true;
            cls = k;
        }
        if (lib->component(c->importReference()) == nullptr) {
            lib->addComponent(lc);
        }
    }
    return model;
}

static void runResolvedImports(Ctx &ctx)
{
    Rng &rng = ctx.rng;
    IrModel ir;
    bool found = false;
    for (int tries = 0; tries < 80 && !found; ++tries) {
        GenOptions g;
        g.imports = true;
        ir = generateModel(rng, g);
        stripSharedImportIds(ir);
        bool u = false;
        bool c = false;
        for (const auto &x : ir.units) {
            u = u || x.import >= 0;
        }
        for (const auto &x : ir.comps) {
            c = c || x.import >= 0;
        }
        found = (u && c) || (tries > 40 && (u || c));
    }
    if (!found) {
        caseInfo("S3:none", false, "no model with imports");
        return;
    }
    std::string cls;
    stage("resolved-imports-acceptance");
    std::vector<ModelPtr> keep;
    ModelPtr ok = buildResolved(ir, 0, cls, keep);
    std::string replay = "API-built, every import resolved with ImportSource::setModel to a library model holding the referenced units/component:\n" + dumpIr(ir);
    Verdict v = validateMonitored(ok, replay);
    stat("acceptance_validations");
    stat("resolved_import_models");
    if (v.issues != 0) {
        stat("valid_models_rejected");
        // (the exact-zero comparison of summed exponents is a finding of its own, whatever scenario meets it)
        std::string zero = mismatchOfZero(v.summary.substr(0, v.summary.find('\n')));
        viol("C04", "false-rejection:" + rn(v.firstRule) + (zero.empty() ? ":resolved-import" : zero), "model with resolved imports rejected:\n" + v.summary, replay);
        caseInfo("S3:rejected", false);
        return;
    }
    stat("valid_models_accepted");
    static const std::vector<std::pair<std::string, std::vector<Rule>>> mods = {
        {"", {}},
        {"imported:units-target-missing", {Rule::IMPORT_UNITS_UNITS_REFERENCE_VALUE_TARGET, Rule::IMPORT_UNITS_UNITS_REFERENCE}},
        {"imported:units-unit-ref-missing", {Rule::UNIT_UNITS_REFERENCE}},
        {"imported:units-self-cycle", {Rule::UNIT_UNITS_CIRCULAR_REFERENCE}},
        {"imported:component-target-missing", {Rule::IMPORT_COMPONENT_COMPONENT_REFERENCE_TARGET, Rule::IMPORT_COMPONENT_COMPONENT_REFERENCE}},
        {"imported:component-variable-name-illegal", {Rule::VARIABLE_NAME_VALUE, Rule::DATA_REPR_IDENTIFIER_BEGIN_EURO_NUM}},
        {"imported:component-variable-units-missing", {Rule::VARIABLE_UNITS_VALUE}},
        {"imported:component-ci-missing-variable", {Rule::MATH_CI_VARIABLE_REFERENCE}}};
    Outcome o;
    for (size_t mod = 1; mod < mods.size(); ++mod) {
        cls.clear();
        stage("resolved-imports-fault:" + mods[mod].first);
        std::vector<ModelPtr> keepBad;
        ModelPtr bad = buildResolved(ir, static_cast<int>(mod), cls, keepBad);
        if (cls.empty()) {
            continue; // no imported item of that kind in this model
        }
        Fault f;
        f.name = mods[mod].first;
        f.adm = mods[mod].second;
        Loc l;
        l.cls = cls;
        l.what = f.name + " in the library model behind an import (API)";
        std::string d = dumpModel(bad);
        std::string rp = "fault=" + f.name + " location=" + cls + "\nimporting model (library models are built by the driver, see buildResolved):\n" + d;
        Verdict vb = validateMonitored(bad, rp, &d);
        judge(f, l, vb, "api", rp, o);
    }
    caseInfo("S3:" + ir.structuralHash(), o.injected > 0, "resolved imports: accepted; faults behind imports injected " + std::to_string(o.injected) + " detected " + std::to_string(o.detected));
}

// S4: a units cycle reachable from the units of two connected variables (kept apart: the validator is known to overflow the stack here)
static void runCycleConnected(Ctx &ctx)
{
    Rng &rng = ctx.rng;
    for (int tries = 0; tries < 200; ++tries) {
        GenOptions g;
        g.connections = true;
        g.maxUnits = 7;
        g.imports = false;
        IrModel ir = generateModel(rng, g);
        for (const auto &cn : ir.conns) {
            for (const auto &mp : cn.maps) {
                auto *v1 = ir.findVar(cn.c1, mp.v1);
                auto *v2 = ir.findVar(cn.c2, mp.v2);
                if (v1 == nullptr || v2 == nullptr) {
                    continue;
                }
                int ui = ir.findUnits(v1->units);
                if (ui < 0 || ir.findUnits(v2->units) < 0) {
                    continue;
                }
                ModelPtr base = buildApi(ir);
                if (validateMonitored(base, "base").issues != 0) {
                    continue;
                }
                IrModel fi = deepCopy(ir);
                IrUnit k;
                k.ref = fi.units[static_cast<size_t>(ui)].name;
                fi.units[static_cast<size_t>(ui)].units.push_back(k);
                ModelPtr api = buildApi(fi);
                std::string d = dumpModel(api);
                std::string rp = "fault=units:cycle-connected: units '" + k.ref + "' (used by connected variable '" + v1->name + "') references itself\n" + d;
                stage("units-cycle-connected:validate");
                std::string died = validateInChild(api);
                if (!died.empty()) {
                    stat("faults_injected");
                    stat("inj:units:cycle-connected");
                    stat("validator_died_in_child");
                    seen("fault_location", "units:cycle-connected@self-reference/used-by-connected-variable");
                    viol("C04", "validator-crash:units:cycle-connected:" + died, "Validator::validateModel did not return (" + died + "): units used by two connected variables reference themselves", rp);
                    caseInfo("S4:" + ir.structuralHash(), true, "cyclic units used by connected variables: validator died (" + died + ")");
                    return;
                }
                Verdict v = validateMonitored(api, rp, &d);
                Fault f;
                f.name = "units:cycle-connected";
                f.adm = {Rule::UNIT_UNITS_CIRCULAR_REFERENCE};
                Loc l;
                l.cls = "self-reference/used-by-connected-variable";
                l.what = "units used by a connected variable references itself";
                Outcome o;
                judge(f, l, v, "api", rp, o);
                caseInfo("S4:" + ir.structuralHash(), true, "cyclic units used by connected variables: detected " + std::to_string(o.detected));
                return;
            }
        }
    }
    caseInfo("S4:none", false, "no suitable model");
}

// ---------------------------------------------------------------- case plan
struct Plan
{
    int64_t nValid = 0;
    int64_t nWitness = 3;
    int64_t nPrefix = 0;
    int64_t nResolved = 0;
    int64_t nCycle = 0;
    std::vector<uint32_t> faultOf;
    int64_t total() const { return nValid + nWitness + nPrefix + nResolved + nCycle + static_cast<int64_t>(faultOf.size()); }
};

static Plan makePlan(const std::string &tier)
{
    Plan p;
    bool th = tier == "thorough";
    p.nValid = th ? 3000 : 300;
    p.nPrefix = th ? 150 : 12;
    p.nResolved = th ? 150 : 12;
    p.nCycle = th ? 4 : 2;
    int reps = th ? 60 : 3;
    int mathReps = th ? 12 : 3;
    const auto &cat = catalogue();
    for (int r = 0; r < reps; ++r) {
        for (size_t f = 0; f < cat.size(); ++f) {
            if (r < std::min(cat[f].maxReps, cat[f].math ? mathReps : reps)) {
                p.faultOf.push_back(static_cast<uint32_t>(f));
            }
        }
    }
    return p;
}

int64_t vh_case_count(const std::string &tier, uint64_t)
{
    if (getenv("C04_LIST") != nullptr) {
        Plan p = makePlan(tier);
        int64_t first = p.nWitness + p.nPrefix + p.nResolved + p.nCycle + p.nValid;
        for (size_t i = 0; i < catalogue().size(); ++i) {
            fprintf(stderr, "%lld %s%s\n", static_cast<long long>(first + static_cast<int64_t>(i)), catalogue()[i].name.c_str(), catalogue()[i].probe ? " (probe)" : "");
        }
    }
    return makePlan(tier).total();
}

void vh_run_case(Ctx &ctx)
{
    static std::map<std::string, Plan> plans;
    if (plans.count(ctx.tier) == 0) {
        plans[ctx.tier] = makePlan(ctx.tier);
    }
    const Plan &p = plans[ctx.tier];
    int64_t i = ctx.index;
    keepAlive().clear();
    // special scenarios first (cheap, and --limit runs reach them), then acceptance, then faults
    if (i < p.nWitness) {
        runSharedImportWitness(ctx, static_cast<int>(i));
        return;
    }
    i -= p.nWitness;
    if (i < p.nPrefix) {
        runAncestorPrefix(ctx);
        return;
    }
    i -= p.nPrefix;
    if (i < p.nResolved) {
        runResolvedImports(ctx);
        return;
    }
    i -= p.nResolved;
    if (i < p.nCycle) {
        runCycleConnected(ctx);
        return;
    }
    i -= p.nCycle;
    if (i < p.nValid) {
        runAcceptance(ctx);
        return;
    }
    i -= p.nValid;
    runFault(ctx, p.faultOf[static_cast<size_t>(i)]);
}
