// Analyse -> generate (C and Python) -> run -> compare every array entry with the semantic model's reference values.
#pragma once
#include "sem.h"

namespace vh {

struct Judged
{
    int compared = 0;
    int undecidable = 0;
};

// External variables (C20): the analyser to use (already holding the AnalyserExternalVariable objects) and, per external
// quantity (kind EXTERNAL in the semantic model, init = value the callback returns, in home units), the quantities it
// declared as dependencies.
struct JudgeExternals
{
    AnalyserPtr analyser;
    std::map<int, std::vector<int>> deps;
};

// `model` is the libCellML model to analyse (parsed from `text`, or the result of flattening); quantities are matched
// to analyser variables by (component name comp<i>, variable name).  Violations are reported for property `prop`
// (classification problems for C05).  `labels[qi]` = structural label of quantity qi used in violation keys.
void judgeModel(Ctx &ctx, const std::string &prop, const SemModel &m, const ModelPtr &model, const std::string &text, const std::vector<std::string> &labels,
                const std::vector<SemPoint> &points, const std::string &caseTag, Judged &jd, const JudgeExternals *ext = nullptr);

} // namespace vh
