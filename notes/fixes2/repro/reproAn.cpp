#include <libcellml>
#include <fstream>
#include <sstream>
#include <iostream>
using namespace libcellml;
static void issues(const char *who, const LoggerPtr &l) {
    std::cout << who << ": " << l->issueCount() << " issues\n";
    for (size_t i = 0; i < l->issueCount() && i < 8; ++i) std::cout << "   - " << l->issue(i)->description() << "\n";
}
int main(int argc, char **argv) {
    std::cout << std::unitbuf;
    std::ifstream f(argv[1]); std::stringstream ss; ss << f.rdbuf();
    auto parser = Parser::create();
    auto m = parser->parseModel(ss.str());
    issues("parser", parser);
    auto v = Validator::create(); v->validateModel(m); issues("validator", v);
    auto a = Analyser::create(); a->analyseModel(m); issues("analyser", a);
    std::cout << "type " << AnalyserModel::typeAsString(a->model()->type()) << "\n";
    auto g = Generator::create(); g->setModel(a->model());
    std::cout << "code bytes " << g->implementationCode().size() << "\n";
    return 0;
}
