#!/usr/bin/env python3
"""Generic supervisor: runs a driver over all its cases on N workers, attributes crashes/hangs to the
case in flight, re-runs those alone for a clean report, matches violations against the committed
known-findings file and writes evidence."""
import hashlib
import json
import os
import queue
import re
import select
import signal
import subprocess
import sys
import threading
import time

VERIF = os.path.dirname(os.path.dirname(os.path.abspath(__file__)))
sys.path.insert(0, os.path.join(VERIF, "tools"))
import vbuild  # noqa: E402

SAN_ENV = {
    "ASAN_OPTIONS": "abort_on_error=1:detect_leaks=0:detect_stack_use_after_return=0:allocator_may_return_null=1:"
                    "malloc_context_size=12:handle_abort=0:symbolize=1",
    "UBSAN_OPTIONS": "print_stacktrace=1:halt_on_error=1:abort_on_error=1",
}


def load_known():
    p = os.path.join(VERIF, "known_findings.json")
    if not os.path.exists(p):
        return {"findings": [], "fixed": []}
    with open(p) as fh:
        k = json.load(fh)
    # development aid only: extra candidate findings while a check is being built (never set by registered commands)
    extra = os.environ.get("VERIF_KNOWN_EXTRA")
    if extra and os.path.exists(extra):
        with open(extra) as fh:
            k["findings"] = k.get("findings", []) + json.load(fh).get("findings", [])
    return k


def match_known(known, prop, key):
    for f in known.get("findings", []):
        if f["property"] == prop and re.search(f["pattern"], key):
            return f
    return None


class Worker(threading.Thread):
    def __init__(self, sup, wid):
        super().__init__(daemon=True)
        self.sup = sup
        self.wid = wid

    def run(self):
        sup = self.sup
        while True:
            try:
                rng = sup.q.get_nowait()
            except queue.Empty:
                return
            a, b = rng
            while a < b:
                a = sup.run_range(a, b)


class Supervisor:
    def __init__(self, prop, driver, flavour, tier, seed, spec, extra_args=None, limit=None):
        self.prop = prop
        self.driver_name = driver
        self.flavour = flavour
        self.tier = tier
        self.seed = seed
        self.spec = spec
        self.extra_args = extra_args or []
        self.limit = limit
        self.lock = threading.Lock()
        self.q = queue.Queue()
        self.stats = {}
        self.seen = {}
        self.hashes = set()
        self.evaluations = 0
        self.samples = []
        self.viols = {}      # (prop,key) -> dict(detail, replay, case, count)
        self.notes = []
        self.crashes = 0
        self.hangs_resolved = 0
        self.harness_errors = []
        self.case_timeout = spec.get("case_timeout", {}).get(tier, 120)
        self.alone_timeout = self.case_timeout * spec.get("alone_factor", 10)
        self.env = dict(os.environ)
        self.env.update(SAN_ENV)
        self.env["VERIF_TMP"] = os.path.join(vbuild.CACHE, "tmp")
        self.env["VERIF_REPO"] = vbuild.REPO
        self.env["VERIF_DIR"] = VERIF
        os.makedirs(self.env["VERIF_TMP"], exist_ok=True)

    # ---- driver invocation ----
    def cmd(self, *args):
        return [self.binary, "--seed", str(self.seed), "--tier", self.tier] + self.extra_args + list(args)

    def count(self):
        out = subprocess.run(self.cmd("--count"), env=self.env, stdout=subprocess.PIPE, stderr=subprocess.PIPE, timeout=600)
        for line in out.stdout.decode(errors="replace").splitlines():
            if line.startswith("@@ "):
                ev = json.loads(line[3:])
                if ev.get("ev") == "count":
                    return ev["n"]
        raise RuntimeError("driver --count failed: " + out.stderr.decode(errors="replace")[-2000:])

    def handle_event(self, ev):
        k = ev.get("ev")
        with self.lock:
            if k == "end":
                self.evaluations += 1
                if ev.get("nt") and ev.get("hash"):
                    self.hashes.add(ev["hash"])
                for n, v in ev.get("stats", {}).items():
                    self.stats[n] = self.stats.get(n, 0) + v
                for n, vs in ev.get("seen", {}).items():
                    s = self.seen.setdefault(n, set())
                    if len(s) < 5000:
                        s.update(vs)
                if ev.get("sample") and len(self.samples) < 6 and (ev.get("nt") or not self.samples):
                    self.samples.append({"case": ev["case"], "sample": ev["sample"]})
            elif k == "viol":
                self.add_viol(ev.get("prop", self.prop), ev["key"], ev.get("detail", ""), ev.get("replay", ""), ev.get("case", -1))
            elif k == "note":
                if len(self.notes) < 200:
                    self.notes.append(ev.get("text", ""))

    def add_viol(self, prop, key, detail, replay, case):
        d = self.viols.get((prop, key))
        if d is None:
            self.viols[(prop, key)] = {"detail": detail, "replay": replay, "case": case, "count": 1}
        else:
            d["count"] += 1

    def run_range(self, a, b):
        """Run cases [a,b) in one process. Returns the index to continue from."""
        p = subprocess.Popen(self.cmd("--from", str(a), "--to", str(b)), env=self.env,
                             stdout=subprocess.PIPE, stderr=subprocess.DEVNULL)
        cur = None
        last_done = a - 1
        buf = b""
        t_case = time.time()
        fd = p.stdout.fileno()
        finished = False
        timed_out = False
        while True:
            r, _, _ = select.select([fd], [], [], 1.0)
            if r:
                chunk = os.read(fd, 1 << 16)
                if not chunk:
                    break
                buf += chunk
                while b"\n" in buf:
                    line, buf = buf.split(b"\n", 1)
                    if not line.startswith(b"@@ "):
                        continue
                    try:
                        ev = json.loads(line[3:].decode("utf-8", errors="replace"))
                    except ValueError:
                        continue
                    k = ev.get("ev")
                    if k == "begin":
                        cur = ev["case"]
                        t_case = time.time()
                    elif k == "end":
                        last_done = ev["case"]
                        cur = None
                        self.handle_event(ev)
                    elif k == "done":
                        finished = True
                    elif k == "viol" or k == "note":
                        self.handle_event(ev)
            if cur is not None and time.time() - t_case > self.case_timeout:
                timed_out = True
                try:
                    p.kill()
                except OSError:
                    pass
                break
        p.stdout.close()
        rc = p.wait()
        self.cleanup_scratch(p.pid)
        if finished and rc == 0:
            return b
        # abnormal end
        if cur is None:
            # died between cases (e.g. at exit); treat next case as suspect
            cur = last_done + 1
            if cur >= b:
                if rc != 0 and not timed_out:
                    with self.lock:
                        self.harness_errors.append("driver exited rc=%s after finishing range %d-%d" % (rc, a, b))
                return b
        self.investigate(cur, timed_out, rc, a)
        return cur + 1

    def cleanup_scratch(self, pid):
        d = os.path.join(self.env["VERIF_TMP"], "w%d" % pid)
        if os.path.isdir(d):
            import shutil
            shutil.rmtree(d, ignore_errors=True)

    # ---- crash / hang triage ----
    def run_single(self, case, timeout):
        p = subprocess.Popen(self.cmd("--only", str(case), "--verbose"), env=self.env,
                             stdout=subprocess.PIPE, stderr=subprocess.PIPE)
        try:
            out, err = p.communicate(timeout=timeout)
            to = False
        except subprocess.TimeoutExpired:
            p.kill()
            out, err = p.communicate()
            to = True
        self.cleanup_scratch(p.pid)
        return p.returncode, out.decode(errors="replace"), err.decode(errors="replace"), to

    def run_span(self, first, last, timeout):
        """Run cases first..last in ONE process (history-dependent failures); returns (rc, out, err, timed_out)."""
        p = subprocess.Popen(self.cmd("--from", str(first), "--to", str(last + 1), "--verbose"), env=self.env,
                             stdout=subprocess.PIPE, stderr=subprocess.PIPE)
        try:
            out, err = p.communicate(timeout=timeout)
            to = False
        except subprocess.TimeoutExpired:
            p.kill()
            out, err = p.communicate()
            to = True
        self.cleanup_scratch(p.pid)
        return p.returncode, out.decode(errors="replace"), err.decode(errors="replace"), to

    def investigate(self, case, timed_out, rc, range_start=None):
        if timed_out:
            rc2, out, err, to = self.run_single(case, self.alone_timeout)
            if not to and rc2 == 0:
                with self.lock:
                    self.hangs_resolved += 1
                self.absorb_single_output(out)
                return
            if to:
                stage = last_stage(out)
                with self.lock:
                    self.add_viol(self.prop, "hang:" + stage, "case %d did not finish within %ds (alone)" % (case, self.alone_timeout),
                                  "", case)
                return
        else:
            rc2, out, err, to = self.run_single(case, self.alone_timeout)
            if to:
                with self.lock:
                    self.add_viol(self.prop, "hang:" + last_stage(out), "case %d hung on re-run" % case, "", case)
                return
        if rc2 == 0:
            # Not reproducible alone: the failure may depend on what ran earlier in the same process.  Re-run the
            # cases of the batch up to this one in one process.
            if range_start is not None and range_start < case:
                rc3, out3, err3, to3 = self.run_span(range_start, case, self.alone_timeout)
                if rc3 != 0 and not to3:
                    key, summary = classify_crash(err3, rc3)
                    with self.lock:
                        self.crashes += 1
                        self.add_viol(self.spec.get("crash_prop", self.prop), "crash:" + key + ":after-earlier-cases-in-process",
                                      "case %d crashes only after cases %d..%d ran in the same process (rc=%s)\n%s" % (case, range_start, case - 1, rc3, summary),
                                      "cases %d..%d in one process" % (range_start, case), case)
                    return
            self.absorb_single_output(out)
            with self.lock:
                self.harness_errors.append("case %d died in batch (rc=%s) but passed alone and in a re-run of its batch" % (case, rc))
            return
        key, summary = classify_crash(err, rc2)
        for _ in range(2):
            # a stack-overflow report is sometimes cut short (the unwinder itself runs out of stack): try again
            if key != "asan:stack-overflow":
                break
            rc3, out3, err3, to3 = self.run_single(case, self.alone_timeout)
            if rc3 != 0 and not to3:
                key, summary = classify_crash(err3, rc3)
                out = out3
        stage = last_stage(out)
        if "@" not in key:
            # no libcellml frame to tell crash sites apart (uncaught exception, recursion inside the standard library):
            # the stage the driver was in is the next best thing (digits dropped, they number cases/models)
            key += "@stage:" + re.sub(r"\d+", "N", stage)
        with self.lock:
            self.crashes += 1
            self.add_viol(self.spec.get("crash_prop", self.prop), "crash:" + key,
                          "stage=%s rc=%s\n%s" % (stage, rc2, summary), "", case)
        # violations emitted before the crash still count
        self.absorb_single_output(out, only_viol=True)

    def absorb_single_output(self, out, only_viol=False):
        for line in out.splitlines():
            if line.startswith("@@ "):
                try:
                    ev = json.loads(line[3:])
                except ValueError:
                    continue
                if only_viol and ev.get("ev") != "viol":
                    continue
                if ev.get("ev") in ("end", "viol", "note"):
                    self.handle_event(ev)

    # ---- main ----
    def run(self):
        t0 = time.time()
        self.binary = vbuild.build_driver(self.flavour, self.driver_name)
        n = self.count()
        if self.limit:
            n = min(n, self.limit)
        self.total = n
        workers = int(os.environ.get("VERIF_JOBS", os.cpu_count() or 8))
        chunk = max(1, min(self.spec.get("chunk", 50), (n + workers * 4 - 1) // (workers * 4)))
        i = 0
        while i < n:
            self.q.put((i, min(n, i + chunk)))
            i += chunk
        ths = [Worker(self, w) for w in range(min(workers, max(1, self.q.qsize())))]
        for t in ths:
            t.start()
        for t in ths:
            t.join()
        self.wall = time.time() - t0
        return self


def last_stage(out):
    st = "?"
    for line in out.splitlines():
        if line.startswith("@@ ") and '"ev":"stage"' in line:
            try:
                st = json.loads(line[3:]).get("name", "?")
            except ValueError:
                pass
    return st


FRAME_RE = re.compile(r"#\d+ 0x[0-9a-f]+ in (.+?) (?:\(|/)")
FRAME2_RE = re.compile(r"#\d+ 0x[0-9a-f]+ in ([^\s(]+)")


def strip_fn(fn):
    fn = re.sub(r"\(.*$", "", fn)
    fn = re.sub(r"<[^<>]*>", "", fn)
    fn = re.sub(r"<[^<>]*>", "", fn)
    return fn.strip()


def classify_crash(err, rc):
    kind = None
    m = re.search(r"ERROR: AddressSanitizer: ([\w-]+)", err)
    if m:
        kind = "asan:" + m.group(1)
    if kind is None:
        m = re.search(r"runtime error: (.+)", err)
        if m:
            msg = m.group(1)
            msg = re.sub(r"0x[0-9a-f]+", "ADDR", msg)
            msg = re.sub(r"-?\d+(\.\d+)?(e[+-]?\d+)?", "N", msg)
            kind = "ubsan:" + msg[:60].strip()
    if kind is None:
        m = re.search(r"terminate called after throwing an instance of '([^']+)'", err)
        if m:
            kind = "uncaught:" + m.group(1)
            m2 = re.search(r"what\(\):\s*(\S+)", err)
            if m2:
                kind += ":" + m2.group(1)
    if kind is None:
        if rc is not None and rc < 0:
            try:
                kind = "signal:" + signal.Signals(-rc).name
            except ValueError:
                kind = "signal:%d" % -rc
        else:
            kind = "exit:%s" % rc
    if kind == "asan:stack-overflow":
        # unbounded recursion: the innermost frames are whatever leaf ran out of stack and vary from run to run;
        # the recursing function is the most frequent libcellml frame of the trace
        freq = {}
        for line in err.splitlines():
            if FRAME2_RE.search(line) and "libcellml::" in line:
                mm = re.search(r" in (.*?)(?: /| \()", line)
                if mm:
                    fn = strip_fn(mm.group(1))
                    freq[fn] = freq.get(fn, 0) + 1
        if freq:
            top = sorted(freq.items(), key=lambda kv: (-kv[1], kv[0]))[0][0]
            return kind + "@recursion:" + top, "\n".join(err.splitlines()[:40])
    frames = []
    for line in err.splitlines():
        m = FRAME2_RE.search(line)
        if m and "libcellml::" in line:
            mm = re.search(r" in (.*?)(?: /| \()", line)
            fn = strip_fn(mm.group(1) if mm else m.group(1))
            if fn and (not frames or frames[-1] != fn):
                frames.append(fn)
        if len(frames) >= 2:
            break
    key = kind + ("@" + "<".join(frames) if frames else "")
    lines = err.splitlines()
    start = 0
    for i, l in enumerate(lines):
        if "ERROR: AddressSanitizer" in l or "runtime error:" in l or "terminate called" in l:
            start = i
            break
    summary = "\n".join(lines[start:start + 30])
    head = "\n".join(lines[:12]) if start > 0 else ""
    return key, (head + "\n...\n" + summary) if head else summary


def write_replay(prop, key, info, sup):
    d = os.path.join(VERIF, "replays", prop)
    os.makedirs(d, exist_ok=True)
    h = hashlib.sha1(key.encode()).hexdigest()[:12]
    path = os.path.join(d, h + ".json")
    with open(path, "w") as fh:
        json.dump({"property": prop, "key": key, "detail": info["detail"], "replay": info["replay"],
                   "driver": sup.driver_name, "flavour": sup.flavour, "seed": sup.seed, "tier": sup.tier,
                   "case": info["case"], "extra_args": sup.extra_args,
                   "cmd": "./check %s --replay %s" % (prop, path)}, fh, indent=1)
    return path
