// Structure-aware (libxml2 tree) and byte-level mutation of XML documents.
#pragma once
#include "vh.h"

namespace vh {

extern const std::vector<std::string> kHostileNumbers;
extern const std::vector<std::string> kHostileIdentifiers;
extern const std::vector<std::string> kNamespaces;

// Applies `n` random structural mutations.  Returns the mutated text and appends a short description of each
// mutation to `desc`.  Falls back to byte mutation when the input is not well-formed.
std::string mutateStructured(const std::string &xml, Rng &rng, int n, std::string &desc);
std::string mutateBytes(const std::string &data, Rng &rng, int n, std::string &desc, const std::string &other = "");
// Truncation classes used by C07/C01: returns prefixes of the text cut (0) to empty, (1) inside a tag name,
// (2) inside an attribute value, (3) right after the root start tag, (4) before the root close tag.
std::string truncateClass(const std::string &xml, int cls);
// Legal-but-unexpected XML (see mutate2.cpp): comments / PIs / CDATA around text, twin attributes in other namespaces,
// one value blown up (document below 64 KiB), names taken from the library's own string literals, DOCTYPE + entity
// references, units DAGs.  Falls back to byte mutation when the input is not well-formed.
std::string mutateHostileXml(const std::string &xml, Rng &rng, int n, std::string &desc);
const std::vector<std::string> &libraryLiterals();

} // namespace vh
