// C18 (part 1): variable-equivalence queries agree with the connection graph, for every pair, order and repetition.
// Oracle: union-find over the public equivalentVariable(i) lists.  The guarded trace hook in
// AnalyserModel::areEquivalentVariables feeds an injectivity monitor for the cache key the real code computed.
#include "gen.h"
#include "vh.h"

#include <algorithm>
#include <cstring>
#include <numeric>

using namespace vh;

int64_t vh_case_count(const std::string &tier, uint64_t)
{
    return tier == "thorough" ? 200000 : 20000;
}

// ---- hook monitor (single-threaded; state is reset per AnalyserModel under test) ----
struct KeyBytes
{
    std::string bytes;
    bool operator<(const KeyBytes &o) const { return bytes < o.bytes; }
};
static std::map<KeyBytes, std::pair<const void *, const void *>> gKeyOwner;
static std::map<std::pair<const void *, const void *>, bool> gFirstResult;
static int64_t gTraceEvents = 0;
static int64_t gTraceHits = 0;
static std::vector<std::string> gHookProblems;

static void traceCb(const void *v1, const void *v2, const void *key, size_t keySize, bool hit, bool result)
{
    ++gTraceEvents;
    gTraceHits += hit ? 1 : 0;
    const void *a = std::min(v1, v2);
    const void *b = std::max(v1, v2);
    KeyBytes k {std::string(static_cast<const char *>(key), keySize)};
    auto it = gKeyOwner.find(k);
    if (it == gKeyOwner.end()) {
        gKeyOwner[k] = {a, b};
    } else if (it->second != std::make_pair(a, b)) {
        char buf[200];
        snprintf(buf, sizeof buf, "cache key shared by pairs (%p,%p) and (%p,%p)", it->second.first, it->second.second, a, b);
        gHookProblems.emplace_back(std::string("cache-key-collision|") + buf);
    }
    auto pr = std::make_pair(a, b);
    auto fr = gFirstResult.find(pr);
    if (fr == gFirstResult.end()) {
        gFirstResult[pr] = result;
    } else if (fr->second != result) {
        gHookProblems.emplace_back("cache-result-changed|result for one pair changed between queries");
    }
}

static void resetHook()
{
    gKeyOwner.clear();
    gFirstResult.clear();
    gHookProblems.clear();
}

struct UF
{
    std::vector<int> p;
    explicit UF(size_t n)
        : p(n)
    {
        std::iota(p.begin(), p.end(), 0);
    }
    int find(int x)
    {
        while (p[static_cast<size_t>(x)] != x) {
            p[static_cast<size_t>(x)] = p[static_cast<size_t>(p[static_cast<size_t>(x)])];
            x = p[static_cast<size_t>(x)];
        }
        return x;
    }
    void unite(int a, int b) { p[static_cast<size_t>(find(a))] = find(b); }
};

void vh_run_case(Ctx &ctx)
{
    Rng &rng = ctx.rng;
    verifSetEquivalenceCacheTrace(traceCb);
    resetHook();

    // ---- a connection graph over n variables ----
    int n = rng.range(2, 14);
    int shape = rng.range(0, 5); // 0 chain, 1 star, 2 cycle, 3 random sparse, 4 two cliques, 5 disconnected parts + isolated
    auto model = Model::create("m");
    std::vector<VariablePtr> vars;
    std::vector<ComponentPtr> comps;
    int perComp = rng.range(1, 3);
    for (int i = 0; i < n; ++i) {
        if (i % perComp == 0) {
            auto c = Component::create("c" + std::to_string(i));
            model->addComponent(c);
            comps.push_back(c);
        }
        auto v = Variable::create("v" + std::to_string(i));
        v->setUnits("second");
        v->setInterfaceType("public");
        comps.back()->addVariable(v);
        vars.push_back(v);
    }
    std::vector<std::pair<int, int>> edges;
    auto edge = [&](int a, int b) {
        if (a != b && vars[static_cast<size_t>(a)]->parent() != vars[static_cast<size_t>(b)]->parent()) {
            edges.emplace_back(a, b);
        }
    };
    switch (shape) {
    case 0:
        for (int i = 0; i + 1 < n; ++i) {
            edge(i, i + 1);
        }
        break;
    case 1:
        for (int i = 1; i < n; ++i) {
            edge(0, i);
        }
        break;
    case 2:
        for (int i = 0; i < n; ++i) {
            edge(i, (i + 1) % n);
        }
        break;
    case 3:
        for (int i = 0; i < n; ++i) {
            edge(static_cast<int>(rng.below(static_cast<uint64_t>(n))), static_cast<int>(rng.below(static_cast<uint64_t>(n))));
        }
        break;
    case 4:
        for (int i = 0; i < n; ++i) {
            for (int j = i + 1; j < n; ++j) {
                if ((i < n / 2) == (j < n / 2) && rng.chance(0.7)) {
                    edge(i, j);
                }
            }
        }
        break;
    default:
        for (int i = 0; i + 1 < n; i += 3) {
            edge(i, i + 1);
        }
        break;
    }
    rng.shuffle(edges);
    for (const auto &e : edges) {
        Variable::addEquivalence(vars[static_cast<size_t>(e.first)], vars[static_cast<size_t>(e.second)]);
    }
    // remove a few again (history of the graph matters for the stored lists)
    int removals = rng.range(0, 2);
    for (int r = 0; r < removals && !edges.empty(); ++r) {
        auto e = edges[rng.below(edges.size())];
        Variable::removeEquivalence(vars[static_cast<size_t>(e.first)], vars[static_cast<size_t>(e.second)]);
    }
    std::string replay = "n=" + std::to_string(n) + " shape=" + std::to_string(shape) + " perComp=" + std::to_string(perComp) + " edges:";
    // ---- oracle from the public lists ----
    UF uf(static_cast<size_t>(n));
    std::map<const void *, int> index;
    for (int i = 0; i < n; ++i) {
        index[vars[static_cast<size_t>(i)].get()] = i;
    }
    int listed = 0;
    for (int i = 0; i < n; ++i) {
        auto v = vars[static_cast<size_t>(i)];
        for (size_t k = 0; k < v->equivalentVariableCount(); ++k) {
            auto w = v->equivalentVariable(k);
            if (w != nullptr && index.count(w.get()) != 0U) {
                uf.unite(i, index[w.get()]);
                replay += " " + std::to_string(i) + "-" + std::to_string(index[w.get()]);
                ++listed;
            }
        }
    }
    // ---- an AnalyserModel to query ----
    auto analyser = Analyser::create();
    analyser->analyseModel(model);
    monitorLogger(*analyser, "Analyser::analyseModel", replay);
    auto am = analyser->model();
    if (am == nullptr) {
        viol("C18", "no-analyser-model", "Analyser::model() is null after analyseModel", replay);
        caseInfo("", false);
        return;
    }
    // query all pairs in three orders, each twice
    std::vector<std::pair<int, int>> pairs;
    for (int i = 0; i < n; ++i) {
        for (int j = 0; j < n; ++j) {
            pairs.emplace_back(i, j);
        }
    }
    int64_t queries = 0;
    for (int order = 0; order < 3; ++order) {
        std::vector<std::pair<int, int>> seq = pairs;
        if (order == 1) {
            std::reverse(seq.begin(), seq.end());
        } else if (order == 2) {
            rng.shuffle(seq);
        }
        for (int rep = 0; rep < 2; ++rep) {
            for (const auto &pr : seq) {
                auto a = vars[static_cast<size_t>(pr.first)];
                auto b = vars[static_cast<size_t>(pr.second)];
                bool want = uf.find(pr.first) == uf.find(pr.second);
                ++queries;
                bool got = am->areEquivalentVariables(a, b);
                if (got != want) {
                    viol("C18", std::string("areEquivalentVariables-wrong:") + (want ? "false-negative" : "false-positive") + ":order" + std::to_string(order) + (rep != 0 ? ":repeat" : ""),
                         "pair (" + std::to_string(pr.first) + "," + std::to_string(pr.second) + ") expected " + std::to_string(want), replay);
                }
                if (pr.first != pr.second) {
                    bool got2 = a->hasEquivalentVariable(b, true);
                    if (got2 != want) {
                        viol("C18", std::string("hasEquivalentVariable-wrong:") + (want ? "false-negative" : "false-positive"),
                             "pair (" + std::to_string(pr.first) + "," + std::to_string(pr.second) + ") expected " + std::to_string(want), replay);
                    }
                    // direct equivalence flag agrees with the lists
                    bool direct = false;
                    for (size_t k = 0; k < a->equivalentVariableCount(); ++k) {
                        direct = direct || a->equivalentVariable(k) == b;
                    }
                    if (a->hasEquivalentVariable(b, false) != direct) {
                        viol("C18", "hasEquivalentVariable-direct-wrong", "", replay);
                    }
                }
            }
        }
    }
    // (what the hook saw so far is reported now: after the edit the same pair may legitimately get another answer)
    for (const auto &p : gHookProblems) {
        viol("C18", "hook:" + p.substr(0, p.find('|')), p.substr(p.find('|') + 1), replay);
    }
    gHookProblems.clear();
    // ---- the graph changes: an edge NOT chosen with regard to who was queried last is removed (or one is added); every
    // query must follow, through Variable (at once) and through the AnalyserModel of a NEW analysis made with the same
    // analyser for the same model object
    if (rng.chance(0.5)) {
        std::vector<std::pair<int, int>> current;
        for (int i = 0; i < n; ++i) {
            auto v = vars[static_cast<size_t>(i)];
            for (size_t k = 0; k < v->equivalentVariableCount(); ++k) {
                auto w = v->equivalentVariable(k);
                if (w != nullptr && index.count(w.get()) != 0U && i < index[w.get()]) {
                    current.emplace_back(i, index[w.get()]);
                }
            }
        }
        std::string edit;
        if (!current.empty() && rng.chance(0.65)) {
            auto e = current[rng.below(current.size())];
            Variable::removeEquivalence(vars[static_cast<size_t>(e.first)], vars[static_cast<size_t>(e.second)]);
            edit = "removed " + std::to_string(e.first) + "-" + std::to_string(e.second);
        } else {
            int a = static_cast<int>(rng.below(static_cast<uint64_t>(n)));
            int b = static_cast<int>(rng.below(static_cast<uint64_t>(n)));
            if (a != b) {
                Variable::addEquivalence(vars[static_cast<size_t>(a)], vars[static_cast<size_t>(b)]);
                edit = "added " + std::to_string(a) + "-" + std::to_string(b);
            }
        }
        if (!edit.empty()) {
            UF uf2(static_cast<size_t>(n));
            for (int i = 0; i < n; ++i) {
                auto v = vars[static_cast<size_t>(i)];
                for (size_t k = 0; k < v->equivalentVariableCount(); ++k) {
                    auto w = v->equivalentVariable(k);
                    if (w != nullptr && index.count(w.get()) != 0U) {
                        uf2.unite(i, index[w.get()]);
                    }
                }
            }
            std::string replay2 = replay + " then " + edit;
            for (const auto &pr : pairs) {
                if (pr.first == pr.second) {
                    continue;
                }
                bool want = uf2.find(pr.first) == uf2.find(pr.second);
                ++queries;
                if (vars[static_cast<size_t>(pr.first)]->hasEquivalentVariable(vars[static_cast<size_t>(pr.second)], true) != want) {
                    viol("C18", std::string("hasEquivalentVariable-wrong-after-edit:") + (want ? "false-negative" : "false-positive"),
                         "pair (" + std::to_string(pr.first) + "," + std::to_string(pr.second) + ") expected " + std::to_string(want) + " after: " + edit, replay2);
                    break;
                }
            }
            gFirstResult.clear(); // a new graph and a new AnalyserModel: first results are taken afresh
            analyser->analyseModel(model);
            monitorLogger(*analyser, "Analyser::analyseModel(again)", replay2);
            auto am2 = analyser->model();
            if (am2 != nullptr) {
                for (const auto &pr : pairs) {
                    bool want = uf2.find(pr.first) == uf2.find(pr.second);
                    ++queries;
                    if (am2->areEquivalentVariables(vars[static_cast<size_t>(pr.first)], vars[static_cast<size_t>(pr.second)]) != want) {
                        viol("C18", std::string("areEquivalentVariables-wrong-after-reanalysis:") + (want ? "false-negative" : "false-positive"),
                             "pair (" + std::to_string(pr.first) + "," + std::to_string(pr.second) + ") expected " + std::to_string(want) + " after: " + edit + " and a second analyseModel() with the same analyser", replay2);
                        break;
                    }
                }
            }
            stat("graphs_edited_and_requeried");
        }
    }
    for (const auto &p : gHookProblems) {
        viol("C18", "hook:" + p.substr(0, p.find('|')), p.substr(p.find('|') + 1), replay);
    }
    stat("queries", queries);
    stat("hook_trace_events", gTraceEvents);
    stat("hook_cache_hits", gTraceHits);
    stat("distinct_keys_seen", static_cast<int64_t>(gKeyOwner.size()));
    gTraceEvents = 0;
    gTraceHits = 0;
    int classes = 0;
    for (int i = 0; i < n; ++i) {
        classes += uf.find(i) == i ? 1 : 0;
    }
    caseInfo(hex64(fnv1a(replay)), listed > 0 && classes > 1, replay.substr(0, 300) + " classes=" + std::to_string(classes));
    verifSetEquivalenceCacheTrace(nullptr);
}
