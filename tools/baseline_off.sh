#!/bin/bash
# Runs the repository's own test suite with the verification guard OFF (the normal /repo/_build configuration)
# and compares per-test results with BASELINE.json's stable_pass list.
set -u
BUILD=${1:-/repo/_build}
OUT=$(mktemp -d /verif/.cache/baseline.XXXXXX 2>/dev/null || mktemp -d)
cmake --build "$BUILD" -j"$(nproc)" > "$OUT/build.log" 2>&1 || { tail -50 "$OUT/build.log"; echo "BASELINE BUILD FAILED"; exit 1; }
ctest --test-dir "$BUILD" -j8 --timeout 900 --output-junit "$OUT/junit.xml" > "$OUT/ctest.log" 2>&1
python3 - "$OUT" "$BUILD" <<'PY'
import json, os, re, subprocess, sys, glob
out, build = sys.argv[1], sys.argv[2]
base = json.load(open('/root/.vp/BASELINE.json'))
want = set(base['stable_pass'])
# per-gtest results: run every test binary with --gtest_output=json
passed = set()
failed = set()
bins = sorted(glob.glob(os.path.join(build, 'tests', 'test_*')))
for b in bins:
    if not os.access(b, os.X_OK) or os.path.isdir(b):
        continue
    j = os.path.join(out, os.path.basename(b) + '.json')
    subprocess.run([b, '--gtest_output=json:' + j], stdout=subprocess.DEVNULL, stderr=subprocess.DEVNULL, cwd=os.path.dirname(b))
    if not os.path.exists(j):
        continue
    d = json.load(open(j))
    for suite in d.get('testsuites', []):
        for t in suite.get('testsuite', []):
            name = suite['name'] + '::' + t['name']
            (failed if t.get('failures') else passed).add(name)
# ctest-level names (e.g. entities_unit_test_math::entities_unit_test_math)
try:
    import xml.etree.ElementTree as ET
    for tc in ET.parse(os.path.join(out, 'junit.xml')).getroot().iter('testcase'):
        n = tc.get('name')
        name = n + '::' + n
        if tc.find('failure') is None and tc.get('status') in (None, 'run'):
            passed.add(name)
        else:
            failed.add(name)
except Exception as e:
    print('junit parse problem:', e)
missing = sorted(t for t in want if t not in passed)
print('baseline stable_pass=%d passed_now=%d regressions=%d' % (len(want), len(want & passed), len(missing)))
for m in missing[:50]:
    print('REGRESSION', m)
sys.exit(1 if missing else 0)
PY
rc=$?
rm -rf "$OUT"
exit $rc
