// C03: generated code computes what the model's equations say (C and Python profiles).
// Oracle: reference evaluator (value + propagated error bound, undecidable samples discarded) over the generator's own
// expression trees and unit-scaling semantics; generated C is compiled (gcc -std=c99, ASan+UBSan) and run, generated
// Python is executed; every entry of states/rates/variables is compared at three (voi, states) points.
#include "semjudge.h"
#include "vh.h"

#include <algorithm>
#include <cmath>
#include <sys/stat.h>
#include <unistd.h>

using namespace vh;

static const int kEqPerModel = 36;

struct Shape
{
    int parent;   // index into valueOps
    int child;    // index into valueOps or -1 (leaf only)
    int pos;
    int arity;
    bool zero = false; // one operand of the child is the literal 0 (logical parents: !(a*b) vs (!a)*b differ only then)
};

static std::vector<Shape> allShapes()
{
    std::vector<Shape> s;
    const auto &ops = valueOps();
    for (size_t p = 0; p < ops.size(); ++p) {
        std::vector<int> arities;
        if (ops[p].op == Op::PIECEWISE) {
            arities = {3}; // value, condition, otherwise
        } else if (ops[p].maxArity < 0) {
            arities = {ops[p].minArity, 3};
        } else {
            for (int a = ops[p].minArity; a <= ops[p].maxArity; ++a) {
                arities.push_back(a);
            }
        }
        for (int ar : arities) {
            for (int pos = 0; pos < ar; ++pos) {
                for (int c = -1; c < static_cast<int>(ops.size()); ++c) {
                    s.push_back({static_cast<int>(p), c, pos, ar});
                    // an arithmetic child of a logical operator, once more with a zero among its operands
                    bool logical = ops[p].op == Op::NOT || ops[p].op == Op::AND || ops[p].op == Op::OR || ops[p].op == Op::XOR;
                    if (logical && c >= 0 && !ops[static_cast<size_t>(c)].boolean && ops[static_cast<size_t>(c)].op != Op::PIECEWISE) {
                        Shape z {static_cast<int>(p), c, pos, ar};
                        z.zero = true;
                        s.push_back(z);
                    }
                }
            }
        }
    }
    return s;
}

static int64_t shapeModels()
{
    return static_cast<int64_t>((allShapes().size() + kEqPerModel - 1) / kEqPerModel);
}

static int64_t scaledModels();

int64_t vh_case_count(const std::string &tier, uint64_t)
{
    // quick: all shape models + half of the converted-operand models + systems; thorough: + random trees, all converted-operand models twice, more systems
    if (tier == "thorough") {
        return shapeModels() + 600 + 2 * scaledModels() + 2500;
    }
    return shapeModels() + (scaledModels() + 1) / 2 + 150;
}

// ---------- layer 1: expression shapes in one dimensionless component ----------
struct L1Leaves
{
    // quantity indices of the fixed layer-1 model: 0 = t (VOI), 1,2 = states, 3..5 constants
    std::vector<double> consts = {1.75, 0.6, 3.0};
};

static ExprP leafExpr(Rng &rng, bool wantBool)
{
    if (wantBool) {
        static const std::vector<Op> rel = {Op::LT, Op::GT, Op::LEQ, Op::GEQ, Op::NEQ, Op::EQ};
        auto a = mkCi("", static_cast<int>(rng.below(6)));
        auto b = rng.chance(0.5) ? mkCi("", static_cast<int>(rng.below(6))) : mkCnD(rng.pick(std::vector<double>{0.5, 1.0, 2.0, 1.5}));
        return mkOp(rng.pick(rel), {a, b});
    }
    if (rng.chance(0.75)) {
        return mkCi("", static_cast<int>(rng.below(6)));
    }
    // (a zero now and then: !(a*b) and (!a)*b, or a && b and a * b, only differ when an operand is zero)
    return mkCnD(rng.pick(std::vector<double>{0.5, 2.0, 1.5, 3.0, 0.25, 1.2, 0.8, 4.0, 0.0, 0.0}));
}

static bool wantsBoolKids(Op op)
{
    return op == Op::AND || op == Op::OR || op == Op::XOR || op == Op::NOT;
}

static ExprP buildOp(Rng &rng, const OpInfo &oi, int arity, int childPos, const ExprP &childExpr)
{
    auto e = mkOp(oi.op, {});
    e->hasQualifier = oi.qualifier;
    if (oi.op == Op::PIECEWISE) {
        // kids: value, condition, otherwise ; position 0 = value, 1 = condition, 2 = otherwise
        e->hasOtherwise = true;
        for (int i = 0; i < 3; ++i) {
            if (i == childPos && childExpr != nullptr) {
                e->kids.push_back(childExpr);
            } else {
                e->kids.push_back(leafExpr(rng, i == 1));
            }
        }
        return e;
    }
    for (int i = 0; i < arity; ++i) {
        if (i == childPos && childExpr != nullptr) {
            e->kids.push_back(childExpr);
        } else {
            e->kids.push_back(leafExpr(rng, wantsBoolKids(oi.op)));
        }
    }
    return e;
}

static ExprP buildShape(Rng &rng, const Shape &sh)
{
    const auto &ops = valueOps();
    ExprP child;
    if (sh.child >= 0) {
        const auto &ci = ops[static_cast<size_t>(sh.child)];
        int ar = ci.op == Op::PIECEWISE ? 3 : (ci.maxArity < 0 ? (rng.chance(0.5) ? ci.minArity : 3) : rng.range(ci.minArity, ci.maxArity));
        child = buildOp(rng, ci, ar, -1, nullptr);
        if (sh.zero && !child->kids.empty()) {
            child->kids[rng.below(child->kids.size())] = mkCnD(0.0);
        }
    }
    return buildOp(rng, ops[static_cast<size_t>(sh.parent)], sh.arity, sh.pos, child);
}

static std::string shapeName(const Shape &sh)
{
    const auto &ops = valueOps();
    const auto &p = ops[static_cast<size_t>(sh.parent)];
    std::string s = std::string(opName(p.op)) + (p.qualifier ? "^q" : "") + "/" + std::to_string(sh.arity);
    if (sh.child >= 0) {
        const auto &c = ops[static_cast<size_t>(sh.child)];
        s += "(" + std::string(opName(c.op)) + (c.qualifier ? "^q" : "") + "@" + std::to_string(sh.pos) + (sh.zero ? ",zero-operand" : "") + ")";
    } else {
        s += "(leaf@" + std::to_string(sh.pos) + ")";
    }
    return s;
}

// every (parent, child, position) pair contained in a tree
static void pairsIn(const ExprP &e, std::vector<std::string> &out)
{
    if (e == nullptr) {
        return;
    }
    for (size_t i = 0; i < e->kids.size(); ++i) {
        const auto &k = e->kids[i];
        if (k->op != Op::CI && k->op != Op::CN) {
            out.push_back(std::string(opName(e->op)) + "(" + opName(k->op) + "@" + std::to_string(i) + ")");
        }
        pairsIn(k, out);
    }
}

struct Points
{
    std::vector<double> voi = {0.0, 0.7, 2.3};
    std::vector<std::vector<double>> states = {{1.3, 0.45}, {2.1, 0.8}, {0.35, 1.9}};
};

static SemModel layer1Model(const std::vector<ExprP> &exprs)
{
    SemModel m;
    m.ncomp = 1;
    m.compParent = {-1};
    auto add = [&](QKind k, const std::string &name, double init) {
        Quantity q;
        q.kind = k;
        SemInstance in;
        in.comp = 0;
        in.name = name;
        in.units = "dimensionless";
        q.inst.push_back(in);
        q.init = init;
        m.q.push_back(q);
        return static_cast<int>(m.q.size()) - 1;
    };
    m.voi = add(QKind::VOI, "t", 0.0);
    Points pts;
    add(QKind::STATE, "s1", pts.states[0][0]);
    add(QKind::STATE, "s2", pts.states[0][1]);
    L1Leaves lv;
    add(QKind::CONSTANT, "k1", lv.consts[0]);
    add(QKind::CONSTANT, "k2", lv.consts[1]);
    add(QKind::CONSTANT, "k3", lv.consts[2]);
    m.q[1].def = mkCnD(1.0);
    m.q[2].def = mkCnD(0.5);
    m.order = {1, 2};
    for (size_t i = 0; i < exprs.size(); ++i) {
        // does it depend on t / states?
        std::function<bool(const ExprP &)> dyn = [&](const ExprP &e) {
            if (e->op == Op::CI) {
                return e->quantity <= 2;
            }
            for (const auto &k : e->kids) {
                if (dyn(k)) {
                    return true;
                }
            }
            return false;
        };
        int qi = add(dyn(exprs[i]) ? QKind::ALGEBRAIC : QKind::COMPUTED_CONSTANT, "y" + std::to_string(i), 0.0);
        m.q[static_cast<size_t>(qi)].def = exprs[i];
        m.order.push_back(qi);
    }
    return m;
}

// parse + validate, then the shared judge (harness/lib/semjudge)
static void judge(Ctx &ctx, const SemModel &m, const std::vector<std::string> &labels, const std::vector<SemPoint> &points, const std::string &caseTag, Judged &jd)
{
    IrModel ir = semToIr(m);
    WriteStyle ws;
    std::string text = writeCellml2(ir, ws);
    auto parser = Parser::create(true);
    auto model = parser->parseModel(text);
    if (model == nullptr || parser->issueCount() != 0) {
        viol("C03", "harness:generated-model-not-parsed", issueSummary(*parser), text);
        return;
    }
    auto validator = Validator::create();
    validator->validateModel(model);
    if (validator->issueCount() != 0) {
        viol("C04", "valid-by-construction-rejected:sem:" + rejectionKey(*validator), issueSummary(*validator), text);
        return;
    }
    judgeModel(ctx, "C03", m, model, text, labels, points, caseTag, jd);
}

static void runShapes(Ctx &ctx, int64_t modelIndex, bool randomTrees)
{
    Rng &rng = ctx.rng;
    auto shapes = allShapes();
    std::vector<ExprP> exprs;
    std::vector<std::string> names;
    Points pts;
    std::vector<SemPoint> points;
    for (size_t p = 0; p < 3; ++p) {
        SemPoint sp;
        sp.voi = pts.voi[p];
        sp.stateValues = pts.states[p];
        points.push_back(sp);
    }
    L1Leaves lv;
    auto leafVal = [&](size_t p) {
        return [&, p](const Expr &leaf) -> Val {
            switch (leaf.quantity) {
            case 0: return Val::exact(pts.voi[p]);
            case 1: return Val::exact(pts.states[p][0]);
            case 2: return Val::exact(pts.states[p][1]);
            default: return Val::exact(lv.consts[static_cast<size_t>(leaf.quantity - 3)]);
            }
        };
    };
    int discarded = 0;
    for (int k = 0; k < kEqPerModel; ++k) {
        size_t si = static_cast<size_t>(modelIndex) * kEqPerModel + static_cast<size_t>(k);
        if (!randomTrees && si >= shapes.size()) {
            break;
        }
        ExprP e;
        bool ok = false;
        for (int attempt = 0; attempt < 60 && !ok; ++attempt) {
            if (randomTrees) {
                // random tree of depth 3-4 built from the same pieces
                std::function<ExprP(int, bool)> tree = [&](int d, bool wantBool) -> ExprP {
                    if (d <= 0) {
                        return leafExpr(rng, wantBool);
                    }
                    const auto &ops = valueOps();
                    for (int t = 0; t < 30; ++t) {
                        const auto &oi = ops[rng.below(ops.size())];
                        if (oi.boolean != wantBool) {
                            continue;
                        }
                        auto x = mkOp(oi.op, {});
                        x->hasQualifier = oi.qualifier;
                        if (oi.op == Op::PIECEWISE) {
                            x->hasOtherwise = true;
                            x->kids = {tree(d - 1, false), tree(d - 1, true), tree(d - 1, false)};
                            return x;
                        }
                        int n = oi.maxArity < 0 ? rng.range(oi.minArity, 3) : rng.range(oi.minArity, oi.maxArity);
                        for (int i = 0; i < n; ++i) {
                            x->kids.push_back(tree(d - 1 - (rng.chance(0.3) ? 1 : 0), wantsBoolKids(oi.op)));
                        }
                        return x;
                    }
                    return leafExpr(rng, wantBool);
                };
                e = tree(rng.range(3, 4), rng.chance(0.15));
            } else {
                e = buildShape(rng, shapes[si]);
            }
            ok = true;
            for (size_t p = 0; p < 3 && ok; ++p) {
                ok = evalExpr(e, leafVal(p)).ok;
            }
        }
        if (!ok) {
            ++discarded;
            if (!randomTrees) {
                seen("discarded_shape", shapeName(shapes[si]));
            }
            continue;
        }
        exprs.push_back(e);
        if (randomTrees) {
            std::vector<std::string> prs;
            pairsIn(e, prs);
            std::string nm = "tree[";
            for (size_t i = 0; i < prs.size() && i < 6; ++i) {
                nm += (i != 0U ? "," : "") + prs[i];
            }
            names.push_back(nm + "]");
        } else {
            names.push_back("shape:" + shapeName(shapes[si]));
            seen("shape_parent", opName(valueOps()[static_cast<size_t>(shapes[si].parent)].op));
        }
    }
    stat("shapes_discarded_undecidable", discarded);
    stat("equations_generated", static_cast<int64_t>(exprs.size()));
    if (exprs.empty()) {
        caseInfo("", false);
        return;
    }
    SemModel m = layer1Model(exprs);
    std::vector<std::string> labels(m.q.size());
    for (size_t i = 0; i < exprs.size(); ++i) {
        labels[6 + i] = names[i];
    }
    Judged jd;
    judge(ctx, m, labels, points, std::string(randomTrees ? "trees" : "shapes") + " model " + std::to_string(modelIndex), jd);
    stat("values_compared", jd.compared);
    stat("values_undecidable", jd.undecidable);
    caseInfo(std::string(randomTrees ? "T" : "S") + std::to_string(modelIndex) + "_" + hex64(fnv1a(exprToString(exprs[0]))), jd.compared > 0,
             names[0] + " := " + exprToString(exprs[0]) + " (+" + std::to_string(exprs.size() - 1) + " more equations)");
}

// ---------- layer 3: which operand of which operator is a variable read through a units conversion ----------
// Two sibling components.  "home" owns the variable of integration, a state and five constants; "user" reads each of
// them through a connection in differently scaled units (second -> millisecond, volt -> millivolt / kilovolt, compound
// user units built from two scaled user units, dimensionless multiples) and owns two plain constants.  Every equation
// of "user" is one operator applied to operands of which a chosen one (or all) is such a converted variable: operator x
// arity (n-ary: 2..4) x position, so a conversion applied to the wrong node of the tree changes a compared value.
struct ScaledSource
{
    const char *name;
    QKind kind;
    const char *homeUnits;
    double homeScale;
    const char *userUnits;
    double userScale;
    double userValue; // the number the "user" component should see (moderate, so every operator stays in its domain)
};
static const std::vector<ScaledSource> &scaledSources()
{
    static const std::vector<ScaledSource> v = {
        {"t", QKind::VOI, "second", 1.0, "millisecond", 1e-3, 0.0},
        {"S", QKind::STATE, "volt", 1.0, "millivolt", 1e-3, 0.45},
        {"A", QKind::CONSTANT, "volt", 1.0, "kilovolt", 1e3, 0.6},
        {"B", QKind::CONSTANT, "decivolt", 0.1, "millivolt", 1e-3, 3.0},
        {"C", QKind::CONSTANT, "millivolt_per_minute", 1e-3 / 60.0, "kilovolt_per_millisecond", 1e6, 1.75},
        {"D", QKind::CONSTANT, "kilovolt_per_second", 1e3, "millivolt_per_millisecond", 1.0, 1.2},
        {"W", QKind::CONSTANT, "kilo_dimensionless", 1000.0, "percent_like", 0.01, 2.5}};
    return v;
}
static const int kScaledLocal = 7; // quantity index of the first plain "user" constant (p), then q
static const int kEqPerScaledModel = 6; // small models: a crash on one shape hides few others

struct ScaledShape
{
    int op;
    int arity;
    int pos; // -1: every operand is a converted variable
};
static std::vector<ScaledShape> allScaledShapes()
{
    std::vector<ScaledShape> s;
    const auto &ops = valueOps();
    // no operator at all: y = X, the right-hand side is the converted variable itself (six times: several sources)
    for (int i = 0; i < 6; ++i) {
        s.push_back({-1, 1, 0});
    }
    for (size_t p = 0; p < ops.size(); ++p) {
        std::vector<int> arities;
        if (ops[p].op == Op::PIECEWISE) {
            arities = {3};
        } else if (ops[p].maxArity < 0) {
            arities = {std::max(2, ops[p].minArity), 3, 4};
        } else {
            for (int a = std::max(1, ops[p].minArity); a <= ops[p].maxArity; ++a) {
                arities.push_back(a);
            }
        }
        for (int ar : arities) {
            for (int pos = (ar >= 2 ? -1 : 0); pos < ar; ++pos) {
                s.push_back({static_cast<int>(p), ar, pos});
            }
        }
    }
    return s;
}
static int64_t scaledModels()
{
    return static_cast<int64_t>((allScaledShapes().size() + kEqPerScaledModel - 1) / kEqPerScaledModel);
}

static void runScaledPositions(Ctx &ctx, int64_t modelIndex)
{
    Rng &rng = ctx.rng;
    const auto &src = scaledSources();
    const auto &ops = valueOps();
    auto shapes = allScaledShapes();
    const std::vector<double> tUser = {0.0, 0.7, 2.3};
    const std::vector<double> sUser = {0.45, 0.8, 1.9};
    const std::vector<double> locals = {1.75, 0.6};
    SemModel m;
    m.ncomp = 2;
    m.compParent = {-1, -1};
    for (const auto &sc : src) {
        Quantity q;
        q.kind = sc.kind;
        SemInstance h;
        h.comp = 0;
        h.name = std::string(sc.name) + "_home";
        h.units = sc.homeUnits;
        h.scale = sc.homeScale;
        SemInstance u;
        u.comp = 1;
        u.name = sc.name;
        u.units = sc.userUnits;
        u.scale = sc.userScale;
        q.inst = {h, u};
        q.init = sc.userValue * sc.userScale / sc.homeScale;
        if (sc.kind == QKind::STATE) {
            q.def = mkCnD(1.0);
        }
        m.q.push_back(q);
    }
    m.voi = 0;
    m.order = {1};
    for (size_t i = 0; i < locals.size(); ++i) {
        Quantity q;
        q.kind = QKind::CONSTANT;
        SemInstance h;
        h.comp = 1;
        h.name = i == 0 ? "p" : "q";
        h.units = "dimensionless";
        q.inst = {h};
        q.init = locals[i];
        m.q.push_back(q);
    }
    std::vector<SemPoint> points;
    for (size_t p = 0; p < 3; ++p) {
        SemPoint sp;
        sp.voi = tUser[p] * 1e-3;
        sp.stateValues = {sUser[p] * 1e-3};
        points.push_back(sp);
    }
    m.q[1].init = points[0].stateValues[0];
    // the numbers "user" sees, for the validity pre-check of candidate expressions
    auto leafVal = [&](size_t p) {
        return [&, p](const Expr &leaf) -> Val {
            if (leaf.quantity == 0) {
                return Val::exact(tUser[p]);
            }
            if (leaf.quantity == 1) {
                return Val::exact(sUser[p]);
            }
            if (leaf.quantity < kScaledLocal) {
                return Val::exact(src[static_cast<size_t>(leaf.quantity)].userValue);
            }
            return Val::exact(locals[static_cast<size_t>(leaf.quantity - kScaledLocal)]);
        };
    };
    std::vector<std::string> labels;
    std::vector<ExprP> exprs;
    int discarded = 0;
    for (int k = 0; k < kEqPerScaledModel; ++k) {
        size_t si = static_cast<size_t>(modelIndex) * kEqPerScaledModel + static_cast<size_t>(k);
        if (si >= shapes.size()) {
            break;
        }
        const auto &sh = shapes[si];
        static const OpInfo identity = {Op::PLUS, 1, 1, false, false};
        const auto &oi = sh.op < 0 ? identity : ops[static_cast<size_t>(sh.op)];
        bool boolKids = sh.op >= 0 && wantsBoolKids(oi.op);
        ExprP e;
        bool ok = false;
        std::string usedSrc;
        for (int attempt = 0; attempt < 80 && !ok; ++attempt) {
            usedSrc.clear();
            auto converted = [&](bool wantBool) -> ExprP {
                int s = static_cast<int>(rng.below(src.size()));
                usedSrc += src[static_cast<size_t>(s)].name;
                auto c = mkCi("", s);
                if (!wantBool) {
                    return c;
                }
                static const std::vector<Op> rel = {Op::LT, Op::GT, Op::LEQ, Op::GEQ, Op::NEQ};
                auto other = rng.chance(0.5) ? mkCi("", kScaledLocal + static_cast<int>(rng.below(2))) : mkCnD(rng.pick(std::vector<double>{0.5, 1.0, 2.0, 1.5}));
                return rng.chance(0.5) ? mkOp(rng.pick(rel), {c, other}) : mkOp(rng.pick(rel), {other, c});
            };
            auto plain = [&](bool wantBool) -> ExprP {
                auto a = rng.chance(0.6) ? mkCi("", kScaledLocal + static_cast<int>(rng.below(2))) : mkCnD(rng.pick(std::vector<double>{0.5, 2.0, 1.5, 3.0, 0.25, 1.2, 0.8, 4.0}));
                if (!wantBool) {
                    return a;
                }
                static const std::vector<Op> rel = {Op::LT, Op::GT, Op::LEQ, Op::GEQ, Op::NEQ};
                return mkOp(rng.pick(rel), {a, mkCnD(rng.pick(std::vector<double>{0.5, 1.0, 2.0, 1.5}))});
            };
            if (sh.op < 0) {
                e = converted(false);
            } else {
                e = mkOp(oi.op, {});
                e->hasQualifier = oi.qualifier;
                if (oi.op == Op::PIECEWISE) {
                    e->hasOtherwise = true;
                }
                for (int i = 0; i < sh.arity; ++i) {
                    bool wb = oi.op == Op::PIECEWISE ? i == 1 : boolKids;
                    e->kids.push_back((sh.pos < 0 || i == sh.pos) ? converted(wb) : plain(wb));
                }
            }
            ok = true;
            for (size_t p = 0; p < 3 && ok; ++p) {
                ok = evalExpr(e, leafVal(p)).ok;
            }
        }
        if (!ok) {
            ++discarded;
            continue;
        }
        std::function<bool(const ExprP &)> dyn = [&](const ExprP &x) {
            if (x->op == Op::CI) {
                return x->quantity <= 1;
            }
            for (const auto &kk : x->kids) {
                if (dyn(kk)) {
                    return true;
                }
            }
            return false;
        };
        Quantity y;
        y.kind = dyn(e) ? QKind::ALGEBRAIC : QKind::COMPUTED_CONSTANT;
        SemInstance h;
        h.comp = 1;
        h.name = "y" + std::to_string(exprs.size());
        h.units = "dimensionless";
        y.inst = {h};
        y.def = e;
        m.q.push_back(y);
        m.order.push_back(static_cast<int>(m.q.size()) - 1);
        exprs.push_back(e);
        std::string nm = sh.op < 0 ? std::string("converted-operand:bare-variable") : std::string("converted-operand:") + opName(oi.op) + (oi.qualifier ? "^q" : "") + "/" + std::to_string(sh.arity) + "@" + (sh.pos < 0 ? std::string("all") : std::to_string(sh.pos));
        labels.push_back(nm);
        seen("converted_operand_shape", nm);
        seen("converted_operand_source", usedSrc.substr(0, 1));
    }
    stat("shapes_discarded_undecidable", discarded);
    stat("equations_generated", static_cast<int64_t>(exprs.size()));
    stat("converted_operand_equations", static_cast<int64_t>(exprs.size()));
    if (exprs.empty()) {
        caseInfo("", false);
        return;
    }
    std::vector<std::string> qlabels(m.q.size());
    for (size_t i = 0; i < exprs.size(); ++i) {
        qlabels[static_cast<size_t>(kScaledLocal) + 2 + i] = labels[i];
    }
    qlabels[1] = "state+scaled-copies";
    Judged jd;
    judge(ctx, m, qlabels, points, "converted-operands model " + std::to_string(modelIndex), jd);
    stat("values_compared", jd.compared);
    stat("values_undecidable", jd.undecidable);
    caseInfo("P" + std::to_string(modelIndex) + "_" + hex64(fnv1a(exprToString(exprs[0]))), jd.compared > 0,
             labels[0] + " := " + exprToString(exprs[0]) + " (+" + std::to_string(exprs.size() - 1) + " more equations)");
}

static void runSystem(Ctx &ctx)
{
    Rng &rng = ctx.rng;
    SemOptions so;
    so.maxComponents = rng.range(1, 5);
    so.constants = rng.range(1, 4);
    so.computedConstants = rng.range(0, 3);
    so.ode = rng.chance(0.75);
    so.states = rng.range(1, 3);
    so.algebraics = rng.range(0, 4);
    so.nla = rng.chance(0.3);
    so.nlaDense = true; // sparse / unguessed implicit systems are not analysable by this tree (C05 known findings)
    so.nlaSystems = so.nla && rng.chance(0.4) ? 2 : 1;
    so.nlaInterleave = so.nlaSystems == 2 && rng.chance(0.5);
    so.nlaGuess = true;
    so.scaledUnits = rng.chance(0.7);
    so.compoundUnits = so.scaledUnits && rng.chance(0.4);
    so.exprDepth = rng.range(1, 3);
    so.odeSelfRate = so.ode && rng.chance(0.05);
    SemModel m = generateSemModel(rng, so);
    std::vector<SemPoint> points;
    points.push_back(initialPoint(m));
    for (int p = 1; p < 3; ++p) {
        SemPoint pt = initialPoint(m);
        pt.voi = p == 1 ? 0.7 : 2.3;
        for (auto &s : pt.stateValues) {
            s = s * (p == 1 ? 1.3 : 0.6) + (p == 1 ? 0.21 : -0.17);
        }
        points.push_back(pt);
    }
    if (m.voi < 0) {
        points.resize(1);
    }
    std::vector<std::string> labels(m.q.size());
    bool scaled = false;
    for (size_t i = 0; i < m.q.size(); ++i) {
        const auto &q = m.q[i];
        std::string l = qkindName(q.kind);
        bool anyScaled = false;
        for (const auto &in : q.inst) {
            anyScaled = anyScaled || in.scale != q.inst[0].scale;
        }
        if (anyScaled) {
            l += "+scaled-copies";
            scaled = true;
        }
        if (q.kind == QKind::STATE && q.initByQuantity >= 0) {
            // the referenced variable is a copy of the constant in the state's component; is it scaled w.r.t. the constant's home?
            const auto &c = m.q[static_cast<size_t>(q.initByQuantity)];
            double sc = c.inst[0].scale;
            for (const auto &in : c.inst) {
                if (in.comp == q.inst[0].comp) {
                    sc = in.scale;
                }
            }
            l += sc != c.inst[0].scale ? "+init-by-constant-via-scaled-copy" : "+init-by-constant";
        }
        if (q.kind == QKind::STATE && q.defInst != 0) {
            l += "+ode-in-other-component";
        }
        if (q.lhsOnRight) {
            l += "+lhs-on-right";
        }
        if (so.odeSelfRate) {
            l += "+model-has-dx/dt=x";
        }
        labels[i] = l;
    }
    Judged jd;
    std::string tag = std::string(so.odeSelfRate ? "system+dx/dt=x " : "system ") + (m.voi >= 0 ? "ode" : "alg") + (m.nla.empty() ? "" : "+nla") + (scaled ? "+scaled" : "");
    judge(ctx, m, labels, points, tag, jd);
    stat("values_compared", jd.compared);
    stat("values_undecidable", jd.undecidable);
    stat("system_models");
    std::string desc = tag + " q=" + std::to_string(m.q.size()) + " comps=" + std::to_string(m.ncomp);
    std::string h;
    for (const auto &q : m.q) {
        h += qkindName(q.kind)[0];
        h += std::to_string(q.inst.size());
        h += q.def != nullptr ? exprToString(q.def).substr(0, 24) : "";
    }
    caseInfo("Y" + hex64(fnv1a(h)), jd.compared > 0 && m.q.size() >= 4, desc);
}

void vh_run_case(Ctx &ctx)
{
    int64_t nShapeModels = shapeModels();
    if (ctx.thorough()) {
        if (ctx.index < nShapeModels) {
            runShapes(ctx, ctx.index, false);
        } else if (ctx.index < nShapeModels + 600) {
            runShapes(ctx, ctx.index, true);
        } else if (ctx.index < nShapeModels + 600 + 2 * scaledModels()) {
            runScaledPositions(ctx, (ctx.index - nShapeModels - 600) % scaledModels());
        } else {
            runSystem(ctx);
        }
        return;
    }
    int64_t third = nShapeModels; // (named when the quick tier ran a third of the shape models; it runs all of them now)
    int64_t half = (scaledModels() + 1) / 2;
    if (ctx.index < third) {
        runShapes(ctx, ctx.index, false);
    } else if (ctx.index < third + half) {
        // a seed-chosen half of the converted-operand models
        // (model 0, the bare-variable equations, is always among them)
        runScaledPositions(ctx, ctx.index == third ? 0 : ((ctx.index - third) * 2 + static_cast<int64_t>(ctx.seed % 2)) % scaledModels());
    } else {
        runSystem(ctx);
    }
}
