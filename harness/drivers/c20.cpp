// C20: external variables turn unknowns into inputs without disturbing the rest.
// Oracle: analysis with and without external variables compared per class of connected variables (types and equation
// text outside the dependency cone must be identical); the semantic model with the marked quantities turned into inputs
// gives the reference values; the runner's callback returns planted values and logs the current values of the declared
// dependencies at every invocation.
#include "semjudge.h"
#include "vh.h"

#include <algorithm>

using namespace vh;

int64_t vh_case_count(const std::string &tier, uint64_t)
{
    return tier == "thorough" ? 8000 : 800;
}

static void leafQuantities(const ExprP &e, std::set<int> &out)
{
    if (e == nullptr) {
        return;
    }
    if (e->op == Op::CI && e->quantity >= 0) {
        out.insert(e->quantity);
    }
    for (const auto &k : e->kids) {
        leafQuantities(k, out);
    }
}

static int quantityOfVariable(const SemModel &m, const VariablePtr &v)
{
    auto c = std::dynamic_pointer_cast<Component>(v->parent());
    std::string cn = c != nullptr ? c->name() : "";
    for (size_t qi = 0; qi < m.q.size(); ++qi) {
        for (const auto &in : m.q[qi].inst) {
            if (in.name == v->name() && "comp" + std::to_string(in.comp) == cn) {
                return static_cast<int>(qi);
            }
        }
    }
    return -1;
}

struct ClassInfo
{
    std::string type;
    std::string equations; // generated text of the equations computing the class
    VariablePtr primary;
};

static std::map<int, ClassInfo> classify(const SemModel &m, const AnalyserModelPtr &am)
{
    std::map<int, ClassInfo> out;
    std::vector<AnalyserVariablePtr> all;
    if (am->voi() != nullptr) {
        all.push_back(am->voi());
    }
    for (const auto &s : am->states()) {
        all.push_back(s);
    }
    for (const auto &v : am->variables()) {
        all.push_back(v);
    }
    for (const auto &av : all) {
        int qi = quantityOfVariable(m, av->variable());
        if (qi < 0) {
            continue;
        }
        ClassInfo ci;
        ci.type = AnalyserVariable::typeAsString(av->type());
        ci.primary = av->variable();
        for (const auto &eq : av->equations()) {
            if (eq != nullptr) {
                ci.equations += AnalyserEquation::typeAsString(eq->type()) + ":" + (eq->ast() != nullptr ? Generator::equationCode(eq->ast()) : "<no ast>") + ";";
            }
        }
        out[qi] = ci;
    }
    return out;
}

void vh_run_case(Ctx &ctx)
{
    Rng &rng = ctx.rng;
    SemOptions so;
    so.maxComponents = rng.range(1, 4);
    so.constants = rng.range(2, 4);
    so.computedConstants = rng.range(1, 3);
    so.ode = rng.chance(0.8);
    so.states = rng.range(2, 3);
    so.algebraics = rng.range(1, 4);
    so.nla = false;
    so.scaledUnits = rng.chance(0.5);
    so.exprDepth = rng.range(1, 2);
    so.initByConstant = false;
    SemModel m = generateSemModel(rng, so);
    IrModel ir = semToIr(m);
    // Document order is not dependency order: in half of the cases that do not address equations by position the
    // equations of every component are written in reverse (readers before what they read), so that the order of the
    // generated code depends on the analyser having every dependency - declared ones included.
    if (ctx.index % 4 != 2 && ctx.rng.chance(0.5)) {
        for (auto &c : ir.comps) {
            for (auto &mm : c.math) {
                std::reverse(mm.begin(), mm.end());
            }
        }
        stat("models_with_reversed_equation_order");
    }
    std::string text = writeCellml2(ir, WriteStyle());
    auto model = Parser::create(true)->parseModel(text);
    if (model == nullptr) {
        caseInfo("", false);
        return;
    }
    // ---- analysis without externals
    auto an0 = Analyser::create();
    an0->analyseModel(model);
    auto am0 = an0->model();
    if (am0 == nullptr || !am0->isValid()) {
        stat("base_not_valid");
        caseInfo("", false);
        return;
    }
    auto base = classify(m, am0);

    // readers: who reads whom (direct)
    std::map<int, std::set<int>> readers;
    for (size_t qi = 0; qi < m.q.size(); ++qi) {
        std::set<int> r;
        leafQuantities(m.q[qi].def, r);
        for (int x : r) {
            readers[x].insert(static_cast<int>(qi));
        }
    }
    auto coneOf = [&](const std::set<int> &roots) {
        std::set<int> cone = roots;
        std::vector<int> todo(roots.begin(), roots.end());
        while (!todo.empty()) {
            int x = todo.back();
            todo.pop_back();
            for (int r : readers[x]) {
                if (cone.insert(r).second) {
                    todo.push_back(r);
                }
            }
        }
        return cone;
    };

    int scenario = static_cast<int>(ctx.index % 4); // 0,1: mark a subset; 2: under-constrained -> valid; 3: VOI / non-primary / foreign
    std::string replayBase = text;

    if (scenario == 3) {
        // ---------- markings that must be refused with a message and must not break the analysis ----------
        int which = rng.range(0, 2);
        auto an = Analyser::create();
        VariablePtr v;
        Issue::ReferenceRule wantRule = Issue::ReferenceRule::ANALYSER_EXTERNAL_VARIABLE_VOI;
        std::string what;
        if (which == 0 && am0->voi() != nullptr) {
            v = am0->voi()->variable();
            what = "voi";
        } else if (which == 1) {
            // a non-primary member of a class with several instances
            for (size_t qi = 0; qi < m.q.size() && v == nullptr; ++qi) {
                if (m.q[qi].inst.size() < 2 || base.count(static_cast<int>(qi)) == 0U || m.q[qi].kind == QKind::VOI) {
                    continue;
                }
                for (const auto &in : m.q[qi].inst) {
                    auto c = model->component("comp" + std::to_string(in.comp), true);
                    auto cand = c != nullptr ? c->variable(in.name) : nullptr;
                    if (cand != nullptr && cand != base[static_cast<int>(qi)].primary) {
                        v = cand;
                        break;
                    }
                }
            }
            wantRule = Issue::ReferenceRule::ANALYSER_EXTERNAL_VARIABLE_USE_PRIMARY_VARIABLE;
            what = "non-primary";
        }
        ModelPtr other; // stays alive until the end of the scenario
        if (v == nullptr) {
            // a variable of another model
            other = Parser::create(true)->parseModel(text);
            v = allVariables(other).front();
            wantRule = Issue::ReferenceRule::ANALYSER_EXTERNAL_VARIABLE_DIFFERENT_MODEL;
            what = "foreign";
        }
        an->addExternalVariable(AnalyserExternalVariable::create(v));
        stage("analyse with " + what + " marked external");
        an->analyseModel(model);
        monitorLogger(*an, "Analyser::analyseModel(externals)", replayBase);
        auto am = an->model();
        stat("refused_markings");
        seen("refused_marking", what);
        bool reported = false;
        for (size_t i = 0; i < an->issueCount(); ++i) {
            auto is = an->issue(i);
            reported = reported || (is->referenceRule() == wantRule && is->level() == Issue::Level::MESSAGE);
        }
        if (!reported) {
            viol("C20", "refused-marking-not-reported-with-message:" + what, issueSummary(*an), replayBase);
        }
        if (am == nullptr || !am->isValid()) {
            viol("C20", "refused-marking-breaks-analysis:" + what, std::string("type ") + (am != nullptr ? AnalyserModel::typeAsString(am->type()) : "null") + "\n" + issueSummary(*an), replayBase);
        } else if (what != "non-primary") {
            // nothing may change (for a non-primary member the library marks the class through its primary: not judged here)
            auto now = classify(m, am);
            for (const auto &kv : base) {
                if (now.count(kv.first) == 0U || now[kv.first].type != kv.second.type || now[kv.first].equations != kv.second.equations) {
                    std::string d = m.q[static_cast<size_t>(kv.first)].inst[0].name + ": " + kv.second.type + " [" + kv.second.equations + "] -> " + (now.count(kv.first) != 0U ? now[kv.first].type + " [" + now[kv.first].equations + "]" : "<absent>");
                    viol("C20", "refused-marking-changed-classification:" + what + ":" + kv.second.type + "->" + (now.count(kv.first) != 0U ? now[kv.first].type : "absent"), d, replayBase);
                    break;
                }
            }
        }
        caseInfo("R" + what + hex64(fnv1a(text)), true, "refused marking: " + what);
        return;
    }

    // ---------- choose the quantities to mark ----------
    std::vector<int> markable;
    auto states = stateQuantities(m);
    for (size_t qi = 0; qi < m.q.size(); ++qi) {
        auto k = m.q[qi].kind;
        if (k == QKind::VOI || k == QKind::NLA_UNKNOWN || base.count(static_cast<int>(qi)) == 0U) {
            continue;
        }
        markable.push_back(static_cast<int>(qi));
    }
    std::set<int> marked;
    SemModel m1 = m;
    IrModel ir1 = ir;
    std::string scen;
    if (scenario == 2) {
        // under-constrained model whose only unknown is marked external: delete the definition of a computed quantity
        // that something else reads
        std::vector<int> needed;
        for (size_t qi = 0; qi < m.q.size(); ++qi) {
            if ((m.q[qi].kind == QKind::COMPUTED_CONSTANT || m.q[qi].kind == QKind::ALGEBRAIC) && !readers[static_cast<int>(qi)].empty()) {
                needed.push_back(static_cast<int>(qi));
            }
        }
        if (needed.empty()) {
            caseInfo("", false);
            return;
        }
        int victim = rng.pick(needed);
        const auto &q = m.q[static_cast<size_t>(victim)];
        const auto &di = q.inst[static_cast<size_t>(q.defInst)];
        int at = 0;
        for (int qj = 0; qj < victim; ++qj) {
            const auto &qq = m.q[static_cast<size_t>(qj)];
            if (qq.def != nullptr && qq.inst[static_cast<size_t>(qq.defInst)].comp == di.comp) {
                ++at;
            }
        }
        auto &eqs = ir1.comps[static_cast<size_t>(di.comp)].math[0];
        eqs.erase(eqs.begin() + at);
        if (eqs.empty()) {
            ir1.comps[static_cast<size_t>(di.comp)].math.clear();
        }
        marked.insert(victim);
        scen = "underconstrained-made-valid";
    } else {
        int n = rng.range(1, 3);
        rng.shuffle(markable);
        for (int i = 0; i < n && i < static_cast<int>(markable.size()); ++i) {
            int qi = markable[static_cast<size_t>(i)];
            // keep at least one state
            if (m.q[static_cast<size_t>(qi)].kind == QKind::STATE) {
                int left = 0;
                for (int s : states) {
                    left += marked.count(s) == 0U && s != qi ? 1 : 0;
                }
                if (left == 0) {
                    continue;
                }
            }
            marked.insert(qi);
        }
        if (marked.empty()) {
            caseInfo("", false);
            return;
        }
        scen = "marked";
    }
    std::string text1 = writeCellml2(ir1, WriteStyle());
    auto model1 = Parser::create(true)->parseModel(text1);
    // primaries in model1: analyse once more without externals when the text is the same; for the under-constrained
    // variant the classes' primaries are looked up by name in the new model object
    auto an = Analyser::create();
    JudgeExternals je;
    je.analyser = an;
    auto cone = coneOf(marked);
    std::string markedDesc;
    for (int qi : marked) {
        const auto &q = m.q[static_cast<size_t>(qi)];
        VariablePtr prim = base[qi].primary;
        auto pc = std::dynamic_pointer_cast<Component>(prim->parent());
        auto c1 = model1->component(pc->name(), true);
        auto v1 = c1 != nullptr ? c1->variable(prim->name()) : nullptr;
        if (v1 == nullptr) {
            caseInfo("", false);
            return;
        }
        auto ev = AnalyserExternalVariable::create(v1);
        // declared dependencies: quantities outside the cone of everything marked (so they never need the external)
        std::vector<int> depCands;
        for (size_t dq = 0; dq < m.q.size(); ++dq) {
            auto k = m.q[dq].kind;
            if (cone.count(static_cast<int>(dq)) == 0U && k != QKind::VOI && base.count(static_cast<int>(dq)) != 0U) {
                depCands.push_back(static_cast<int>(dq));
            }
        }
        rng.shuffle(depCands);
        int nd = rng.range(0, 2);
        for (int i = 0; i < nd && i < static_cast<int>(depCands.size()); ++i) {
            int dq = depCands[static_cast<size_t>(i)];
            // the dependency may be named through ANY variable of its equivalence class (a connected copy in another
            // component), not only through the one the analyser ends up calling primary
            VariablePtr dp = base[dq].primary;
            std::string depComp = std::dynamic_pointer_cast<Component>(dp->parent())->name();
            std::string depVar = dp->name();
            const auto &insts = m.q[static_cast<size_t>(dq)].inst;
            if (insts.size() > 1 && rng.chance(0.6)) {
                const auto &in = insts[rng.below(insts.size())];
                depComp = "comp" + std::to_string(in.comp);
                depVar = in.name;
                if (depComp != std::dynamic_pointer_cast<Component>(dp->parent())->name()) {
                    stat("dependencies_named_through_a_copy");
                }
            }
            auto dc = model1->component(depComp, true);
            auto dv = dc != nullptr ? dc->variable(depVar) : nullptr;
            if (dv != nullptr && ev->addDependency(dv)) {
                je.deps[qi].push_back(dq);
                seen("dependency_kind", qkindName(m.q[static_cast<size_t>(dq)].kind));
            }
        }
        an->addExternalVariable(ev);
        markedDesc += std::string(qkindName(q.kind)) + "(" + q.inst[0].name + ",deps=" + std::to_string(je.deps[qi].size()) + ") ";
        seen("marked_kind", qkindName(q.kind));
        // the semantic model with this quantity turned into an input
        auto &q1 = m1.q[static_cast<size_t>(qi)];
        q1.kind = QKind::EXTERNAL;
        q1.def = nullptr;
        q1.initByQuantity = -1;
        q1.init = 0.37 + 0.113 * static_cast<double>(qi); // planted, unrelated to the equation (refined below)
    }
    // planted values must keep every reader inside its domain at every point: try a few candidate sets
    {
        static const std::vector<double> cands = {0.37, 0.61, 1.3, 0.15, 2.2, 0.85, 3.5, 0.05, 5.5, 0.45};
        bool found = false;
        for (size_t attempt = 0; attempt < 40 && !found; ++attempt) {
            size_t k = attempt;
            for (int qi : marked) {
                m1.q[static_cast<size_t>(qi)].init = cands[(k + static_cast<size_t>(qi)) % cands.size()] + 0.0113 * static_cast<double>(attempt);
                k += 3;
            }
            found = true;
            for (int probe = 0; probe < 3 && found; ++probe) {
                SemPoint pt = initialPoint(m1);
                if (probe > 0) {
                    pt.voi = probe == 1 ? 0.7 : 2.3;
                    for (auto &sv : pt.stateValues) {
                        sv = sv * (probe == 1 ? 1.3 : 0.6) + (probe == 1 ? 0.21 : -0.17);
                    }
                }
                SemEval ev = evaluateSem(m1, pt);
                for (size_t i = 0; i < m1.q.size(); ++i) {
                    if (m1.q[i].kind == QKind::COMPUTED_CONSTANT || m1.q[i].kind == QKind::ALGEBRAIC) {
                        found = found && ev.value[i].ok;
                    }
                    if (m1.q[i].kind == QKind::STATE) {
                        found = found && ev.rate[i].ok;
                    }
                }
            }
        }
        if (!found) {
            stat("no_decidable_planted_values");
            caseInfo("", false);
            return;
        }
    }
    std::string replay = "marked external: " + markedDesc + "\n" + text1;
    stage("analyse with externals: " + markedDesc);
    an->analyseModel(model1);
    monitorLogger(*an, "Analyser::analyseModel(externals)", replay);
    auto am1 = an->model();
    stat("analyses_with_externals");
    std::string kinds;
    for (int qi : marked) {
        kinds += qkindName(m.q[static_cast<size_t>(qi)].kind);
        kinds += "+";
    }
    if (am1 == nullptr || !am1->isValid()) {
        viol("C20", "externals-make-model-invalid:" + scen + ":" + kinds + (am1 != nullptr ? AnalyserModel::typeAsString(am1->type()) : "null"), issueSummary(*an), replay);
        caseInfo("X" + hex64(fnv1a(replay)), true, scen + " " + markedDesc + "-> invalid");
        return;
    }
    auto now = classify(m, am1);
    for (int qi : marked) {
        stat("marked_classes_checked");
        if (now.count(qi) == 0U) {
            viol("C20", std::string("marked-class-missing:") + qkindName(m.q[static_cast<size_t>(qi)].kind), m.q[static_cast<size_t>(qi)].inst[0].name, replay);
            continue;
        }
        if (now[qi].type != "external") {
            viol("C20", std::string("marked-class-not-external:") + qkindName(m.q[static_cast<size_t>(qi)].kind) + "->" + now[qi].type, m.q[static_cast<size_t>(qi)].inst[0].name, replay);
        }
        if (now[qi].equations.find("external:") == std::string::npos) {
            viol("C20", std::string("marked-class-without-placeholder-equation:") + qkindName(m.q[static_cast<size_t>(qi)].kind), now[qi].equations, replay);
        }
    }
    // everything outside the cone keeps type and equation
    for (const auto &kv : base) {
        if (cone.count(kv.first) != 0U) {
            continue;
        }
        stat("unaffected_classes_checked");
        if (now.count(kv.first) == 0U) {
            viol("C20", std::string("unaffected-class-missing:") + qkindName(m.q[static_cast<size_t>(kv.first)].kind), m.q[static_cast<size_t>(kv.first)].inst[0].name, replay);
            continue;
        }
        if (now[kv.first].type != kv.second.type) {
            viol("C20", std::string("unaffected-type-changed:") + kv.second.type + "->" + now[kv.first].type + ":marked-" + kinds, m.q[static_cast<size_t>(kv.first)].inst[0].name, replay);
        }
        if (now[kv.first].equations != kv.second.equations) {
            viol("C20", std::string("unaffected-equation-changed:") + kv.second.type + ":marked-" + kinds, m.q[static_cast<size_t>(kv.first)].inst[0].name + ": " + kv.second.equations + " -> " + now[kv.first].equations, replay);
        }
    }
    // ---- run the generated code
    std::vector<SemPoint> points;
    points.push_back(initialPoint(m1));
    bool ode = m1.voi >= 0 && !stateQuantities(m1).empty();
    for (int p = 1; p < 3 && ode; ++p) {
        SemPoint pt = initialPoint(m1);
        pt.voi = p == 1 ? 0.7 : 2.3;
        for (auto &s : pt.stateValues) {
            s = s * (p == 1 ? 1.3 : 0.6) + (p == 1 ? 0.21 : -0.17);
        }
        points.push_back(pt);
    }
    std::vector<std::string> labels(m1.q.size());
    for (size_t i = 0; i < m1.q.size(); ++i) {
        labels[i] = std::string(qkindName(m1.q[i].kind)) + ":marked-" + kinds + (m.q[i].kind != m1.q[i].kind ? std::string("was-") + qkindName(m.q[i].kind) : "");
    }
    Judged jd;
    judgeModel(ctx, "C20", m1, model1, replay, labels, points, "externals:" + scen + ":" + kinds + " ", jd, &je);
    stat("values_compared", jd.compared);
    caseInfo("X" + hex64(fnv1a(replay)), jd.compared > 0, scen + ": " + markedDesc);
}
