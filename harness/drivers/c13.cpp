// C13: identifier assignment is complete, unique and non-destructive.
// Oracle: the harness's own traversal of every id-bearing item (public getters only).
#include "gen.h"
#include "vh.h"

#include <algorithm>
#include <functional>
#include <libxml/parser.h>
#include <libxml/tree.h>

using namespace vh;

int64_t vh_case_count(const std::string &tier, uint64_t)
{
    return tier == "thorough" ? 40000 : 3000;
}

struct Slot
{
    CellmlElementType type;
    std::string where;                  // human readable location
    std::function<std::string()> get;
    std::function<void(const std::string &)> set;
    // identity of the carrying object for item(id) comparison
    const void *obj1 = nullptr;
    const void *obj2 = nullptr;
    size_t index = 0;                   // unit index
    // every distinct id stored for this item (a connection keeps one copy of its id per mapped variable pair, and the
    // copies may differ); empty => {get()}
    std::function<std::vector<std::string>()> allIds;
};

static bool inHierarchy(const ComponentPtr &c)
{
    return std::dynamic_pointer_cast<Model>(c->parent()) == nullptr || c->componentCount() > 0;
}

// Independent traversal.  `sharedImportOnce`: an ImportSource object is ONE item however many entities use it.
static std::vector<Slot> collect(const ModelPtr &m)
{
    std::vector<Slot> s;
    s.push_back({CellmlElementType::MODEL, "model", [m] { return m->id(); }, [m](const std::string &v) { m->setId(v); }, m.get()});
    bool hasEnc = false;
    for (const auto &c : allComponents(m)) {
        hasEnc = hasEnc || c->componentCount() > 0;
    }
    if (hasEnc || !m->encapsulationId().empty()) {
        s.push_back({CellmlElementType::ENCAPSULATION, "encapsulation", [m] { return m->encapsulationId(); }, [m](const std::string &v) { m->setEncapsulationId(v); }, m.get()});
    }
    std::vector<ImportSourcePtr> srcs;
    auto addSrc = [&](const ImportSourcePtr &is) {
        if (is != nullptr && std::find(srcs.begin(), srcs.end(), is) == srcs.end()) {
            srcs.push_back(is);
        }
    };
    for (size_t i = 0; i < m->unitsCount(); ++i) {
        auto u = m->units(i);
        s.push_back({CellmlElementType::UNITS, "units " + u->name(), [u] { return u->id(); }, [u](const std::string &v) { u->setId(v); }, u.get()});
        for (size_t k = 0; k < u->unitCount(); ++k) {
            s.push_back({CellmlElementType::UNIT, "unit " + u->name() + "[" + std::to_string(k) + "]", [u, k] { return u->unitId(k); }, [u, k](const std::string &v) { u->setUnitId(k, v); }, u.get(), nullptr, k});
        }
        if (u->isImport()) {
            addSrc(u->importSource());
        }
    }
    for (const auto &c : allComponents(m)) {
        if (c->isImport()) {
            addSrc(c->importSource());
        }
    }
    for (const auto &is : srcs) {
        s.push_back({CellmlElementType::IMPORT, "import " + is->url(), [is] { return is->id(); }, [is](const std::string &v) { is->setId(v); }, is.get()});
    }
    std::set<std::pair<const void *, const void *>> seenMap;
    std::set<std::tuple<const void *, const void *, std::string>> seenConn;
    for (const auto &c : allComponents(m)) {
        s.push_back({CellmlElementType::COMPONENT, "component " + c->name(), [c] { return c->id(); }, [c](const std::string &v) { c->setId(v); }, c.get()});
        if (inHierarchy(c) || !c->encapsulationId().empty()) {
            s.push_back({CellmlElementType::COMPONENT_REF, "component_ref " + c->name(), [c] { return c->encapsulationId(); }, [c](const std::string &v) { c->setEncapsulationId(v); }, c.get()});
        }
        for (size_t i = 0; i < c->variableCount(); ++i) {
            auto v = c->variable(i);
            s.push_back({CellmlElementType::VARIABLE, "variable " + variablePath(v), [v] { return v->id(); }, [v](const std::string &x) { v->setId(x); }, v.get()});
        }
        for (size_t i = 0; i < c->resetCount(); ++i) {
            auto r = c->reset(i);
            s.push_back({CellmlElementType::RESET, "reset " + c->name() + "[" + std::to_string(i) + "]", [r] { return r->id(); }, [r](const std::string &x) { r->setId(x); }, r.get()});
            s.push_back({CellmlElementType::TEST_VALUE, "test_value " + c->name() + "[" + std::to_string(i) + "]", [r] { return r->testValueId(); }, [r](const std::string &x) { r->setTestValueId(x); }, r.get()});
            s.push_back({CellmlElementType::RESET_VALUE, "reset_value " + c->name() + "[" + std::to_string(i) + "]", [r] { return r->resetValueId(); }, [r](const std::string &x) { r->setResetValueId(x); }, r.get()});
        }
    }
    for (const auto &v : allVariables(m)) {
        for (size_t e = 0; e < v->equivalentVariableCount(); ++e) {
            auto w = v->equivalentVariable(e);
            if (w == nullptr) {
                continue;
            }
            const void *a = std::min<const void *>(v.get(), w.get());
            const void *b = std::max<const void *>(v.get(), w.get());
            if (seenMap.insert({a, b}).second) {
                s.push_back({CellmlElementType::MAP_VARIABLES, "map " + variablePath(v) + "~" + variablePath(w), [v, w] { return Variable::equivalenceMappingId(v, w); }, [v, w](const std::string &x) { Variable::setEquivalenceMappingId(v, w, x); }, a, b});
            }
        }
    }
    // Connections: ONE item per unordered pair of components (a connection element), however many variable pairs it maps.
    // libCellML stores the connection id on every variable pair; the slot reads the first pair and writes all of them.
    std::map<std::pair<const void *, const void *>, std::vector<std::pair<VariablePtr, VariablePtr>>> conns;
    std::vector<std::pair<const void *, const void *>> connOrder;
    for (const auto &v : allVariables(m)) {
        for (size_t e = 0; e < v->equivalentVariableCount(); ++e) {
            auto w = v->equivalentVariable(e);
            if (w == nullptr || v->parent() == nullptr || w->parent() == nullptr) {
                continue;
            }
            const void *ca = std::min<const void *>(v->parent().get(), w->parent().get());
            const void *cb = std::max<const void *>(v->parent().get(), w->parent().get());
            auto key = std::make_pair(ca, cb);
            if (conns.find(key) == conns.end()) {
                connOrder.push_back(key);
            }
            conns[key].emplace_back(v, w);
        }
    }
    (void)seenConn;
    for (const auto &key : connOrder) {
        auto pairs = conns[key];
        auto first = pairs.front();
        s.push_back({CellmlElementType::CONNECTION, "connection " + componentPath(std::dynamic_pointer_cast<Component>(first.first->parent())) + "~" + componentPath(std::dynamic_pointer_cast<Component>(first.second->parent())),
                     [pairs] {
                         for (const auto &p : pairs) {
                             std::string id = Variable::equivalenceConnectionId(p.first, p.second);
                             if (!id.empty()) {
                                 return id;
                             }
                         }
                         return std::string();
                     },
                     [pairs](const std::string &x) {
                         for (const auto &p : pairs) {
                             Variable::setEquivalenceConnectionId(p.first, p.second, x);
                         }
                     },
                     key.first, key.second, 0,
                     [pairs] {
                         std::vector<std::string> out;
                         for (const auto &p : pairs) {
                             std::string id = Variable::equivalenceConnectionId(p.first, p.second);
                             if (!id.empty() && std::find(out.begin(), out.end(), id) == out.end()) {
                                 out.push_back(id);
                             }
                         }
                         return out;
                     }});
    }
    return s;
}

static std::map<std::string, int> idCounts(const std::vector<Slot> &slots)
{
    std::map<std::string, int> c;
    for (const auto &s : slots) {
        if (s.allIds) {
            for (const auto &id : s.allIds()) {
                ++c[id];
            }
            continue;
        }
        std::string id = s.get();
        if (!id.empty()) {
            ++c[id];
        }
    }
    return c;
}

static std::string typeName(CellmlElementType t)
{
    return cellmlElementTypeAsString(t);
}

static bool itemIsSlot(const AnyCellmlElementPtr &it, const Slot &s)
{
    if (it == nullptr || it->type() != s.type) {
        return false;
    }
    switch (s.type) {
    case CellmlElementType::MODEL:
    case CellmlElementType::ENCAPSULATION:
        return it->model().get() == s.obj1;
    case CellmlElementType::UNITS:
        return it->units().get() == s.obj1;
    case CellmlElementType::UNIT:
        return it->unitsItem() != nullptr && it->unitsItem()->units().get() == s.obj1 && it->unitsItem()->index() == s.index;
    case CellmlElementType::IMPORT:
        return it->importSource().get() == s.obj1;
    case CellmlElementType::COMPONENT:
    case CellmlElementType::COMPONENT_REF:
        return it->component().get() == s.obj1;
    case CellmlElementType::VARIABLE:
        return it->variable().get() == s.obj1;
    case CellmlElementType::RESET:
    case CellmlElementType::TEST_VALUE:
    case CellmlElementType::RESET_VALUE:
        return it->reset().get() == s.obj1;
    case CellmlElementType::MAP_VARIABLES: {
        auto p = it->variablePair();
        if (p == nullptr) {
            return false;
        }
        const void *a = std::min<const void *>(p->variable1().get(), p->variable2().get());
        const void *b = std::max<const void *>(p->variable1().get(), p->variable2().get());
        return a == s.obj1 && b == s.obj2;
    }
    case CellmlElementType::CONNECTION: {
        auto p = it->variablePair();
        if (p == nullptr || p->variable1() == nullptr || p->variable2() == nullptr) {
            return false;
        }
        const void *a = std::min<const void *>(p->variable1()->parent().get(), p->variable2()->parent().get());
        const void *b = std::max<const void *>(p->variable1()->parent().get(), p->variable2()->parent().get());
        return a == s.obj1 && b == s.obj2;
    }
    default:
        return false;
    }
}

// lookups must agree with the traversal (called right after setModel / assign*)
static void checkLookups(const AnnotatorPtr &ann, const ModelPtr &m, const std::string &after, const std::string &replay, bool sharedImport)
{
    auto slots = collect(m);
    auto counts = idCounts(slots);
    std::string tag = sharedImport ? ":shared-import-source" : "";
    // every other time itemCount() is the FIRST query after the change (each lookup has to notice a stale index itself)
    // (which times: decided by the history text, so that a case stays a pure function of seed and index)
    if (fnv1a(replay) % 2 == 0) {
        for (const auto &kv : counts) {
            size_t n = ann->itemCount(kv.first);
            if (n != static_cast<size_t>(kv.second)) {
                viol("C13", "lookup:itemCount()-disagrees:first-query:" + after + tag, "id " + kv.first + ": itemCount=" + std::to_string(n) + " traversal=" + std::to_string(kv.second), replay);
            }
            break; // one id is enough: the call refreshes the index for the others
        }
        stat("item_count_first_queries");
    }
    // ids()
    auto ids = ann->ids();
    std::set<std::string> idSet(ids.begin(), ids.end());
    std::set<std::string> mine;
    for (const auto &kv : counts) {
        mine.insert(kv.first);
    }
    stat("lookup_checks");
    if (idSet != mine) {
        std::string d;
        for (const auto &x : mine) {
            if (idSet.count(x) == 0U) {
                d += " missing:" + x;
            }
        }
        for (const auto &x : idSet) {
            if (mine.count(x) == 0U) {
                d += " extra:" + x;
            }
        }
        viol("C13", "lookup:ids()-disagrees:" + after + tag, d, replay);
    }
    // duplicateIds()
    auto dups = ann->duplicateIds();
    std::set<std::string> dupSet(dups.begin(), dups.end());
    std::set<std::string> myDups;
    for (const auto &kv : counts) {
        if (kv.second > 1) {
            myDups.insert(kv.first);
        }
    }
    if (dupSet != myDups) {
        std::string d;
        for (const auto &x : myDups) {
            if (dupSet.count(x) == 0U) {
                d += " missing:" + x;
            }
        }
        for (const auto &x : dupSet) {
            if (myDups.count(x) == 0U) {
                d += " extra:" + x;
            }
        }
        viol("C13", "lookup:duplicateIds()-disagrees:" + after + tag, d, replay);
    }
    for (const auto &kv : counts) {
        size_t n = ann->itemCount(kv.first);
        if (n != static_cast<size_t>(kv.second)) {
            viol("C13", "lookup:itemCount()-disagrees:" + after + tag, "id " + kv.first + ": itemCount=" + std::to_string(n) + " traversal=" + std::to_string(kv.second), replay);
        }
        if (kv.second == 1) {
            auto it = ann->item(kv.first);
            monitorLogger(*ann, "Annotator::item", replay);
            const Slot *slot = nullptr;
            for (const auto &s : slots) {
                if (s.get() == kv.first) {
                    slot = &s;
                }
                if (s.allIds) {
                    for (const auto &x : s.allIds()) {
                        if (x == kv.first) {
                            slot = &s;
                        }
                    }
                }
            }
            stat("item_lookups");
            if (it == nullptr) {
                monitorExplained(true, *ann, "Annotator::item(unique id)", replay);
                viol("C13", "lookup:item(id)-null:" + typeName(slot->type) + ":" + after + tag, "id " + kv.first + " carried by " + slot->where, replay);
            } else if (!itemIsSlot(it, *slot)) {
                viol("C13", "lookup:item(id)-wrong-object:" + typeName(slot->type) + ":" + after + tag, "id " + kv.first + " is carried by " + slot->where + " but item() returned a " + typeName(it->type()), replay);
            }
        }
    }
    // a missing id is reported, not returned
    auto none = ann->item("no_such_id_zz");
    if (none != nullptr && none->type() != CellmlElementType::UNDEFINED) {
        viol("C13", "lookup:item(unknown)-returns-object", "", replay);
    }
    monitorExplained(true, *ann, "Annotator::item(unknown id)", replay);
}

static const std::vector<CellmlElementType> kTypes = {
    CellmlElementType::COMPONENT, CellmlElementType::COMPONENT_REF, CellmlElementType::CONNECTION, CellmlElementType::ENCAPSULATION,
    CellmlElementType::IMPORT, CellmlElementType::MAP_VARIABLES, CellmlElementType::MODEL, CellmlElementType::RESET,
    CellmlElementType::RESET_VALUE, CellmlElementType::TEST_VALUE, CellmlElementType::UNIT, CellmlElementType::UNITS, CellmlElementType::VARIABLE};

static void collectXmlIds(xmlNodePtr n, std::vector<std::string> &ids, int &without, bool inMath)
{
    for (; n != nullptr; n = n->next) {
        if (n->type != XML_ELEMENT_NODE) {
            continue;
        }
        std::string name = reinterpret_cast<const char *>(n->name);
        bool math = inMath || name == "math";
        if (!math) {
            xmlChar *v = xmlGetNoNsProp(n, BAD_CAST "id");
            if (v != nullptr) {
                ids.emplace_back(reinterpret_cast<const char *>(v));
                xmlFree(v);
            } else {
                ++without;
            }
        }
        collectXmlIds(n->children, ids, without, math);
    }
}

void vh_run_case(Ctx &ctx)
{
    Rng &rng = ctx.rng;
    GenOptions go;
    go.weirdIds = rng.chance(0.6);
    go.mathProbability = 0.2;
    IrModel ir = generateModel(rng, go);
    ModelPtr m = buildApi(ir);
    // is one ImportSource object used by two entities? (attributes a specific known finding)
    bool sharedImport = false;
    {
        std::map<const void *, int> use;
        for (size_t i = 0; i < m->unitsCount(); ++i) {
            if (m->units(i)->isImport()) {
                ++use[m->units(i)->importSource().get()];
            }
        }
        for (const auto &c : allComponents(m)) {
            if (c->isImport()) {
                ++use[c->importSource().get()];
            }
        }
        for (const auto &kv : use) {
            sharedImport = sharedImport || kv.second > 1;
        }
    }
    std::string history = "IR:\n" + dumpIr(ir) + "\nhistory:";
    auto ann = Annotator::create();
    ann->setModel(m);
    history += " setModel;";
    checkLookups(ann, m, "setModel", history, sharedImport);

    bool forceAssign = false;
    std::map<std::string, std::string> previousId; // slot -> the id it carried before an assign call replaced it
    int steps = rng.range(2, 7);
    for (int step = 0; step < steps; ++step) {
        int op = rng.range(0, 11);
        if (forceAssign) {
            op = rng.range(3, 8);
            forceAssign = false;
        }
        if (op <= 2) {
            // edit the model behind the annotator's back
            auto slots = collect(m);
            auto &s = slots[rng.below(slots.size())];
            int how = rng.range(0, 4);
            if (how == 4) {
                // put back the id an item had before the annotator replaced it (the model then looks, id for id, as it
                // did when the annotator last indexed it)
                std::vector<size_t> cands;
                for (size_t i = 0; i < slots.size(); ++i) {
                    auto it = previousId.find(slots[i].where);
                    if (it != previousId.end() && it->second != slots[i].get()) {
                        cands.push_back(i);
                    }
                }
                if (cands.empty()) {
                    how = 0;
                } else {
                    auto &t = slots[rng.pick(cands)];
                    std::string old = previousId[t.where];
                    t.set(old);
                    history += " edit:restore(" + t.where + "=" + old + ");";
                    stat("edits");
                    stat("edits_restoring_previous_id");
                    forceAssign = true; // the property speaks about lookups after an assign call: make one next
                    if (step == steps - 1) {
                        ++steps;
                    }
                    continue;
                }
            }
            if (how == 0) {
                s.set("");
                history += " edit:clear(" + s.where + ");";
            } else if (how == 1) {
                // an id shaped like the next automatic ones
                static const std::vector<std::string> shaped = {"b4da55", "b4da56", "b4da57", "b4da58", "b4da59", "b4da5a", "b4da5b", "b4da5c", "b4da5d", "b4da60", "b4da70"};
                std::string id = rng.pick(shaped);
                s.set(id);
                history += " edit:set(" + s.where + "=" + id + ");";
            } else if (how == 2) {
                auto comps = allComponents(m);
                if (!comps.empty()) {
                    auto c = rng.pick(comps);
                    auto v = Variable::create("late" + std::to_string(step));
                    v->setUnits("second");
                    if (rng.chance(0.5)) {
                        v->setId(rng.chance(0.5) ? "b4da56" : "b4da5e");
                    }
                    c->addVariable(v);
                    history += " edit:addVariable(" + c->name() + (v->id().empty() ? "" : ",id=" + v->id()) + ");";
                }
            } else {
                auto u = Units::create("lateUnits" + std::to_string(step));
                u->addUnit("second", "milli", 1.0, 1.0, rng.chance(0.5) ? "b4da57" : "");
                m->addUnits(u);
                history += " edit:addUnits;";
            }
            stat("edits");
            continue;
        }
        // snapshot before an assign call
        auto before = collect(m);
        std::vector<std::string> beforeIds;
        for (const auto &s : before) {
            beforeIds.push_back(s.get());
        }
        auto presentBefore = idCounts(before);
        std::string call;
        CellmlElementType reqType = CellmlElementType::UNDEFINED;
        bool all = false;
        int single = -1;
        bool reassign = false;
        if (op <= 5) {
            all = true;
            call = "assignAllIds";
            stage(call);
            bool r = ann->assignAllIds();
            (void)r;
        } else if (op <= 7) {
            reqType = rng.pick(kTypes);
            call = "assignIds(" + typeName(reqType) + ")";
            stage(call);
            (void)ann->assignIds(reqType);
        } else if (op == 8) {
            // assignId(item) on one slot lacking an id
            std::vector<int> lacking;
            for (size_t i = 0; i < before.size(); ++i) {
                if (beforeIds[i].empty() && before[i].type != CellmlElementType::CONNECTION && before[i].type != CellmlElementType::MAP_VARIABLES && before[i].type != CellmlElementType::UNIT) {
                    lacking.push_back(static_cast<int>(i));
                }
            }
            if (lacking.empty()) {
                continue;
            }
            single = rng.pick(lacking);
            const auto &s = before[static_cast<size_t>(single)];
            call = "assignId(" + typeName(s.type) + ")";
            stage(call);
            std::string got;
            switch (s.type) {
            case CellmlElementType::MODEL:
                got = ann->assignId(m, CellmlElementType::MODEL);
                break;
            case CellmlElementType::ENCAPSULATION:
                got = ann->assignId(m, CellmlElementType::ENCAPSULATION);
                break;
            case CellmlElementType::UNITS:
                for (size_t i = 0; i < m->unitsCount(); ++i) {
                    if (m->units(i).get() == s.obj1) {
                        got = ann->assignId(m->units(i));
                    }
                }
                break;
            case CellmlElementType::COMPONENT:
            case CellmlElementType::COMPONENT_REF:
                for (const auto &c : allComponents(m)) {
                    if (c.get() == s.obj1) {
                        got = ann->assignId(c, s.type);
                    }
                }
                break;
            case CellmlElementType::VARIABLE:
                for (const auto &v : allVariables(m)) {
                    if (v.get() == s.obj1) {
                        got = ann->assignId(v);
                    }
                }
                break;
            case CellmlElementType::RESET:
            case CellmlElementType::TEST_VALUE:
            case CellmlElementType::RESET_VALUE:
                for (const auto &c : allComponents(m)) {
                    for (size_t i = 0; i < c->resetCount(); ++i) {
                        if (c->reset(i).get() == s.obj1) {
                            got = ann->assignId(c->reset(i), s.type);
                        }
                    }
                }
                break;
            case CellmlElementType::IMPORT:
                for (const auto &c : allComponents(m)) {
                    if (c->isImport() && c->importSource().get() == s.obj1 && got.empty()) {
                        got = ann->assignId(c->importSource());
                    }
                }
                for (size_t i = 0; i < m->unitsCount(); ++i) {
                    if (m->units(i)->isImport() && m->units(i)->importSource().get() == s.obj1 && got.empty()) {
                        got = ann->assignId(m->units(i)->importSource());
                    }
                }
                break;
            default:
                break;
            }
            if (got.empty()) {
                monitorExplained(true, *ann, "Annotator::assignId", history + " " + call);
                viol("C13", "assign:assignId-returned-empty:" + typeName(s.type), s.where, history + " " + call);
            } else if (s.get() != got) {
                viol("C13", "assign:assignId-return-not-stored:" + typeName(s.type), s.where + " returned " + got + " stored " + s.get(), history + " " + call);
            }
        } else if (op >= 10) {
            // assignId(item) on ONE item whatever it carries: the documented effect is a fresh unique id on that item
            // (an existing id is replaced), nothing else changes, and the lookups follow
            std::vector<int> cand;
            for (size_t i = 0; i < before.size(); ++i) {
                auto t = before[i].type;
                if (t == CellmlElementType::UNIT || t == CellmlElementType::MAP_VARIABLES || t == CellmlElementType::VARIABLE || t == CellmlElementType::UNITS || t == CellmlElementType::COMPONENT) {
                    cand.push_back(static_cast<int>(i));
                }
            }
            if (cand.empty()) {
                continue;
            }
            // prefer items that already carry an id (the index has to forget the old one)
            std::vector<int> withId;
            for (int i : cand) {
                if (!beforeIds[static_cast<size_t>(i)].empty()) {
                    withId.push_back(i);
                }
            }
            single = !withId.empty() && rng.chance(0.75) ? rng.pick(withId) : rng.pick(cand);
            reassign = true;
            const auto &s = before[static_cast<size_t>(single)];
            call = "assignId(" + typeName(s.type) + (beforeIds[static_cast<size_t>(single)].empty() ? "" : " carrying an id") + ")";
            stage(call);
            std::string got;
            switch (s.type) {
            case CellmlElementType::UNIT:
                for (size_t i = 0; i < m->unitsCount(); ++i) {
                    if (m->units(i).get() == s.obj1) {
                        got = ann->assignId(m->units(i), s.index);
                    }
                }
                break;
            case CellmlElementType::UNITS:
                for (size_t i = 0; i < m->unitsCount(); ++i) {
                    if (m->units(i).get() == s.obj1) {
                        got = ann->assignId(m->units(i));
                    }
                }
                break;
            case CellmlElementType::COMPONENT:
                for (const auto &c : allComponents(m)) {
                    if (c.get() == s.obj1) {
                        got = ann->assignId(c, s.type);
                    }
                }
                break;
            case CellmlElementType::VARIABLE:
                for (const auto &v : allVariables(m)) {
                    if (v.get() == s.obj1) {
                        got = ann->assignId(v);
                    }
                }
                break;
            default: { // MAP_VARIABLES
                VariablePtr a;
                VariablePtr b;
                for (const auto &v : allVariables(m)) {
                    if (v.get() == s.obj1) {
                        a = v;
                    }
                    if (v.get() == s.obj2) {
                        b = v;
                    }
                }
                if (a != nullptr && b != nullptr) {
                    got = rng.chance(0.5) ? ann->assignId(a, b, CellmlElementType::MAP_VARIABLES) : ann->assignId(b, a, CellmlElementType::MAP_VARIABLES);
                }
                break;
            }
            }
            stat("reassign_calls");
            if (got.empty()) {
                monitorExplained(true, *ann, "Annotator::assignId", history + " " + call);
                viol("C13", "assign:assignId-returned-empty:" + typeName(s.type), s.where, history + " " + call);
            } else if (s.get() != got) {
                viol("C13", "assign:assignId-return-not-stored:" + typeName(s.type), s.where + " returned " + got + " stored " + s.get(), history + " " + call);
            } else if (got == beforeIds[static_cast<size_t>(single)]) {
                viol("C13", "assign:assignId-kept-old-id:" + typeName(s.type), s.where + " still has " + got, history + " " + call);
            }
        } else {
            call = "clearAllIds";
            ann->clearAllIds();
            history += " clearAllIds;";
            for (const auto &s : collect(m)) {
                if (!s.get().empty()) {
                    viol("C13", "clearAllIds-left-id:" + typeName(s.type), s.where + " still has id " + s.get(), history);
                }
            }
            stat("clears");
            continue;
        }
        history += " " + call + ";";
        monitorLogger(*ann, "Annotator::" + call, history);
        stat("assign_calls");
        // the slots of `before` are closures over live objects: read them again
        std::set<std::string> newIds;
        std::string callKey = all ? "assignAllIds" : (single >= 0 ? "assignId" : "assignIds");
        for (size_t i = 0; i < before.size(); ++i) {
            std::string now = before[i].get();
            const std::string &was = beforeIds[i];
            bool requested = all || before[i].type == reqType || static_cast<int>(i) == single;
            if (!was.empty()) {
                if (now != was) {
                    previousId[before[i].where] = was;
                }
                if (reassign && static_cast<int>(i) == single) {
                    // the one item that was asked to take a new id
                    if (presentBefore.count(now) != 0U) {
                        viol("C13", "assign:new-id-collides-with-existing:" + callKey, before[i].where + " received id " + now + " which was already present in the model at the time of the call", history);
                    }
                    continue;
                }
                if (now != was) {
                    viol("C13", "assign:changed-existing-id:" + typeName(before[i].type) + ":" + callKey, before[i].where + ": " + was + " -> " + now, history);
                }
                continue;
            }
            if (requested && now.empty() && single < 0) {
                // ENCAPSULATION on a model without encapsulation is not an existing item: either outcome is fine
                viol("C13", "assign:left-without-id:" + typeName(before[i].type) + ":" + callKey, before[i].where, history);
            }
            if (!now.empty()) {
                stat("ids_assigned");
                if (presentBefore.count(now) != 0U) {
                    viol("C13", "assign:new-id-collides-with-existing:" + callKey, before[i].where + " received id " + now + " which was already present in the model at the time of the call", history);
                }
                if (!newIds.insert(now).second) {
                    viol("C13", "assign:new-ids-not-distinct:" + callKey, before[i].where + " received id " + now + " twice in one call", history);
                }
            }
        }
        checkLookups(ann, m, callKey, history, sharedImport);
    }

    // the same annotator handed another model with the SAME ids in the same places (the document parsed twice):
    // every lookup must now answer with objects of the new model
    if (rng.chance(0.5)) {
        stage("setModel(second model, same ids)");
        std::string text = Printer::create()->printModel(m);
        auto mA = Parser::create(false)->parseModel(text);
        auto mB = Parser::create(false)->parseModel(text);
        if (mA != nullptr && mB != nullptr && dumpModel(mA) == dumpModel(mB)) {
            auto ann2 = rng.chance(0.5) ? ann : Annotator::create();
            ann2->setModel(mA);
            checkLookups(ann2, mA, "setModel(reparsed)", history + " setModel(reparsed A);", sharedImport);
            ann2->setModel(mB);
            checkLookups(ann2, mB, "setModel(second-model-same-ids)", history + " setModel(reparsed A); setModel(reparsed B);", sharedImport);
            stat("second_model_same_ids");
        }
    }
    // printModel(model, true)
    {
        stage("printModel(autoIds)");
        std::string d0 = dumpModel(m);
        auto printer = Printer::create();
        std::string text = printer->printModel(m, true);
        monitorLogger(*printer, "Printer::printModel(autoIds)", history);
        if (dumpModel(m) != d0) {
            viol("C13", "print-autoids:modified-model", firstDiff(d0, dumpModel(m)), history);
        }
        if (!text.empty()) {
            xmlDocPtr doc = xmlReadMemory(text.data(), static_cast<int>(text.size()), "p.xml", nullptr, XML_PARSE_NOERROR | XML_PARSE_NOWARNING | XML_PARSE_NONET);
            if (doc != nullptr) {
                std::vector<std::string> ids;
                int without = 0;
                collectXmlIds(xmlDocGetRootElement(doc), ids, without, false);
                xmlFreeDoc(doc);
                stat("printed_ids", static_cast<int64_t>(ids.size()));
                if (without != 0) {
                    viol("C13", "print-autoids:element-without-id", std::to_string(without) + " element(s) without id in\n" + truncateForLog(text, 1500), history);
                }
                // ids that were already duplicated in the model stay duplicated; only NEW duplicates are the printer's
                auto present = idCounts(collect(m));
                std::map<std::string, int> cnt;
                for (const auto &id : ids) {
                    ++cnt[id];
                }
                for (const auto &kv : cnt) {
                    int had = present.count(kv.first) != 0U ? present[kv.first] : 0;
                    if (kv.second > 1 && kv.second > had) {
                        viol("C13", "print-autoids:repeats-id", "id " + kv.first + " appears " + std::to_string(kv.second) + " times in the printed text (" + std::to_string(had) + " in the model)", history + "\n" + truncateForLog(text, 3000));
                    }
                }
            }
        }
    }
    caseInfo(ir.structuralHash() + (go.weirdIds ? "w" : "n") + std::to_string(steps), ir.featureCount() >= 2, truncateForLog(history.substr(history.find("history:")), 300));
}
