// Independent description (IR) of CellML models with writers (CellML 2.0, 1.0/1.1 text, object API)
// and a random generator of valid-by-construction models.
#pragma once
#include "vh.h"
#include "vhc.h"
#include <memory>

namespace vh {

// ---------------- expressions ----------------
enum class Op
{
    // leaves
    CI, CN, TRUE_, FALSE_, E, PI, INF, NAN_,
    // relational
    EQ, NEQ, LT, LEQ, GT, GEQ,
    // logical
    AND, OR, XOR, NOT,
    // arithmetic
    PLUS, MINUS, TIMES, DIVIDE, POWER, ROOT, ABS, EXP, LN, LOG, CEILING, FLOOR, MIN, MAX, REM,
    // trig
    SIN, COS, TAN, SEC, CSC, COT, SINH, COSH, TANH, SECH, CSCH, COTH,
    ASIN, ACOS, ATAN, ASEC, ACSC, ACOT, ASINH, ACOSH, ATANH, ASECH, ACSCH, ACOTH,
    // structure
    PIECEWISE, DIFF
};
const char *opName(Op op); // MathML element name

struct Expr;
using ExprP = std::shared_ptr<Expr>;
struct Expr
{
    Op op = Op::CN;
    std::vector<ExprP> kids;
    // CN
    std::string cnText;       // mantissa text
    std::string cnExp;        // non-empty => e-notation with <sep/>
    std::string cnUnits = "dimensionless";
    // CI / DIFF (kids empty; var = state name, bvar = voi name)
    std::string var;
    std::string bvar;
    // ROOT with degree: hasQualifier => kids[0] is the degree;  LOG with logbase: kids[0] is the base
    bool hasQualifier = false;
    // PIECEWISE: kids = v1,c1,v2,c2,...,[otherwise]
    bool hasOtherwise = false;
    int quantity = -1;        // semantic layer: quantity index for CI
};
ExprP mkCn(const std::string &text, const std::string &units = "dimensionless", const std::string &exp = "");
ExprP mkCnD(double v, const std::string &units = "dimensionless");
ExprP mkCi(const std::string &var, int quantity = -1);
ExprP mkOp(Op op, std::vector<ExprP> kids);
ExprP mkDiff(const std::string &state, const std::string &voi);
ExprP cloneExpr(const ExprP &e);
std::string exprToString(const ExprP &e); // compact prefix form for signatures / samples

struct MathStyle
{
    std::string mathPrefix;      // "" => default namespace on <math>
    std::string cellmlPrefix = "cellml";
    bool declareCellmlOnMath = true; // else relies on an ancestor declaration
    bool pretty = false;
};
// One <apply> tree
std::string exprToMathML(const ExprP &e, const MathStyle &st);
// A <math> element holding equations (each an Expr with op EQ at the root)
std::string mathElement(const std::vector<ExprP> &equations, const MathStyle &st);

// ---------------- structural IR ----------------
struct IrUnit
{
    std::string ref;
    std::string prefix;   // "", named prefix or integer text
    bool hasExp = false;
    std::string exp;      // text
    bool hasMult = false;
    std::string mult;     // text
    std::string id;
};
struct IrImport
{
    std::string url;
    std::string id;
};
struct IrUnits
{
    std::string name;
    std::string id;
    std::vector<IrUnit> units;
    int import = -1;          // index into IrModel::imports
    std::string importRef;
};
struct IrVariable
{
    std::string name;
    std::string id;
    std::string units;
    std::string init;
    std::string iface;
};
struct IrReset
{
    std::string id;
    bool hasOrder = true;
    int order = 0;
    std::string var;
    std::string testVar;
    ExprP testValue;  // any expression (not an equation)
    ExprP resetValue;
    std::string tvId;
    std::string rvId;
};
struct IrComponent
{
    std::string name;
    std::string id;
    std::string encId;        // id of the component_ref element
    std::vector<IrVariable> vars;
    std::vector<IrReset> resets;
    std::vector<std::vector<ExprP>> math;   // each entry = one <math> element (list of equations)
    int parent = -1;
    std::vector<int> children;
    int import = -1;
    std::string importRef;
};
struct IrMap
{
    std::string v1;
    std::string v2;
    std::string id;
};
struct IrConnection
{
    int c1 = 0;
    int c2 = 0;
    std::string id;
    std::vector<IrMap> maps;
};
struct IrModel
{
    std::string name;
    std::string id;
    std::string encId;        // id of the encapsulation element
    std::vector<IrImport> imports;
    std::vector<IrUnits> units;
    std::vector<IrComponent> comps;
    std::vector<IrConnection> conns;
    std::string hostile;      // "<slot kind>:<character class>" when GenOptions::hostileText placed a hostile string

    bool hasEncapsulation() const;
    int findComp(const std::string &name) const;
    int findUnits(const std::string &name) const;
    IrVariable *findVar(int comp, const std::string &name);
    std::string structuralHash() const;   // ignores names/ids values; counts and shapes
    int featureCount() const;             // how many optional features are exercised
};

struct GenOptions
{
    int maxComponents = 6;
    int maxVarsPerComponent = 4;
    int maxUnits = 6;
    bool resets = true;
    bool imports = true;
    bool ids = true;
    bool connections = true;
    bool encapsulation = true;
    bool scaledConnections = true;   // connected variables may use compatible-but-scaled units
    bool initByVariable = true;
    bool nonUnitExponentPrefix = true; // allow prefix/multiplier on children with exponent != 1
    double mathProbability = 0.6;
    bool hostileText = false;        // API-only: put & < > " ' and non-ASCII text in free-text attributes
    bool weirdIds = false;           // duplicated / auto-shaped ids (C13; not valid)
};
IrModel generateModel(Rng &rng, const GenOptions &opt);
// random expression over the given variable names (valid MathML as far as the validator is concerned)
ExprP randomExpr(Rng &rng, const std::vector<std::string> &vars, const std::vector<std::string> &units, int depth);

struct WriteStyle
{
    bool prefixAll = false;     // cellml: prefix on every element instead of default namespace
    bool shuffleAttrs = false;
    bool pretty = true;
    bool mathPrefix = false;
    bool cellmlPrefixOnRoot = true; // declare xmlns:cellml on <model> (and not on <math>)
};
WriteStyle randomStyle(Rng &rng);
std::string writeCellml2(const IrModel &m, const WriteStyle &st);
std::string writeCellml2(const IrModel &m, Rng &rng);
// version "1.0" or "1.1".  `useNone`: write interface "none" explicitly where a side is unused.
std::string writeCellml1x(const IrModel &m, const std::string &version, Rng &rng, bool useNone = false);
// Build through the object API.  Returns the model; `vars` (optional) receives (component index, var name)->object.
ModelPtr buildApi(const IrModel &m);
// Canonical dump of the IR in exactly the format of vh::dumpModel (the reference for C02/C14).
std::string dumpIr(const IrModel &m, const DumpOptions &o = DumpOptions());

// A copy of the IR with every child list (components, variables, resets, units, unit children, connections, maps)
// shuffled; content identical.
IrModel permuteIr(const IrModel &src, Rng &rng);

// Required interface of variable (c, name) from the component tree and connections: "", "public", "private", "public_and_private"
std::string requiredInterface(const IrModel &m, int comp, const std::string &var);
bool reachable(const IrModel &m, int c1, int c2);

extern const std::vector<std::string> kStandardUnits;
extern const std::vector<std::pair<std::string, int>> kPrefixes;

} // namespace vh
