#!/usr/bin/env python3
"""Runs checks against a seeded change:  tools/seedtest.py <seeded name> [check ids...] [--tier quick|thorough] [--in-repo]

Default: a scratch git worktree of /repo HEAD is created under /tmp, /verif/seeded/<name>/patch.diff is applied to it,
and the named checks (default: the property the change was written for) are run with VERIF_REPO pointing at that
worktree and a private build cache inside it (so several seeded changes can be tested side by side and /repo is never
touched); the worktree and its build output are removed afterwards.
--in-repo: apply the patch to /repo itself (git apply), run the checks exactly as registered, restore /repo
(git checkout -- .) whatever happens.  Refuses when /repo has uncommitted changes.
Exit codes and new violation keys are recorded in /verif/seeded/<name>/result.json (checks run with --no-evidence)."""
import json
import os
import shutil
import subprocess
import sys
import time

VERIF = os.path.dirname(os.path.dirname(os.path.abspath(__file__)))


def main():
    argv = sys.argv[1:]
    in_repo = "--in-repo" in argv
    tier = "quick"
    if "--tier" in argv:
        tier = argv[argv.index("--tier") + 1]
    args = [a for a in argv if not a.startswith("--") and a != tier]
    name = args[0]
    d = os.path.join(VERIF, "seeded", name)
    meta = json.load(open(os.path.join(d, "meta.json")))
    checks = args[1:] or [meta["property"]]
    patch = os.path.join(d, "patch.diff")
    env = dict(os.environ)
    env["VERIF_BRIEF"] = "1"
    wt = "/tmp/seedwt-%s-%d" % (name, os.getpid())
    if in_repo:
        dirty = subprocess.run(["git", "-C", "/repo", "status", "--porcelain", "--untracked-files=no"], stdout=subprocess.PIPE).stdout.decode().strip()
        if dirty:
            print("refusing: /repo has uncommitted changes to tracked files:\n" + dirty)
            return 2
    else:
        subprocess.run(["git", "-C", "/repo", "worktree", "prune"])
        subprocess.run(["git", "-C", "/repo", "worktree", "add", "-q", wt, "HEAD"], check=True)
        env["VERIF_REPO"] = wt
        env["VERIF_CACHE"] = os.path.join(wt, "_verif_cache")
    results = {}
    try:
        subprocess.run(["git", "-C", "/repo" if in_repo else wt, "apply", patch], check=True)
        for c in checks:
            t0 = time.time()
            r = subprocess.run([os.path.join(VERIF, "check"), c, "--tier", tier, "--no-evidence"], cwd=VERIF, env=env,
                               stdout=subprocess.PIPE, stderr=subprocess.STDOUT)
            out = r.stdout.decode(errors="replace")
            keys = []
            lines = out.splitlines()
            for i, l in enumerate(lines):
                if l.strip().startswith("key: "):
                    prop = ""
                    if i > 0 and lines[i - 1].startswith("VIOLATION property="):
                        prop = lines[i - 1].split()[1].split("=")[1]
                    keys.append((prop + " " if prop and prop != c else "") + l.strip()[5:])
            results[c] = {"exit": r.returncode, "tier": tier, "violation_keys": keys[:25], "n_violation_keys": len(keys),
                          "wall_s": round(time.time() - t0, 1), "summary": out.strip().splitlines()[-1] if out.strip() else "",
                          "how": "patch applied to /repo" if in_repo else "patch applied to a scratch worktree of /repo HEAD (VERIF_REPO)"}
            print("%s on seeded %s: exit %d, %d new violation keys (%.0fs)" % (c, name, r.returncode, len(keys), time.time() - t0))
            for k in keys[:6]:
                print("    " + k)
    finally:
        if in_repo:
            subprocess.run(["git", "-C", "/repo", "checkout", "--", "."])
        else:
            subprocess.run(["git", "-C", "/repo", "worktree", "remove", "--force", wt], stdout=subprocess.DEVNULL, stderr=subprocess.DEVNULL)
            shutil.rmtree(wt, ignore_errors=True)
            subprocess.run(["git", "-C", "/repo", "worktree", "prune"])
    path = os.path.join(d, "result.json")
    old = {}
    if os.path.exists(path):
        old = json.load(open(path))
    old.update(results)
    json.dump(old, open(path, "w"), indent=1)
    return 0


if __name__ == "__main__":
    sys.exit(main())
