#include "mutate.h"

#include <algorithm>
#include <cstring>
#include <libxml/parser.h>
#include <libxml/parserInternals.h>
#include <libxml/tree.h>

namespace vh {

const std::vector<std::string> kHostileNumbers = {
    "-", ".", "-.", "+", "e", "E", "1e", "1e+", "1e-", "e5", ".e1", "1.e", "+1", "+1.5", "1.2.3", "1e999", "-1e999", "1e-999",
    "1e308", "1.7976931348623157e308", "1.8e308", "4.9e-324", "1e-400", "0", "-0", "00", "007", "0.", ".0", "0.0", "-0.0",
    "2147483647", "2147483648", "-2147483648", "-2147483649", "4294967296", "9223372036854775807", "9223372036854775808",
    "99999999999999999999", "1" + std::string(400, '0'), "0." + std::string(400, '0') + "1", "", " ", " 1", "1 ", " 1 ", "1 2", "\t3\n",
    "nan", "NaN", "inf", "-inf", "infinity", "0x10", "1,5", "1_000", "١٢٣", "１２", "1e1.5", "1E5", "1e+05", "1e-05", "--1", "-+1",
    "1-", "1e--1", "3.", "-3.", "-.5", ".5e-3", "1e2147483648", "1d5", "1f", "true", "a", "k", "x"};

const std::vector<std::string> kHostileIdentifiers = {
    "", " ", "1abc", "_", "__", "a b", "a-b", "a.b", "a:b", "a/b", "é", "名前", "a\xcc\x81", std::string(65536, 'a'), std::string(300, '_'), "9",
    "_1", "A", "second", "metre", "dimensionless", "litre", "liter", "meter", "celsius", "x", "time", "t", "model", "component", "units",
    "&amp;", "<", "\"", "'", "]]>", "a\tb", "a\nb"};

const std::vector<std::string> kNamespaces = {
    "http://www.cellml.org/cellml/2.0#", "http://www.cellml.org/cellml/1.0#", "http://www.cellml.org/cellml/1.1#",
    "http://www.w3.org/1998/Math/MathML", "http://www.w3.org/1999/xlink", "http://www.cellml.org/metadata/1.0#",
    "http://example.org/unknown", "", "http://www.cellml.org/cellml/2.0", "http://www.cellml.org/cellml/3.0#"};

static const std::vector<std::string> kElementNames = {
    "model", "import", "units", "unit", "component", "variable", "reset", "test_value", "reset_value", "math", "encapsulation",
    "component_ref", "connection", "map_variables", "apply", "ci", "cn", "sep", "eq", "plus", "minus", "times", "divide", "power", "root",
    "degree", "logbase", "log", "ln", "exp", "piecewise", "piece", "otherwise", "diff", "bvar", "and", "or", "xor", "not", "lt", "gt", "leq",
    "geq", "neq", "abs", "floor", "ceiling", "min", "max", "rem", "sin", "cos", "tan", "sec", "csc", "cot", "sinh", "arcsin", "arccoth",
    "pi", "exponentiale", "true", "false", "infinity", "notanumber", "group", "relationship_ref", "map_components", "semantics",
    "annotation", "lambda", "sum", "int", "factorial", "documentation", "RDF"};

static const std::vector<std::string> kAttrNames = {
    "name", "id", "units", "units_ref", "component_ref", "prefix", "exponent", "multiplier", "initial_value", "interface", "order",
    "variable", "test_variable", "component", "component_1", "component_2", "variable_1", "variable_2", "href", "type", "base",
    "public_interface", "private_interface", "relationship", "definitionURL", "encoding", "xmlns"};

static const std::vector<std::string> kInterfaces = {"public", "private", "public_and_private", "none", "in", "out", "", "PUBLIC", "both", " public"};
static const std::vector<std::string> kPrefixes = {"milli", "kilo", "yotta", "yocto", "deca", "deka", "Milli", "3", "-3", "24", "-24", "25", "1000", "0", "1.5", "", "k"};
static const std::vector<std::string> kCnTypes = {"real", "e-notation", "integer", "rational", "complex-polar", "complex-cartesian", "constant", "", "E-notation"};

namespace {

xmlDocPtr parseQuiet(const std::string &s)
{
    // A private context whose blank handling is set explicitly: libxml2's process-wide defaults (which libCellML is
    // known to leave modified, see C12) must not influence what the harness itself reads.
    xmlParserCtxtPtr ctxt = xmlCreateMemoryParserCtxt(s.data(), static_cast<int>(s.size()));
    if (ctxt == nullptr) {
        return nullptr;
    }
    ctxt->keepBlanks = 1;
    if (ctxt->sax != nullptr) {
        ctxt->sax->error = nullptr;
        ctxt->sax->warning = nullptr;
        ctxt->sax->serror = nullptr;
        ctxt->sax->ignorableWhitespace = ctxt->sax->characters;
    }
    ctxt->vctxt.error = nullptr;
    ctxt->vctxt.warning = nullptr;
    xmlCtxtUseOptions(ctxt, XML_PARSE_NOERROR | XML_PARSE_NOWARNING | XML_PARSE_NONET | XML_PARSE_HUGE);
    xmlParseDocument(ctxt);
    xmlDocPtr doc = ctxt->myDoc;
    bool ok = ctxt->wellFormed != 0;
    xmlFreeParserCtxt(ctxt);
    if (doc != nullptr && !ok) {
        xmlFreeDoc(doc);
        doc = nullptr;
    }
    return doc;
}

void collect(xmlNodePtr n, std::vector<xmlNodePtr> &els, int depth = 0)
{
    for (; n != nullptr; n = n->next) {
        if (n->type == XML_ELEMENT_NODE) {
            els.push_back(n);
            if (depth < 400) {
                collect(n->children, els, depth + 1);
            }
        }
    }
}

std::string nodeName(xmlNodePtr n)
{
    return n->name != nullptr ? reinterpret_cast<const char *>(n->name) : "";
}

std::vector<std::string> namesInDoc(const std::vector<xmlNodePtr> &els, const char *element)
{
    std::vector<std::string> out;
    for (auto e : els) {
        if (nodeName(e) == element) {
            xmlChar *v = xmlGetNoNsProp(e, BAD_CAST "name");
            if (v != nullptr) {
                out.emplace_back(reinterpret_cast<const char *>(v));
                xmlFree(v);
            }
        }
    }
    return out;
}

std::string hostileFor(const std::string &attr, Rng &rng, const std::vector<xmlNodePtr> &els)
{
    if (attr == "exponent" || attr == "multiplier" || attr == "initial_value" || attr == "order") {
        if (attr == "initial_value" && rng.chance(0.3)) {
            auto vs = namesInDoc(els, "variable");
            if (!vs.empty()) {
                return rng.pick(vs);
            }
        }
        return rng.pick(kHostileNumbers);
    }
    if (attr == "prefix") {
        return rng.chance(0.5) ? rng.pick(kPrefixes) : rng.pick(kHostileNumbers);
    }
    if (attr == "interface" || attr == "public_interface" || attr == "private_interface") {
        return rng.pick(kInterfaces);
    }
    if (attr == "units" || attr == "units_ref") {
        auto us = namesInDoc(els, "units");
        if (!us.empty() && rng.chance(0.7)) {
            return rng.pick(us);
        }
        return rng.pick(kHostileIdentifiers);
    }
    if (attr == "component" || attr == "component_1" || attr == "component_2" || attr == "component_ref") {
        auto cs = namesInDoc(els, "component");
        if (!cs.empty() && rng.chance(0.7)) {
            return rng.pick(cs);
        }
        return rng.pick(kHostileIdentifiers);
    }
    if (attr == "variable" || attr == "test_variable" || attr == "variable_1" || attr == "variable_2") {
        auto vs = namesInDoc(els, "variable");
        if (!vs.empty() && rng.chance(0.7)) {
            return rng.pick(vs);
        }
        return rng.pick(kHostileIdentifiers);
    }
    if (attr == "type") {
        return rng.pick(kCnTypes);
    }
    if (attr == "base") {
        return rng.pick(kHostileNumbers);
    }
    if (attr == "href") {
        static const std::vector<std::string> hrefs = {"", ".", "..", "/", "nonexistent.cellml", "a?b=1&c=2", "file:///etc/passwd", "http://example.org/x.cellml", "./", "#", "x\ny", std::string(5000, 'h')};
        return rng.pick(hrefs);
    }
    if (rng.chance(0.2)) {
        return rng.pick(kHostileNumbers);
    }
    return rng.pick(kHostileIdentifiers);
}

} // namespace

std::string mutateStructured(const std::string &xml, Rng &rng, int nmut, std::string &desc)
{
    xmlDocPtr doc = parseQuiet(xml);
    if (doc == nullptr) {
        return mutateBytes(xml, rng, nmut, desc);
    }
    for (int k = 0; k < nmut; ++k) {
        std::vector<xmlNodePtr> els;
        collect(xmlDocGetRootElement(doc), els);
        if (els.empty()) {
            break;
        }
        xmlNodePtr e = rng.pick(els);
        int op = rng.range(0, 13);
        switch (op) {
        case 0:
        case 1:
        case 2: { // replace an attribute value
            std::vector<xmlAttrPtr> attrs;
            for (xmlAttrPtr a = e->properties; a != nullptr; a = a->next) {
                attrs.push_back(a);
            }
            if (attrs.empty()) {
                --k;
                if (rng.chance(0.1)) {
                    ++k;
                }
                continue;
            }
            xmlAttrPtr a = rng.pick(attrs);
            std::string an = reinterpret_cast<const char *>(a->name);
            std::string v = hostileFor(an, rng, els);
            xmlChar *enc = xmlEncodeSpecialChars(doc, BAD_CAST v.c_str());
            xmlNodeSetContent(reinterpret_cast<xmlNodePtr>(a), enc);
            xmlFree(enc);
            desc += "attr(" + nodeName(e) + "@" + an + "=" + truncateForLog(v, 24) + ");";
            break;
        }
        case 3: { // delete element (not the root)
            if (e == xmlDocGetRootElement(doc)) {
                continue;
            }
            desc += "del(" + nodeName(e) + ");";
            xmlUnlinkNode(e);
            xmlFreeNode(e);
            break;
        }
        case 4: { // duplicate element
            if (e == xmlDocGetRootElement(doc)) {
                continue;
            }
            xmlNodePtr c = xmlCopyNode(e, 1);
            if (c != nullptr) {
                xmlAddNextSibling(e, c);
                desc += "dup(" + nodeName(e) + ");";
            }
            break;
        }
        case 5: { // move a copy of element under another parent
            xmlNodePtr p = rng.pick(els);
            xmlNodePtr c = xmlCopyNode(e, 1);
            if (c != nullptr) {
                xmlAddChild(p, c);
                desc += "copyinto(" + nodeName(e) + "->" + nodeName(p) + ");";
            }
            break;
        }
        case 6: { // change namespace
            const std::string &ns = rng.pick(kNamespaces);
            xmlNsPtr n = xmlNewNs(e, ns.empty() ? nullptr : BAD_CAST ns.c_str(), rng.chance(0.5) ? nullptr : BAD_CAST "zz");
            if (n != nullptr) {
                xmlSetNs(e, n);
                desc += "ns(" + nodeName(e) + "=" + ns + ");";
            }
            break;
        }
        case 7: { // replace text content of a leaf (cn/ci etc.) or set text on any element
            std::vector<xmlNodePtr> leaves;
            for (auto x : els) {
                std::string nn = nodeName(x);
                if (nn == "cn" || nn == "ci") {
                    leaves.push_back(x);
                }
            }
            xmlNodePtr t = leaves.empty() ? e : rng.pick(leaves);
            std::string v = nodeName(t) == "ci" ? (rng.chance(0.5) ? rng.pick(kHostileIdentifiers) : hostileFor("variable", rng, els)) : rng.pick(kHostileNumbers);
            if (v.size() > 2000) {
                v.resize(2000);
            }
            xmlChar *enc = xmlEncodeSpecialChars(doc, BAD_CAST v.c_str());
            xmlNodeSetContent(t, enc);
            xmlFree(enc);
            desc += "text(" + nodeName(t) + "=" + truncateForLog(v, 24) + ");";
            break;
        }
        case 8: { // add attribute
            const std::string &an = rng.pick(kAttrNames);
            if (an == "xmlns") {
                continue;
            }
            std::string v = hostileFor(an, rng, els);
            if (v.size() > 3000) {
                v.resize(3000);
            }
            xmlSetProp(e, BAD_CAST an.c_str(), BAD_CAST v.c_str());
            desc += "addattr(" + nodeName(e) + "@" + an + ");";
            break;
        }
        case 9: { // deep nesting
            int depth = rng.pick(std::vector<int>{3, 20, 100, 250});
            std::string nn = rng.chance(0.5) ? nodeName(e) : rng.pick(kElementNames);
            xmlNodePtr cur = e;
            for (int i = 0; i < depth; ++i) {
                xmlNodePtr c = xmlNewChild(cur, e->ns, BAD_CAST nn.c_str(), nullptr);
                if (c == nullptr) {
                    break;
                }
                if (nn == "component_ref" || nn == "component") {
                    xmlSetProp(c, BAD_CAST (nn == "component" ? "name" : "component"), BAD_CAST ("n" + std::to_string(i)).c_str());
                }
                cur = c;
            }
            desc += "nest(" + nn + "x" + std::to_string(depth) + ");";
            break;
        }
        case 10: { // units cycle
            std::vector<xmlNodePtr> us;
            for (auto x : els) {
                if (nodeName(x) == "units" && xmlHasProp(x, BAD_CAST "name") != nullptr && x->parent != nullptr && nodeName(x->parent) == "model") {
                    us.push_back(x);
                }
            }
            if (us.empty()) {
                continue;
            }
            rng.shuffle(us);
            size_t len = std::min<size_t>(us.size(), static_cast<size_t>(rng.range(1, 5)));
            for (size_t i = 0; i < len; ++i) {
                xmlNodePtr from = us[i];
                xmlNodePtr to = us[(i + 1) % len];
                xmlChar *nm = xmlGetNoNsProp(to, BAD_CAST "name");
                xmlNodePtr unit = xmlNewChild(from, from->ns, BAD_CAST "unit", nullptr);
                xmlSetProp(unit, BAD_CAST "units", nm);
                if (rng.chance(0.3)) {
                    xmlSetProp(unit, BAD_CAST "exponent", BAD_CAST "2");
                }
                xmlFree(nm);
            }
            desc += "unitscycle(" + std::to_string(len) + ");";
            break;
        }
        case 11: { // rename element
            const std::string &nn = rng.pick(kElementNames);
            xmlNodeSetName(e, BAD_CAST nn.c_str());
            desc += "rename(->" + nn + ");";
            break;
        }
        case 12: { // remove attribute
            std::vector<xmlAttrPtr> attrs;
            for (xmlAttrPtr a = e->properties; a != nullptr; a = a->next) {
                attrs.push_back(a);
            }
            if (attrs.empty()) {
                continue;
            }
            xmlAttrPtr a = rng.pick(attrs);
            desc += "rmattr(" + nodeName(e) + "@" + reinterpret_cast<const char *>(a->name) + ");";
            xmlRemoveProp(a);
            break;
        }
        case 13: { // encapsulation / import cycle helpers: make element reference itself
            std::string nn = nodeName(e);
            if (nn == "unit") {
                xmlNodePtr p = e->parent;
                xmlChar *nm = p != nullptr ? xmlGetNoNsProp(p, BAD_CAST "name") : nullptr;
                if (nm != nullptr) {
                    xmlSetProp(e, BAD_CAST "units", nm);
                    xmlFree(nm);
                    desc += "selfunit;";
                }
            } else if (nn == "component_ref") {
                xmlNodePtr c = xmlCopyNode(e, 2);
                if (c != nullptr) {
                    xmlAddChild(e, c);
                    desc += "selfencaps;";
                }
            } else if (nn == "variable") {
                xmlChar *nm = xmlGetNoNsProp(e, BAD_CAST "name");
                if (nm != nullptr) {
                    xmlSetProp(e, BAD_CAST "initial_value", nm);
                    xmlFree(nm);
                    desc += "selfinit;";
                }
            } else {
                continue;
            }
            break;
        }
        default:
            break;
        }
    }
    xmlChar *mem = nullptr;
    int size = 0;
    xmlDocDumpMemory(doc, &mem, &size);
    std::string out;
    if (mem != nullptr) {
        out.assign(reinterpret_cast<char *>(mem), static_cast<size_t>(size));
        xmlFree(mem);
    }
    xmlFreeDoc(doc);
    if (out.size() > 65536 * 4) {
        out.resize(65536 * 4);
    }
    return out;
}

std::string mutateBytes(const std::string &data, Rng &rng, int n, std::string &desc, const std::string &other)
{
    std::string s = data;
    for (int k = 0; k < n; ++k) {
        int op = rng.range(0, 6);
        if (s.empty()) {
            op = 4;
        }
        switch (op) {
        case 0: { // truncate
            size_t p = rng.below(s.size() + 1);
            s.resize(p);
            desc += "trunc(" + std::to_string(p) + ");";
            break;
        }
        case 1: { // bit flip
            size_t p = rng.below(s.size());
            s[p] = static_cast<char>(s[p] ^ (1 << rng.range(0, 7)));
            desc += "flip;";
            break;
        }
        case 2: { // delete a chunk
            size_t p = rng.below(s.size());
            size_t l = std::min<size_t>(s.size() - p, rng.below(64) + 1);
            s.erase(p, l);
            desc += "cut;";
            break;
        }
        case 3: { // duplicate a chunk
            size_t p = rng.below(s.size());
            size_t l = std::min<size_t>(s.size() - p, rng.below(256) + 1);
            std::string chunk = s.substr(p, l);
            s.insert(rng.below(s.size() + 1), chunk);
            desc += "dupchunk;";
            break;
        }
        case 4: { // insert interesting token
            static const std::vector<std::string> toks = {"<", ">", "&", "&amp;", "&#0;", "&#x10FFFF;", "<!--", "-->", "<![CDATA[", "]]>", "<?xml version=\"1.0\"?>", "<!DOCTYPE x [<!ENTITY a \"aaaa\">]>", "&a;", "\"", "'", "\0", "\xff\xfe", "\xef\xbb\xbf", "</model>", "<math xmlns=\"http://www.w3.org/1998/Math/MathML\">", "xmlns=\"\"", "/>"};
            const std::string &t = rng.pick(toks);
            s.insert(rng.below(s.size() + 1), t);
            desc += "tok;";
            break;
        }
        case 5: { // splice from other
            if (other.empty()) {
                continue;
            }
            size_t p = rng.below(other.size());
            size_t l = std::min<size_t>(other.size() - p, rng.below(512) + 1);
            s.insert(rng.below(s.size() + 1), other.substr(p, l));
            desc += "splice;";
            break;
        }
        case 6: { // overwrite byte with random
            size_t p = rng.below(s.size());
            s[p] = static_cast<char>(rng.below(256));
            desc += "rnd;";
            break;
        }
        default:
            break;
        }
    }
    if (s.size() > 65536 * 4) {
        s.resize(65536 * 4);
    }
    return s;
}

std::string truncateClass(const std::string &xml, int cls)
{
    switch (cls) {
    case 0:
        return "";
    case 1: { // inside a tag name: cut 3 chars after the second '<'
        size_t p = xml.find('<', xml.find('<') + 1);
        if (p == std::string::npos) {
            p = xml.find('<');
        }
        return xml.substr(0, std::min(xml.size(), p + 3));
    }
    case 2: { // inside an attribute value
        size_t p = xml.find("=\"");
        p = xml.find("=\"", p == std::string::npos ? 0 : p + 2);
        if (p == std::string::npos) {
            return xml.substr(0, xml.size() / 2);
        }
        return xml.substr(0, p + 3);
    }
    case 3: { // right after root start tag
        size_t p = xml.find("<model");
        if (p == std::string::npos) {
            p = 0;
        }
        size_t e = xml.find('>', p);
        return xml.substr(0, e == std::string::npos ? xml.size() / 3 : e + 1);
    }
    default: { // before the root close tag
        size_t p = xml.rfind("</");
        return xml.substr(0, p == std::string::npos ? xml.size() * 2 / 3 : p);
    }
    }
}

} // namespace vh
