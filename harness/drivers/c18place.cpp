// C18 (part 2): "regardless of where the objects happen to live in memory".
// Allocator placement: global operator new is replaced so that chosen libcellml::Variable objects are constructed at
// chosen addresses inside arenas mapped with MAP_FIXED_NOREPLACE.  Address quadruples (a,b | c,d) are produced from
// solved collision families of lossy pair keys; (a,b) are connected, (c,d) are not; the public queries are then made
// through the real code and compared with the connection graph; the trace hook reports the key the code really computed.
//
// Families (all addresses 16-byte aligned, k = 2^j):
//   cantor   : Tri(s)=s(s+1)/2 mod 2^63, key = Tri(v1+v2)+max(v1,v2):  a=B-k/2-y, b=B+y, c=B+k-y, d=B+y-k/2 with B=M*2^(62-j), y>0.75k
//              gives (a+b, c+d) = (2B-k/2, 2B+k/2) and Tri(c+d)-Tri(a+b) = k(4B+1)/2 = k/2 (mod 2^63) = b-d.
//   low32    : c=a+2^32, d=b+2^32  (any key that only depends on the low 32 bits of each address)
//   sum      : c=a+16t, d=b-16t    (any key that depends only on a+b, e.g. a missing "+v2")
//   xor      : c=a^F, d=b^F for a bit F set in neither/both (key depends only on a^b)
// Must be built WITHOUT AddressSanitizer (flavour "plain").
#include "vh.h"
#include "vhc.h"

#include <cstdlib>
#include <cstring>
#include <new>
#include <sys/mman.h>

using namespace vh;

// ---------- placement allocator ----------
static void *gPlaceAt = nullptr;        // armed address for the next allocation of size gPlaceSize
static size_t gPlaceSize = 0;
static int64_t gPlaced = 0;
struct Arena
{
    uintptr_t lo;
    uintptr_t hi;
};
static Arena gArenas[64];
static int gArenaCount = 0;

static bool inArena(void *p)
{
    auto x = reinterpret_cast<uintptr_t>(p);
    for (int i = 0; i < gArenaCount; ++i) {
        if (x >= gArenas[i].lo && x < gArenas[i].hi) {
            return true;
        }
    }
    return false;
}

void *operator new(size_t n)
{
    if (gPlaceAt != nullptr && n == gPlaceSize) {
        void *p = gPlaceAt;
        gPlaceAt = nullptr;
        ++gPlaced;
        return p;
    }
    void *p = malloc(n == 0 ? 1 : n);
    if (p == nullptr) {
        throw std::bad_alloc();
    }
    return p;
}

void operator delete(void *p) noexcept
{
    if (p != nullptr && !inArena(p)) {
        free(p);
    }
}

void operator delete(void *p, size_t) noexcept
{
    if (p != nullptr && !inArena(p)) {
        free(p);
    }
}

static bool mapArena(uintptr_t lo, uintptr_t hi)
{
    for (int i = 0; i < gArenaCount; ++i) {
        if (lo >= gArenas[i].lo && hi <= gArenas[i].hi) {
            return true;
        }
    }
    if (gArenaCount >= 64) {
        return false;
    }
    lo &= ~uintptr_t(0xfff);
    hi = (hi + 0xfff) & ~uintptr_t(0xfff);
#ifndef MAP_FIXED_NOREPLACE
#    define MAP_FIXED_NOREPLACE 0x100000
#endif
    void *p = mmap(reinterpret_cast<void *>(lo), hi - lo, PROT_READ | PROT_WRITE, MAP_PRIVATE | MAP_ANONYMOUS | MAP_NORESERVE | MAP_FIXED_NOREPLACE, -1, 0);
    if (p == MAP_FAILED || p != reinterpret_cast<void *>(lo)) {
        if (p != MAP_FAILED) {
            munmap(p, hi - lo);
        }
        return false;
    }
    gArenas[gArenaCount++] = {lo, hi};
    return true;
}

static VariablePtr variableAt(uintptr_t addr, const std::string &name)
{
    gPlaceSize = sizeof(Variable);
    gPlaceAt = reinterpret_cast<void *>(addr);
    auto v = Variable::create(name);
    if (gPlaceAt != nullptr) {
        gPlaceAt = nullptr; // size mismatch: not placed
    }
    return v;
}

// ---------- hook monitor ----------
static std::map<std::string, std::pair<const void *, const void *>> gKeyOwner;
static std::vector<std::string> gCollisions;
static int64_t gTrace = 0;

static void traceCb(const void *v1, const void *v2, const void *key, size_t keySize, bool, bool)
{
    ++gTrace;
    const void *a = std::min(v1, v2);
    const void *b = std::max(v1, v2);
    std::string k(static_cast<const char *>(key), keySize);
    auto it = gKeyOwner.find(k);
    if (it == gKeyOwner.end()) {
        gKeyOwner[k] = {a, b};
    } else if (it->second != std::make_pair(a, b)) {
        char buf[200];
        snprintf(buf, sizeof buf, "pairs (%p,%p) and (%p,%p) share one cache key", it->second.first, it->second.second, a, b);
        gCollisions.emplace_back(buf);
    }
}

// ---------- families ----------
struct Quad
{
    uintptr_t a, b, c, d;
    std::string family;
};

static const int kYPerWindow = 64;

struct Window
{
    std::string family;
    int M;
    int j;
};

static std::vector<Window> windows(const std::string &tier)
{
    std::vector<Window> w;
    std::vector<int> js = tier == "thorough" ? std::vector<int>{16, 17, 18, 19, 20} : std::vector<int>{17, 18};
    for (int j : js) {
        for (int M = 1; M <= (tier == "thorough" ? 6 : 3); ++M) {
            // base = M * 2^(62-j) must be a plausible user-space address (< 2^47) and clear of the usual mappings
            __int128 base = static_cast<__int128>(M) << (62 - j);
            if (base >= (static_cast<__int128>(1) << 46) + (static_cast<__int128>(1) << 45) || base < (static_cast<__int128>(1) << 40)) {
                continue;
            }
            w.push_back({"cantor", M, j});
        }
    }
    w.push_back({"low32", 2, 0});
    w.push_back({"sum", 2, 0});
    w.push_back({"xor", 2, 0});
    if (tier == "thorough") {
        w.push_back({"low32", 3, 0});
        w.push_back({"sum", 1, 0});
        w.push_back({"xor", 3, 0});
    }
    return w;
}

int64_t vh_case_count(const std::string &tier, uint64_t)
{
    return static_cast<int64_t>(windows(tier).size()) * (tier == "thorough" ? 16 : 4);
}

void vh_run_case(Ctx &ctx)
{
    Rng &rng = ctx.rng;
    auto ws = windows(ctx.tier);
    int perWindow = ctx.thorough() ? 16 : 4;
    const Window &w = ws[static_cast<size_t>(ctx.index / perWindow)];
    verifSetEquivalenceCacheTrace(traceCb);
    int64_t done = 0;
    int64_t skipped = 0;
    bool arenaOk = true;
    if (w.family == "cantor") {
        uintptr_t k = uintptr_t(1) << w.j;
        uintptr_t B = static_cast<uintptr_t>(w.M) << (62 - w.j);
        arenaOk = mapArena(B - 2 * k - 8192, B + 2 * k + 8192);
    } else {
        uintptr_t B = static_cast<uintptr_t>(w.M) << 44;
        arenaOk = mapArena(B - 8192, B + (uintptr_t(1) << 21) + 8192);
        if (w.family == "low32") {
            arenaOk = arenaOk && mapArena(B + (uintptr_t(1) << 32) - 8192, B + (uintptr_t(1) << 32) + (uintptr_t(1) << 21) + 8192);
        }
    }
    if (!arenaOk) {
        note("could not map the arena for window " + w.family + " M=" + std::to_string(w.M) + " j=" + std::to_string(w.j));
    }
    for (int q = 0; q < kYPerWindow && arenaOk; ++q) {
        Quad qd;
        qd.family = w.family;
        if (w.family == "cantor") {
            uintptr_t k = uintptr_t(1) << w.j;
            uintptr_t B = static_cast<uintptr_t>(w.M) << (62 - w.j);
            // d must be the larger of (c,d) for the modelled key (it adds max(v1,v2)): d-c = 2y-1.5k > 0
            uintptr_t y = (k / 4) * 3 + 16 * (4 + rng.below(k / 32));
            qd.a = B - k / 2 - y;
            qd.b = B + y;
            qd.c = B + k - y;
            qd.d = B + y - k / 2;
        } else {
            uintptr_t B = static_cast<uintptr_t>(w.M) << 44;
            uintptr_t x = 16 * (1 + rng.below(4000));
            uintptr_t y = 16 * (5000 + rng.below(4000));
            qd.a = B + x;
            qd.b = B + y;
            if (w.family == "low32") {
                qd.c = qd.a + (uintptr_t(1) << 32);
                qd.d = qd.b + (uintptr_t(1) << 32);
            } else if (w.family == "sum") {
                uintptr_t t = 16 * (1 + rng.below(100));
                qd.c = qd.a + t;
                qd.d = qd.b - t;
            } else {
                uintptr_t F = uintptr_t(1) << 20;
                qd.c = qd.a ^ F;
                qd.d = qd.b ^ F;
            }
        }
        uintptr_t addrs[4] = {qd.a, qd.b, qd.c, qd.d};
        bool ok = true;
        for (int i = 0; i < 4 && ok; ++i) {
            for (int k2 = i + 1; k2 < 4; ++k2) {
                uintptr_t lo = std::min(addrs[i], addrs[k2]);
                uintptr_t hi = std::max(addrs[i], addrs[k2]);
                if (hi - lo < sizeof(Variable) + 64) {
                    ok = false;
                }
            }
            ok = ok && inArena(reinterpret_cast<void *>(addrs[i])) && inArena(reinterpret_cast<void *>(addrs[i] + sizeof(Variable)));
        }
        if (!ok) {
            ++skipped;
            continue;
        }
        gKeyOwner.clear();
        gCollisions.clear();
        char rp[256];
        snprintf(rp, sizeof rp, "family=%s M=%d j=%d a=%#lx b=%#lx (connected) c=%#lx d=%#lx (not connected)", w.family.c_str(), w.M, w.j, qd.a, qd.b, qd.c, qd.d);
        std::string replay = rp;
        {
            auto model = Model::create("m");
            VariablePtr v[4];
            const char *names[4] = {"a", "b", "c", "d"};
            bool placed = true;
            for (int i = 0; i < 4; ++i) {
                v[i] = variableAt(addrs[i], names[i]);
                placed = placed && reinterpret_cast<uintptr_t>(v[i].get()) == addrs[i];
                v[i]->setUnits("second");
                v[i]->setInterfaceType("public");
                auto c = Component::create(std::string("comp_") + names[i]);
                c->addVariable(v[i]);
                model->addComponent(c);
            }
            if (!placed) {
                note("placement failed (sizeof(Variable) allocation not seen): " + replay);
                ++skipped;
                continue;
            }
            Variable::addEquivalence(v[0], v[1]);
            auto analyser = Analyser::create();
            analyser->analyseModel(model);
            auto am = analyser->model();
            if (am == nullptr) {
                ++skipped;
                continue;
            }
            // oracle: the connection graph read back from the public lists
            bool abConnected = v[0]->equivalentVariableCount() == 1 && v[0]->equivalentVariable(0) == v[1];
            bool cdConnected = v[2]->equivalentVariableCount() != 0 || v[3]->equivalentVariableCount() != 0;
            int orderKind = static_cast<int>(rng.below(3));
            bool r_ab = false;
            bool r_cd = false;
            bool r_cd_first = false;
            if (orderKind == 0) {
                r_ab = am->areEquivalentVariables(v[0], v[1]);
                r_cd = am->areEquivalentVariables(v[2], v[3]);
            } else if (orderKind == 1) {
                r_cd_first = am->areEquivalentVariables(v[3], v[2]);
                r_ab = am->areEquivalentVariables(v[1], v[0]);
                r_cd = am->areEquivalentVariables(v[2], v[3]);
                if (r_cd_first != cdConnected) {
                    viol("C18", "placement:" + w.family + ":wrong-answer-before-any-cache", replay, replay);
                }
            } else {
                r_ab = am->areEquivalentVariables(v[0], v[1]);
                r_ab = am->areEquivalentVariables(v[0], v[1]) && r_ab;
                r_cd = am->areEquivalentVariables(v[3], v[2]);
            }
            if (r_ab != abConnected) {
                viol("C18", "placement:" + w.family + ":connected-pair-reported-unconnected", replay, replay);
            }
            if (r_cd != cdConnected) {
                viol("C18", "placement:" + w.family + ":unconnected-pair-reported-equivalent", "areEquivalentVariables(c,d) returned true although c and d have no equivalences; c->hasEquivalentVariable(d,true)=" + std::to_string(v[2]->hasEquivalentVariable(v[3], true)) + "; " + replay, replay);
            }
            if (v[2]->hasEquivalentVariable(v[3], true) != cdConnected || v[0]->hasEquivalentVariable(v[1], true) != abConnected) {
                viol("C18", "placement:" + w.family + ":hasEquivalentVariable-wrong", replay, replay);
            }
            for (const auto &cmsg : gCollisions) {
                viol("C18", "placement:" + w.family + ":cache-key-collision", cmsg + "; " + replay, replay);
            }
            ++done;
        }
    }
    verifSetEquivalenceCacheTrace(nullptr);
    stat("quadruples_placed_and_queried", done);
    stat("quadruples_skipped", skipped);
    stat("hook_trace_events", gTrace);
    stat("objects_placed", gPlaced);
    gTrace = 0;
    gPlaced = 0;
    seen("window", w.family + ":M" + std::to_string(w.M) + ":j" + std::to_string(w.j));
    caseInfo(w.family + std::to_string(w.M) + "_" + std::to_string(w.j) + "_" + std::to_string(ctx.index % perWindow), done > 0,
             w.family + " M=" + std::to_string(w.M) + " j=" + std::to_string(w.j) + " placed=" + std::to_string(done) + " skipped=" + std::to_string(skipped));
}
