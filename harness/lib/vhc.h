// libcellml-facing helpers: canonical dump, logger monitor, libxml2 global-state monitor, math canonicaliser.
#pragma once
#include <libcellml>
#include <string>
#include <vector>
#include <set>
#include <map>

namespace vh {

using namespace libcellml;

// ----- math / xml -----
// Canonical form of an XML fragment (possibly several sibling elements): blank text dropped, text trimmed,
// prefixes resolved to namespace URIs, attributes sorted.  Returns "!raw:" + trimmed input if it does not parse.
std::string canonXml(const std::string &xml);
// true iff the text is one well-formed XML document
bool wellFormed(const std::string &xml);
std::string xmlEscape(const std::string &s);
std::string trim(const std::string &s);
std::string fmtDouble(double d, int digits = 15);

// ----- canonical dump -----
struct DumpOptions
{
    bool ids = true;
    bool equivalences = true;
    bool math = true;
    bool imports = true;
    bool importedModels = false; // descend into ImportSource::model()
    int digits = 15;
    bool orderSensitive = false; // keep child order (default: order-insensitive)
};
std::string dumpModel(const ModelPtr &m, const DumpOptions &o = DumpOptions());
std::string dumpComponent(const ComponentPtr &c, const DumpOptions &o = DumpOptions());
std::string dumpUnits(const UnitsPtr &u, const DumpOptions &o = DumpOptions());
std::string dumpVariable(const VariablePtr &v, const DumpOptions &o = DumpOptions());
std::string dumpReset(const ResetPtr &r, const DumpOptions &o = DumpOptions());
std::string componentPath(const ComponentPtr &c);
std::string variablePath(const VariablePtr &v);
// first differing line between two dumps (for diagnostics)
std::string firstDiff(const std::string &a, const std::string &b);
// all variables of a model (depth first)
std::vector<VariablePtr> allVariables(const ModelPtr &m);
std::vector<ComponentPtr> allComponents(const ModelPtr &m);

// ----- issues -----
std::string levelName(Issue::Level l);
std::string ruleName(Issue::ReferenceRule r);
// Key for "the validator rejected a model that is valid by construction": rule of the first issue, plus a suffix for the
// shapes that are known findings (so that they, and only they, can be listed):
//   :ids-of-import-sources-only  the id of ONE import element counted once per imported entity
//   :mismatch-of-zero            connected variables whose units "do not match" by base^0 and factor 10^0 only
std::string rejectionKey(const Logger &validator);
std::string mismatchOfZero(const std::string &description); // ":mismatch-of-zero" or "" // numeric + heading-less name via url()
// ordered list "level|rule|itemtype|description" per issue
std::vector<std::string> issueList(const Logger &lg);
std::string issueSummary(const Logger &lg, size_t max = 8);

// Coherence monitor (C15).  Returns a list of problem keys; empty when coherent.  `service` names the caller for keys.
std::vector<std::string> checkLogger(const Logger &lg, const std::string &service);
// Convenience: run checkLogger and report each problem as a C15 violation; also records (service, rule) pairs seen.
void monitorLogger(const Logger &lg, const std::string &service, const std::string &replay = "");
// Failing result must be explained (C15)
void monitorExplained(bool failed, const Logger &lg, const std::string &service, const std::string &replay = "");

// ----- libxml2 process-global state (C12) -----
struct XmlGlobals
{
    int keepBlanks;
    int substituteEntities;
    int loadExtDtd;
    int pedantic;
    int lineNumbers;
    int doValidity;
    void *structuredErrorFunc;
    void *genericErrorFunc;
    std::string str() const;
    bool operator==(const XmlGlobals &o) const { return str() == o.str(); }
};
XmlGlobals readXmlGlobals();

} // namespace vh
