#!/usr/bin/env python3
"""Content-addressed builds of /repo's *working tree* and of the harness.

  vbuild.py lib <flavour>            -> prints build dir (builds if needed)
  vbuild.py driver <flavour> <name>  -> prints path of driver binary
  vbuild.py all                      -> build both flavours and every driver (setup)

Flavours:
  asan   gcc -O1 -g ASan+UBSan (fatal UBSan), hooks on
  plain  gcc -O2 -g, hooks on  (valgrind / allocator placement)
"""
import fcntl
import hashlib
import os
import shutil
import subprocess
import sys
import time

VERIF = os.path.dirname(os.path.dirname(os.path.abspath(__file__)))
REPO = os.environ.get("VERIF_REPO", "/repo")
CACHE = os.environ.get("VERIF_CACHE", os.path.join(VERIF, ".cache"))
GUARD = "HSORBY_LIBCELLML_VERIF"
JOBS = str(os.cpu_count() or 8)

FLAVOURS = {
    "asan": {
        "cxx": "g++",
        "flags": "-O1 -g -fno-omit-frame-pointer -fsanitize=address,undefined "
                 "-fno-sanitize-recover=undefined -D" + GUARD,
        "link": "-fsanitize=address,undefined",
    },
    "plain": {
        "cxx": "g++",
        "flags": "-O2 -g -fno-omit-frame-pointer -D" + GUARD,
        "link": "",
    },
}


def clean_env():
    env = dict(os.environ)
    path = [p for p in env.get("PATH", "").split(":") if "conda" not in p]
    for need in ("/usr/local/bin", "/usr/bin", "/bin"):
        if need not in path:
            path.append(need)
    env["PATH"] = ":".join(path)
    for k in list(env):
        if k.startswith("CONDA") or k in ("CMAKE_PREFIX_PATH", "PKG_CONFIG_PATH"):
            env.pop(k, None)
    return env


def tree_hash():
    """Hash of everything that influences the library build (working tree)."""
    h = hashlib.sha256()
    roots = ["CMakeLists.txt", "cmake", "src"]
    files = []
    for r in roots:
        p = os.path.join(REPO, r)
        if os.path.isfile(p):
            files.append(p)
        else:
            for d, dn, fn in os.walk(p):
                dn.sort()
                if os.path.basename(d) == "bindings" or "/bindings/" in d:
                    continue
                for f in sorted(fn):
                    files.append(os.path.join(d, f))
    for f in sorted(files):
        h.update(os.path.relpath(f, REPO).encode())
        h.update(b"\0")
        try:
            with open(f, "rb") as fh:
                h.update(hashlib.sha256(fh.read()).digest())
        except OSError:
            h.update(b"?")
    return h.hexdigest()[:16]


def log(msg):
    sys.stderr.write("[vbuild] %s\n" % msg)
    sys.stderr.flush()


class Lock:
    def __init__(self, path):
        os.makedirs(os.path.dirname(path), exist_ok=True)
        self.fh = open(path, "w")

    def __enter__(self):
        fcntl.flock(self.fh, fcntl.LOCK_EX)
        return self

    def __exit__(self, *a):
        fcntl.flock(self.fh, fcntl.LOCK_UN)
        self.fh.close()


def prune(flavour, keep_dir):
    root = os.path.join(CACHE, "build")
    if not os.path.isdir(root):
        return
    cands = []
    for d in os.listdir(root):
        if d.startswith(flavour + "-"):
            p = os.path.join(root, d)
            if p != keep_dir and os.path.isdir(p):
                cands.append((os.path.getmtime(p), p))
    cands.sort(reverse=True)
    now = time.time()
    for mt, p in cands[2:]:  # keep the two newest others + current; never prune a tree used in the last hour
        if now - mt < 3600:
            continue
        log("pruning " + p)
        shutil.rmtree(p, ignore_errors=True)


def build_lib(flavour):
    fl = FLAVOURS[flavour]
    th = tree_hash()
    bdir = os.path.join(CACHE, "build", "%s-%s" % (flavour, th))
    stamp = os.path.join(bdir, ".ok")
    if os.path.exists(stamp):
        os.utime(bdir, None)
        return bdir
    with Lock(os.path.join(CACHE, "build", ".lock-%s" % flavour)):
        if os.path.exists(stamp):
            return bdir
        t0 = time.time()
        log("building %s library for tree %s" % (flavour, th))
        shutil.rmtree(bdir, ignore_errors=True)
        os.makedirs(bdir)
        env = clean_env()
        cfg = ["cmake", "-G", "Ninja", "-S", REPO, "-B", bdir,
               "-DUNIT_TESTS=OFF", "-DBINDINGS_PYTHON=OFF", "-DCOVERAGE=OFF",
               "-DLLVM_COVERAGE=OFF", "-DMEMCHECK=OFF", "-DCLANG_TIDY=OFF",
               "-DBUILD_SHARED=OFF", "-DTWAE=OFF", "-DCOMPILER_CACHE=OFF",
               "-DBUILD_TYPE=Debug", "-DPYTHON_COVERAGE=OFF",
               "-DCMAKE_IGNORE_PREFIX_PATH=/root/miniconda",
               "-DCMAKE_CXX_COMPILER=" + fl["cxx"],
               "-DCMAKE_CXX_FLAGS=" + fl["flags"]]
        with open(os.path.join(bdir, "vbuild.log"), "w") as lf:
            r = subprocess.run(cfg, env=env, stdout=lf, stderr=subprocess.STDOUT)
            if r.returncode != 0:
                log("cmake configure failed, see %s/vbuild.log" % bdir)
                sys.exit(2)
            r = subprocess.run(["cmake", "--build", bdir, "-j", JOBS, "--target", "cellml"],
                               env=env, stdout=lf, stderr=subprocess.STDOUT)
            if r.returncode != 0:
                log("library build failed, see %s/vbuild.log" % bdir)
                sys.stderr.write(open(os.path.join(bdir, "vbuild.log")).read()[-4000:])
                sys.exit(2)
        open(stamp, "w").write(th)
        log("built in %.1fs" % (time.time() - t0))
        prune(flavour, bdir)
        return bdir


def find_lib(bdir):
    libs = []
    for n in ("libcellmld.a", "libcellml.a"):
        p = os.path.join(bdir, "src", n)
        if os.path.exists(p):
            libs.append(p)
            break
    if not libs:
        log("no static library in " + bdir)
        sys.exit(2)
    for n in ("libcellml_debug_utilitiesd.a", "libcellml_debug_utilities.a"):
        p = os.path.join(bdir, "src", n)
        if os.path.exists(p):
            libs.append(p)
    return libs


def file_hash(paths, extra=""):
    h = hashlib.sha256(extra.encode())
    for p in sorted(paths):
        h.update(p.encode())
        with open(p, "rb") as fh:
            h.update(fh.read())
    return h.hexdigest()[:12]


def harness_sources():
    hdir = os.path.join(VERIF, "harness")
    libsrc, headers = [], []
    for f in sorted(os.listdir(os.path.join(hdir, "lib"))):
        p = os.path.join(hdir, "lib", f)
        if f.endswith(".cpp"):
            libsrc.append(p)
        elif f.endswith(".h"):
            headers.append(p)
    return hdir, libsrc, headers


def cxx_cmd(flavour, bdir):
    fl = FLAVOURS[flavour]
    inc = ["-I" + os.path.join(REPO, "src", "api"),
           "-I" + os.path.join(REPO, "src", "api", "libcellml", "module"),
           "-I" + os.path.join(bdir, "src", "api"),
           "-I" + os.path.join(VERIF, "harness", "lib"),
           "-I/usr/include/libxml2"]
    return [fl["cxx"], "-std=c++17", "-Wall", "-Wno-unused-function"] + fl["flags"].split() + inc


def build_harness_lib(flavour, bdir):
    hdir, libsrc, headers = harness_sources()
    hh = file_hash(libsrc + headers, FLAVOURS[flavour]["flags"])
    odir = os.path.join(bdir, "vh", hh)
    lib = os.path.join(odir, "libvh.a")
    if os.path.exists(lib):
        return lib, hh
    with Lock(os.path.join(bdir, ".lock-vh")):
        if os.path.exists(lib):
            return lib, hh
        shutil.rmtree(os.path.join(bdir, "vh"), ignore_errors=True)
        os.makedirs(odir)
        env = clean_env()
        procs = []
        objs = []
        for s in libsrc:
            o = os.path.join(odir, os.path.basename(s)[:-4] + ".o")
            objs.append(o)
            procs.append((s, subprocess.Popen(cxx_cmd(flavour, bdir) + ["-c", s, "-o", o], env=env)))
        bad = False
        for s, p in procs:
            if p.wait() != 0:
                log("harness lib compile failed: " + s)
                bad = True
        if bad:
            sys.exit(2)
        tmp = lib + ".tmp"
        subprocess.check_call(["ar", "rcs", tmp] + objs)
        os.rename(tmp, lib)
        return lib, hh


def build_driver(flavour, name, bdir=None):
    bdir = bdir or build_lib(flavour)
    vhlib, hh = build_harness_lib(flavour, bdir)
    src = os.path.join(VERIF, "harness", "drivers", name + ".cpp")
    if not os.path.exists(src):
        log("no such driver " + src)
        sys.exit(2)
    dh = file_hash([src], hh)
    ddir = os.path.join(bdir, "drv")
    os.makedirs(ddir, exist_ok=True)
    out = os.path.join(ddir, "%s-%s" % (name, dh))
    if os.path.exists(out):
        return out
    with Lock(os.path.join(ddir, ".lock-" + name)):
        if os.path.exists(out):
            return out
        for f in os.listdir(ddir):
            # older binaries of this driver may still be in use by a run that started earlier: keep them for an hour
            fp = os.path.join(ddir, f)
            if f.startswith(name + "-") and not f.endswith(".tmp") and time.time() - os.path.getmtime(fp) > 3600:
                os.unlink(fp)
        fl = FLAVOURS[flavour]
        cmd = cxx_cmd(flavour, bdir) + [src, "-o", out + ".tmp", vhlib] + find_lib(bdir) + \
            fl["link"].split() + ["-lxml2", "-lz", "-ldl", "-lpthread"]
        r = subprocess.run(cmd, env=clean_env())
        if r.returncode != 0:
            log("driver compile failed: " + name)
            sys.exit(2)
        os.rename(out + ".tmp", out)
        return out


def all_drivers():
    """(flavour, driver) pairs used by the enabled checks (checks/enabled.txt)."""
    import json
    cdir = os.path.join(VERIF, "checks")
    enabled = open(os.path.join(cdir, "enabled.txt")).read().split()
    out = []
    for pid in enabled:
        p = os.path.join(cdir, pid + ".json")
        if not os.path.exists(p):
            continue
        for part in json.load(open(p)).get("parts", []):
            j = (part.get("flavour", "asan"), part["driver"])
            if j not in out:
                out.append(j)
    return out


def main(argv):
    if len(argv) < 2:
        print(__doc__)
        return 2
    if argv[1] == "hash":
        print(tree_hash())
    elif argv[1] == "lib":
        print(build_lib(argv[2]))
    elif argv[1] == "driver":
        print(build_driver(argv[2], argv[3]))
    elif argv[1] == "all":
        from concurrent.futures import ThreadPoolExecutor
        flavours = argv[2:] or sorted(set(j[0] for j in all_drivers()) | {"asan"})
        with ThreadPoolExecutor(2) as ex:
            dirs = list(ex.map(build_lib, flavours))
        for fl, bd in zip(flavours, dirs):
            build_harness_lib(fl, bd)
        jobs = [j for j in all_drivers() if j[0] in flavours]
        with ThreadPoolExecutor(8) as ex:
            list(ex.map(lambda j: build_driver(j[0], j[1]), jobs))
        print("ok")
    else:
        print(__doc__)
        return 2
    return 0


if __name__ == "__main__":
    sys.exit(main(sys.argv))
