#!/bin/bash
# Confirms a candidate seeded change delivered by a sub-agent:
#   tools/seedconfirm.sh <dir with patch.diff demo.cpp meta.json> <name>
# In a scratch worktree of /repo (removed afterwards): the patch applies, the library builds, the whole ctest suite
# passes with it, the demo exits 0 against the unmodified HEAD build and non-zero against the patched build.
# On success the four files are copied to /verif/seeded/<name>/ and meta.json gets a "confirmed" block.
set -u
SRC=$1
NAME=$2
WT=/tmp/seedconfirm-$NAME
OUT=/verif/seeded/$NAME
rm -rf "$WT"
git -C /repo worktree prune
git -C /repo worktree add -q "$WT" HEAD || exit 2
cleanup() { git -C /repo worktree remove --force "$WT" >/dev/null 2>&1; rm -rf "$WT"; }
trap cleanup EXIT
CFG="-DCMAKE_IGNORE_PREFIX_PATH=/root/miniconda -DBINDINGS_PYTHON=OFF -DCOVERAGE=OFF -DLLVM_COVERAGE=OFF -DMEMCHECK=OFF -DCLANG_TIDY=OFF -DCOMPILER_CACHE=OFF -DTWAE=OFF -DBUILD_TYPE=Release"
demo_build() { # $1 = build dir, $2 = output
  g++ -std=c++17 "$SRC/demo.cpp" -I"$WT/src/api" -I"$WT/src/api/libcellml/module" -I"$1/src/api" -L"$1/src" -lcellml -Wl,-rpath,"$1/src" -o "$2" 2>"$WT/demo_build.log"
}
# 1. unmodified build (library only) + demo
cmake -G Ninja -S "$WT" -B "$WT/_b0" $CFG -DUNIT_TESTS=OFF >/dev/null 2>&1 && cmake --build "$WT/_b0" -j8 >/dev/null 2>&1 || { echo "CONFIRM-FAIL: baseline build"; exit 1; }
demo_build "$WT/_b0" "$WT/demo0" || { echo "CONFIRM-FAIL: demo does not build"; cat "$WT/demo_build.log" | head; exit 1; }
( cd "$WT" && timeout 300 ./demo0 >/dev/null 2>&1 ); RC0=$?
# 2. patched build with tests
git -C "$WT" apply "$SRC/patch.diff" || { echo "CONFIRM-FAIL: patch does not apply"; exit 1; }
cmake -G Ninja -S "$WT" -B "$WT/_b1" $CFG >/dev/null 2>&1 && cmake --build "$WT/_b1" -j12 >"$WT/build1.log" 2>&1 || { echo "CONFIRM-FAIL: patched build"; tail -5 "$WT/build1.log"; exit 1; }
ctest --test-dir "$WT/_b1" -j12 --timeout 900 >"$WT/ctest.log" 2>&1; CT=$?
SUMMARY=$(grep "tests passed" "$WT/ctest.log" | tail -1)
demo_build "$WT/_b1" "$WT/demo1" || { echo "CONFIRM-FAIL: demo does not build against patched tree"; exit 1; }
( cd "$WT" && timeout 300 ./demo1 >"$WT/demo1.out" 2>&1 ); RC1=$?
echo "unmodified demo exit=$RC0  patched demo exit=$RC1  ctest rc=$CT ($SUMMARY)"
if [ "$RC0" -ne 0 ] || [ "$RC1" -eq 0 ] || [ "$CT" -ne 0 ]; then
  echo "CONFIRM-FAIL: criteria not met"; grep -i "failed" "$WT/ctest.log" | head -5; exit 1
fi
mkdir -p "$OUT"
cp "$SRC/patch.diff" "$SRC/demo.cpp" "$OUT/"
[ -f "$SRC/README.txt" ] && cp "$SRC/README.txt" "$OUT/"
python3 - "$SRC/meta.json" "$OUT/meta.json" "$RC0" "$RC1" "$SUMMARY" <<'PY'
import json, sys
m = json.load(open(sys.argv[1]))
m["confirmed"] = {"by": "tools/seedconfirm.sh in a scratch worktree of /repo HEAD", "demo_exit_unmodified": int(sys.argv[3]),
                  "demo_exit_patched": int(sys.argv[4]), "ctest_with_patch": sys.argv[5].strip()}
json.dump(m, open(sys.argv[2], "w"), indent=1)
PY
echo "CONFIRMED -> $OUT"
