#include "pipeline.h"
#include "vh.h"

namespace vh {

static void st(const PipelineOptions &o, PipelineResult &r, const char *name, char letter)
{
    if (o.markStages) {
        stage(name);
    }
    r.stagesReached += letter;
}

static std::string issuesDigest(const Logger &lg)
{
    std::string s;
    for (const auto &l : issueList(lg)) {
        s += l + "\n";
    }
    return s;
}

PipelineResult runPipeline(const std::string &input, const PipelineOptions &opt)
{
    PipelineResult r;
    std::string mode = opt.strict ? "strict" : "permissive";

    st(opt, r, "parse", 'P');
    auto parser = Parser::create(opt.strict);
    auto model = parser->parseModel(input);
    monitorLogger(*parser, "Parser::parseModel", opt.replay);
    monitorExplained(model == nullptr, *parser, "Parser::parseModel", opt.replay);
    r.parseIssues = parser->issueCount();
    r.digest += "PARSE issues:\n" + issuesDigest(*parser);
    if (model == nullptr) {
        return r;
    }
    r.parsed = true;
    r.digest += "PARSED:\n" + dumpModel(model) + "\n";

    st(opt, r, "validate", 'V');
    auto validator = Validator::create();
    validator->validateModel(model);
    monitorLogger(*validator, "Validator::validateModel", opt.replay);
    r.validatorIssues = validator->issueCount();
    r.digest += "VALIDATE issues:\n" + issuesDigest(*validator);

    st(opt, r, "print", 'p');
    auto printer = Printer::create();
    std::string printed = printer->printModel(model, false);
    monitorLogger(*printer, "Printer::printModel", opt.replay);
    r.digest += "PRINT:\n" + printed + "\n";
    st(opt, r, "print-autoids", 'a');
    {
        std::string printedIds = printer->printModel(model, true);
        monitorLogger(*printer, "Printer::printModel(autoIds)", opt.replay);
        r.digest += "PRINTIDS:" + std::to_string(printedIds.size()) + "\n";
    }

    st(opt, r, "queries", 'q');
    {
        bool d = model->isDefined();
        bool hi = model->hasImports();
        bool hu = model->hasUnresolvedImports();
        bool ul = model->hasUnlinkedUnits();
        auto reqs = model->importRequirements();
        r.digest += std::string("QUERIES: defined=") + (d ? "1" : "0") + " hasImports=" + (hi ? "1" : "0") + " unresolved=" + (hu ? "1" : "0") + " unlinked=" + (ul ? "1" : "0") + " reqs=" + std::to_string(reqs.size()) + "\n";
        for (const auto &c : allComponents(model)) {
            (void)c->isDefined();
            (void)c->requiresImports();
            (void)c->isResolved();
        }
        for (size_t i = 0; i < model->unitsCount(); ++i) {
            auto u = model->units(i);
            (void)u->isDefined();
            (void)u->requiresImports();
            (void)u->isBaseUnit();
            (void)u->isResolved();
        }
    }
    if (opt.unitsPairs) {
        st(opt, r, "units-pairs", 'u');
        size_t n = std::min<size_t>(model->unitsCount(), 6);
        for (size_t i = 0; i < n; ++i) {
            for (size_t j = 0; j < n; ++j) {
                bool c = Units::compatible(model->units(i), model->units(j));
                bool e = Units::equivalent(model->units(i), model->units(j));
                double f = Units::scalingFactor(model->units(i), model->units(j));
                r.digest += std::string("U") + (c ? "c" : "-") + (e ? "e" : "-") + fmtDouble(f, 12) + " ";
            }
        }
        r.digest += "\n";
    }
    if (opt.cloneEquals) {
        st(opt, r, "clone-equals", 'c');
        auto cl = model->clone();
        bool eq = model->equals(cl);
        bool eq2 = cl->equals(model);
        r.digest += std::string("CLONE eq=") + (eq ? "1" : "0") + (eq2 ? "1" : "0") + "\n";
    }

    st(opt, r, "fix-link", 'f');
    {
        // on a clone so later stages see the parsed model
        auto cl = model->clone();
        (void)cl->fixVariableInterfaces();
        (void)cl->linkUnits();
        cl->clean();
    }

    ModelPtr forAnalysis = model;
    if (!opt.baseDir.empty()) {
        st(opt, r, "resolve", 'R');
        auto importer = Importer::create(opt.strict);
        bool ok = importer->resolveImports(model, opt.baseDir);
        monitorLogger(*importer, "Importer::resolveImports", opt.replay);
        monitorExplained(!ok, *importer, "Importer::resolveImports", opt.replay);
        r.resolved = ok;
        r.digest += std::string("RESOLVE ok=") + (ok ? "1" : "0") + " issues:\n" + issuesDigest(*importer);
        st(opt, r, "post-resolve-queries", 'Q');
        (void)model->hasUnresolvedImports();
        (void)model->isDefined();
        for (size_t i = 0; i < model->unitsCount(); ++i) {
            (void)model->units(i)->isDefined();
            (void)model->units(i)->isResolved();
        }
        st(opt, r, "validate-resolved", 'W');
        validator->validateModel(model);
        monitorLogger(*validator, "Validator::validateModel(resolved)", opt.replay);
        st(opt, r, "flatten", 'F');
        size_t before = importer->issueCount();
        auto flat = importer->flattenModel(model);
        monitorLogger(*importer, "Importer::flattenModel", opt.replay);
        monitorExplained(flat == nullptr, *importer, "Importer::flattenModel", opt.replay);
        (void)before;
        r.flattened = flat != nullptr;
        r.digest += std::string("FLATTEN ok=") + (flat != nullptr ? "1" : "0") + " issues:\n" + issuesDigest(*importer);
        if (flat != nullptr) {
            r.digest += dumpModel(flat) + "\n";
            forAnalysis = flat;
            st(opt, r, "validate-flat", 'w');
            validator->validateModel(flat);
            monitorLogger(*validator, "Validator::validateModel(flat)", opt.replay);
        }
    }

    st(opt, r, "analyse", 'A');
    auto analyser = Analyser::create();
    analyser->analyseModel(forAnalysis);
    monitorLogger(*analyser, "Analyser::analyseModel", opt.replay);
    auto am = analyser->model();
    if (am != nullptr) {
        r.analyserType = AnalyserModel::typeAsString(am->type());
        auto t = am->type();
        bool bad = t == AnalyserModel::Type::INVALID || t == AnalyserModel::Type::UNDERCONSTRAINED || t == AnalyserModel::Type::OVERCONSTRAINED || t == AnalyserModel::Type::UNSUITABLY_CONSTRAINED;
        monitorExplained(bad, *analyser, "Analyser::analyseModel(" + r.analyserType + ")", opt.replay);
    }
    r.digest += "ANALYSE type=" + r.analyserType + " issues:\n" + issuesDigest(*analyser);

    if (opt.generate && am != nullptr) {
        st(opt, r, "generate-c", 'G');
        auto gen = Generator::create();
        gen->setModel(am);
        std::string ci = gen->interfaceCode();
        std::string cc = gen->implementationCode();
        r.cCodeSize = ci.size() + cc.size();
        st(opt, r, "generate-py", 'Y');
        gen->setProfile(GeneratorProfile::create(GeneratorProfile::Profile::PYTHON));
        std::string pi = gen->interfaceCode();
        std::string pc = gen->implementationCode();
        r.pyCodeSize = pi.size() + pc.size();
        r.digest += "GEN C:\n" + ci + cc + "\nGEN PY:\n" + pi + pc + "\n";
        if (!am->isValid() && (r.cCodeSize + r.pyCodeSize) != 0U) {
            viol("C17", "code-for-invalid-model:" + r.analyserType, "non-empty generated code for analyser model type " + r.analyserType, opt.replay);
        }
        // touch the analyser model accessors
        st(opt, r, "analyser-model-walk", 'k');
        if (am->isValid()) {
            for (size_t i = 0; i < am->equationCount(); ++i) {
                auto eq = am->equation(i);
                (void)eq->type();
                (void)Generator::equationCode(eq->ast());
                for (size_t j = 0; j < eq->variableCount(); ++j) {
                    (void)eq->variable(j)->variable()->name();
                }
            }
        }
    }

    if (opt.annotate) {
        st(opt, r, "annotate", 'N');
        auto annotator = Annotator::create();
        auto cl = model->clone();
        annotator->setModel(cl);
        bool ok = annotator->assignAllIds();
        monitorLogger(*annotator, "Annotator::assignAllIds", opt.replay);
        // false is not a failure here: "true if at least one identifier was assigned" (a model whose every item
        // already carries an id yields false and nothing to explain)
        (void)ok;
        (void)annotator->ids();
        (void)annotator->duplicateIds();
    }
    st(opt, r, "done", '.');
    return r;
}

} // namespace vh
