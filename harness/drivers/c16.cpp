// C16: numeric text is recognised per the CellML grammar and never crashes.
//
// Reference model (all in this file): the numeric grammar of the property statement
//   real    = -?(\d+\.?\d*|\.\d+)([eE][+-]?\d+)?
//   integer = [+-]?\d+
// with strtod/strtoll for values.  The library's verdict on a string is observed by putting the string into
// a document at a position where a number is expected and looking at the issues the Parser / Validator attach
// to that item; values are read back through the public getters.
//
// Case layout: index < 8 * nBatches  ->  position = index % 8, batch = index / 8 (one batch = kBatch candidate
// strings out of the seed-shuffled list [all 66 430 strings of length <= 5 over "07+-.eE a"] + extremes + random
// longer strings); the remaining cases are print/parse round trips of numbers set through the API.
#include "vh.h"
#include "vhc.h"

#include <cerrno>
#include <climits>
#include <cmath>
#include <cstdlib>
#include <cstring>
#include <cxxabi.h>
#include <limits>
#include <typeinfo>
#include <algorithm>
#include <unordered_map>

using namespace vh;

namespace {

const char *PROP = "C16";

// =====================================================================================================
// Reference model
// =====================================================================================================

bool isDig(char c)
{
    return c >= '0' && c <= '9';
}

// -?(\d+\.?\d*|\.\d+)([eE][+-]?\d+)?
bool refReal(const std::string &s, bool *hasExponent = nullptr)
{
    size_t i = 0;
    size_t n = s.size();
    if (i < n && s[i] == '-') {
        ++i;
    }
    size_t a = i;
    while (i < n && isDig(s[i])) {
        ++i;
    }
    size_t digits = i - a;
    if (i < n && s[i] == '.') {
        ++i;
        a = i;
        while (i < n && isDig(s[i])) {
            ++i;
        }
        digits += i - a;
    }
    if (digits == 0) {
        return false;
    }
    bool he = false;
    if (i < n && (s[i] == 'e' || s[i] == 'E')) {
        he = true;
        ++i;
        if (i < n && (s[i] == '+' || s[i] == '-')) {
            ++i;
        }
        a = i;
        while (i < n && isDig(s[i])) {
            ++i;
        }
        if (i == a) {
            return false;
        }
    }
    if (i != n) {
        return false;
    }
    if (hasExponent != nullptr) {
        *hasExponent = he;
    }
    return true;
}

// [+-]?\d+
bool refInt(const std::string &s)
{
    size_t i = 0;
    size_t n = s.size();
    if (i < n && (s[i] == '+' || s[i] == '-')) {
        ++i;
    }
    size_t a = i;
    while (i < n && isDig(s[i])) {
        ++i;
    }
    return i > a && i == n;
}

struct RefValue
{
    bool outOfRange = false; // not representable: overflow, or underflow (ERANGE)
    double d = 0.0;
    long long i = 0;
};

RefValue refRealValue(const std::string &s)
{
    RefValue v;
    errno = 0;
    char *end = nullptr;
    v.d = strtod(s.c_str(), &end);
    v.outOfRange = errno == ERANGE || std::isinf(v.d) || std::isnan(v.d) || end != s.c_str() + s.size();
    return v;
}

RefValue refIntValue(const std::string &s)
{
    RefValue v;
    errno = 0;
    char *end = nullptr;
    v.i = strtoll(s.c_str(), &end, 10);
    v.outOfRange = errno == ERANGE || v.i > INT_MAX || v.i < INT_MIN || end != s.c_str() + s.size();
    return v;
}

// Structural class of a string: digit runs collapsed to 'd', space -> '_', tab -> 't', newline -> 'n',
// other printable ASCII kept, anything else '?'.
std::string classOf(const std::string &s)
{
    std::string c;
    for (char ch : s) {
        if (isDig(ch)) {
            if (c.empty() || c.back() != 'd') {
                c += 'd';
            }
        } else if (ch == ' ') {
            c += '_';
        } else if (ch == '\t') {
            c += 't';
        } else if (ch == '\n') {
            c += 'n';
        } else if (ch > 32 && ch < 127) {
            c += ch;
        } else {
            c += '?';
        }
    }
    return c.empty() ? "<empty>" : c;
}

std::string stripWs(const std::string &s)
{
    size_t a = 0;
    size_t b = s.size();
    while (a < b && isspace(static_cast<unsigned char>(s[a])) != 0) {
        ++a;
    }
    while (b > a && isspace(static_cast<unsigned char>(s[b - 1])) != 0) {
        --b;
    }
    return s.substr(a, b - a);
}

// =====================================================================================================
// Positions
// =====================================================================================================

enum Pos
{
    P_EXPONENT,
    P_MULTIPLIER,
    P_PREFIX,
    P_ORDER,
    P_INITIAL,
    P_CN,
    P_EN_MANTISSA,
    P_EN_EXPONENT,
    P_COUNT
};

const char *posName(int p)
{
    static const char *n[] = {"exponent", "multiplier", "prefix", "order", "initial_value", "cn", "en_mantissa", "en_exponent"};
    return n[p];
}

bool posIsInt(int p)
{
    return p == P_PREFIX || p == P_ORDER || p == P_EN_EXPONENT;
}

bool posIsContent(int p)
{
    return p >= P_CN;
}

enum Gram
{
    G_REJECT,
    G_ACCEPT,
    G_UNDECIDED
};

// The statement lists "cn content" among the positions of a CellML real (exponent part allowed).  The library only allows a
// *basic* real there (it cites section 2.12.5.1 of the CellML 2.0 specification for rule MATH_CN_FORMAT), so <cn>1e5</cn> is reported.  true = judge by the
// statement as written (the deviation is then a recorded finding); false = only monitor such strings for exceptions.
const bool kJudgeCnExponentForms = true;

// what the statement says about text `s` (already stripped for content positions) at position p
Gram grammar(int p, const std::string &s)
{
    if (posIsInt(p)) {
        return refInt(s) ? G_ACCEPT : G_REJECT;
    }
    bool he = false;
    bool r = refReal(s, &he);
    if (p == P_CN && r && he && !kJudgeCnExponentForms) {
        return G_UNDECIDED;
    }
    if (p == P_EN_MANTISSA && r && he) {
        // The statement names "cn content" (real) and "e-notation exponent" (integer); whether a mantissa may itself
        // carry an exponent is not stated.  Such strings are only monitored for exceptions.
        return G_UNDECIDED;
    }
    return r ? G_ACCEPT : G_REJECT;
}

// =====================================================================================================
// Candidate strings
// =====================================================================================================

const char *kAlphabet = "07+-.eE a";
const size_t kBatch = 500;

std::vector<std::string> extremes()
{
    std::string d400(400, '7');
    std::string z400(400, '0');
    std::vector<std::string> v = {
        "1e308", "1e309", "-1e309", "1e+308", "1E308", "1.7976931348623157e308", "1.7976931348623159e308", "1.8e308",
        "1e-400", "-1e-400", "1e-323", "4.9e-324", "2e-324", "2.2250738585072014e-308", "2.2250738585072009e-308", "1e-310",
        "1e999", "1e-999", "0e999", "0.0e-999", "1e2147483647", "1e2147483648", "1e-2147483649", "1e99999999999999999999",
        "0e99999999999999999999", "1e-99999999999999999999",
        d400, "-" + d400, d400 + "." + d400, "0." + z400 + "1", "." + d400, d400 + "e-400", "1" + z400, "1" + z400 + "e-400", z400 + "1",
        "2147483647", "2147483648", "-2147483648", "-2147483649", "+2147483647", "+2147483648", "02147483647", "0000000000000000000007",
        "4294967295", "4294967296", "4294967297", "9223372036854775807", "9223372036854775808", "-9223372036854775808", "-9223372036854775809",
        "18446744073709551616", "99999999999999999999", "-99999999999999999999", "+99999999999999999999",
        "-0", "+0", "-0.0", "00", "-00", "+1", "+1.5", "1.", ".5", "-.5", "1.e5", ".5e-3", "-1.5E+10", "1e+0", "1e-0", "1e00007",
        "-", ".", "-.", "+", "+.", "e", "E", "-e5", ".e5", "-.e5", "-.E-5", "-e", ".e", "1e", "1e+", "1e-", "e5", "1e5e5", "1e5.0", "1.5.5", "--1", "-+1", "+-1", "1-", "1+",
        "0x10", "0X1P3", "1f", "1L", "1d5", "inf", "-inf", "nan", "NaN", "INF", "infinity", "1,5", "1_000", "1 000", "1 e5", "1e 5", "- 1", " 1", "1 ", " 1 ", "  ", " ",
        "\t1", "1\t", "1\n", "\n1", "1\t5",
        "\xef\xbc\x91", "\xd9\xa1", "\xc2\xa0" "1", "1\xc2\xa0", "\xe2\x88\x92" "1", "1\xc2\xb2",
        "a", "x", "pi", "true"};
    return v;
}

int randomCount(const std::string &tier)
{
    return tier == "thorough" ? 60000 : 5500;
}

std::string genGrammarReal(Rng &r)
{
    static const char *digs = "0123456789";
    std::string s;
    if (r.chance(0.4)) {
        s += '-';
    }
    int form = r.range(0, 3);
    int a = r.range(1, 4);
    int b = r.range(1, 4);
    if (form == 0) { // ddd
        for (int i = 0; i < a; ++i) s += digs[r.below(10)];
    } else if (form == 1) { // ddd.
        for (int i = 0; i < a; ++i) s += digs[r.below(10)];
        s += '.';
    } else if (form == 2) { // ddd.ddd
        for (int i = 0; i < a; ++i) s += digs[r.below(10)];
        s += '.';
        for (int i = 0; i < b; ++i) s += digs[r.below(10)];
    } else { // .ddd
        s += '.';
        for (int i = 0; i < b; ++i) s += digs[r.below(10)];
    }
    if (r.chance(0.5)) {
        s += r.chance(0.5) ? 'e' : 'E';
        int sg = r.range(0, 2);
        if (sg == 1) s += '+';
        if (sg == 2) s += '-';
        int e = r.range(1, 3);
        for (int i = 0; i < e; ++i) s += digs[r.below(10)];
    }
    return s;
}

std::string genGrammarInt(Rng &r)
{
    static const char *digs = "0123456789";
    std::string s;
    int sg = r.range(0, 2);
    if (sg == 1) s += '+';
    if (sg == 2) s += '-';
    int a = r.range(1, 11);
    for (int i = 0; i < a; ++i) s += digs[r.below(10)];
    return s;
}

std::string genRandomLong(Rng &r)
{
    static const std::string alpha = "0123456789+-.eE a";
    int kind = r.range(0, 9);
    std::string s;
    if (kind < 2) { // uniform junk, length 6..12
        int n = r.range(6, 12);
        for (int i = 0; i < n; ++i) s += alpha[r.below(alpha.size())];
        return s;
    }
    s = r.chance(0.3) ? genGrammarInt(r) : genGrammarReal(r);
    if (kind < 6) {
        return s.substr(0, 12);
    }
    // one or two mutations
    int m = r.range(1, 2);
    for (int k = 0; k < m; ++k) {
        int op = r.range(0, 2);
        size_t at = s.empty() ? 0 : r.below(s.size() + (op == 0 ? 1 : 0));
        char c = alpha[r.below(alpha.size())];
        if (op == 0) {
            s.insert(s.begin() + static_cast<long>(at), c);
        } else if (op == 1 && !s.empty()) {
            s[at] = c;
        } else if (!s.empty()) {
            s.erase(at, 1);
        }
    }
    return s.substr(0, 12);
}

struct CandSet
{
    std::string tier;
    uint64_t seed = 0;
    std::vector<std::string> all;
    size_t exhaustive = 0;
};

const CandSet &candidates(const std::string &tier, uint64_t seed)
{
    static CandSet cs;
    if (!cs.all.empty() && cs.tier == tier && cs.seed == seed) {
        return cs;
    }
    cs.tier = tier;
    cs.seed = seed;
    cs.all.clear();
    // exhaustive part
    size_t na = strlen(kAlphabet);
    std::vector<std::string> level = {""};
    cs.all.push_back("");
    for (int len = 1; len <= 5; ++len) {
        std::vector<std::string> next;
        next.reserve(level.size() * na);
        for (const auto &p : level) {
            for (size_t k = 0; k < na; ++k) {
                next.push_back(p + kAlphabet[k]);
            }
        }
        cs.all.insert(cs.all.end(), next.begin(), next.end());
        level.swap(next);
    }
    cs.exhaustive = cs.all.size();
    for (const auto &e : extremes()) {
        cs.all.push_back(e);
    }
    Rng r(seed ^ 0xC16C16ULL, 77);
    int nr = randomCount(tier);
    for (int i = 0; i < nr; ++i) {
        cs.all.push_back(genRandomLong(r));
    }
    Rng sh(seed ^ 0x5EEDULL, 78);
    sh.shuffle(cs.all);
    return cs;
}

size_t totalCandidates(const std::string &tier)
{
    size_t ex = 1;
    size_t p = 1;
    for (int i = 0; i < 5; ++i) {
        p *= strlen(kAlphabet);
        ex += p;
    }
    return ex + extremes().size() + static_cast<size_t>(randomCount(tier));
}

int64_t roundTripCases(const std::string &tier)
{
    return tier == "thorough" ? 1000 : 60;
}
const int kRoundTripItems = 200;

// =====================================================================================================
// Documents
// =====================================================================================================

const char *NS = "http://www.cellml.org/cellml/2.0#";
const char *MNS = "http://www.w3.org/1998/Math/MathML";

std::string esc(const std::string &s)
{
    return xmlEscape(s);
}

std::string head()
{
    return std::string("<?xml version=\"1.0\" encoding=\"UTF-8\"?>\n<model xmlns=\"") + NS + "\" name=\"m\">\n";
}

std::string oneMath()
{
    return std::string("<math xmlns=\"") + MNS + "\" xmlns:cellml=\"" + NS + "\"><apply><eq/><ci>v</ci><cn cellml:units=\"dimensionless\">1</cn></apply></math>";
}

std::string docFor(int p, const std::vector<const std::string *> &items)
{
    std::string d = head();
    switch (p) {
    case P_EXPONENT:
    case P_MULTIPLIER:
        for (size_t i = 0; i < items.size(); ++i) {
            d += "<units name=\"u" + std::to_string(i) + "\"><unit units=\"second\" " + posName(p) + "=\"" + esc(*items[i]) + "\"/></units>\n";
        }
        break;
    case P_PREFIX:
        d += "<units name=\"ref\"><unit units=\"metre\"/></units>\n";
        for (size_t i = 0; i < items.size(); ++i) {
            d += "<units name=\"u" + std::to_string(i) + "\"><unit units=\"metre\" prefix=\"" + esc(*items[i]) + "\"/></units>\n";
        }
        break;
    case P_ORDER:
        d += "<component name=\"c\"><variable name=\"v\" units=\"dimensionless\"/>\n";
        for (size_t i = 0; i < items.size(); ++i) {
            d += "<reset variable=\"v\" test_variable=\"v\" order=\"" + esc(*items[i]) + "\"><test_value>" + oneMath() + "</test_value><reset_value>" + oneMath() + "</reset_value></reset>\n";
        }
        d += "</component>\n";
        break;
    case P_INITIAL:
        d += "<component name=\"c\">\n";
        for (size_t i = 0; i < items.size(); ++i) {
            d += "<variable name=\"v" + std::to_string(i) + "\" units=\"dimensionless\" initial_value=\"" + esc(*items[i]) + "\"/>\n";
        }
        d += "</component>\n";
        break;
    default: {
        d += "<component name=\"c\"><variable name=\"v\" units=\"dimensionless\"/>\n<math xmlns=\"" + std::string(MNS) + "\" xmlns:cellml=\"" + NS + "\">\n";
        for (const auto *it : items) {
            d += "<apply><eq/><ci>v</ci>";
            if (p == P_CN) {
                d += "<cn cellml:units=\"dimensionless\">" + esc(*it) + "</cn>";
            } else if (p == P_EN_MANTISSA) {
                d += "<cn cellml:units=\"dimensionless\" type=\"e-notation\">" + esc(*it) + "<sep/>3</cn>";
            } else {
                d += "<cn cellml:units=\"dimensionless\" type=\"e-notation\">1.5<sep/>" + esc(*it) + "</cn>";
            }
            d += "</apply>\n";
        }
        d += "</math></component>\n";
    }
    }
    d += "</model>\n";
    return d;
}

std::string excName(const std::exception &e)
{
    int st = 0;
    char *dm = abi::__cxa_demangle(typeid(e).name(), nullptr, nullptr, &st);
    std::string n = (st == 0 && dm != nullptr) ? dm : typeid(e).name();
    free(dm);
    return n;
}

// =====================================================================================================
// Per-case violation aggregation (one viol event per key per case, listing the strings)
// =====================================================================================================

struct Agg
{
    int count = 0;
    std::vector<std::string> strings;
    std::string detail;
    std::string replay;
};
std::map<std::string, Agg> gAgg;

std::string show(const std::string &s)
{
    std::string o = "\"";
    for (char c : s) {
        if (c == '\t') {
            o += "\\t";
        } else if (c == '\n') {
            o += "\\n";
        } else {
            o += c;
        }
    }
    o += "\"";
    if (s.size() > 60) {
        o = o.substr(0, 40) + "...(" + std::to_string(s.size()) + " chars)\"";
    }
    return o;
}

void report(const std::string &key, int p, const std::string &s, const std::string &detail)
{
    Agg &a = gAgg[key];
    ++a.count;
    if (a.strings.size() < 12) {
        a.strings.push_back(show(s));
    }
    if (a.detail.empty()) {
        a.detail = detail;
        std::vector<const std::string *> one = {&s};
        a.replay = std::string("position=") + posName(p) + " text=" + show(s) + "\n" + docFor(p, one);
    }
}

void flushReports()
{
    for (const auto &kv : gAgg) {
        std::string d = kv.second.detail + "\nstrings of this class in this batch (" + std::to_string(kv.second.count) + "):";
        for (const auto &s : kv.second.strings) {
            d += " " + s;
        }
        viol(PROP, kv.first, d, kv.second.replay);
    }
    gAgg.clear();
}

// =====================================================================================================
// Attribute positions: one item per candidate, verdict through the issue's item
// =====================================================================================================

struct Obs
{
    bool issue = false;
    bool oor = false; // the issue says "out of range"
    std::string desc;
    std::string rules;
    bool threw = false;
    std::string exc;
    double d = 0.0;
    long long i = 0;
    bool orderSet = false;
    std::string s;
    double sf = 0.0; // prefix: scaling factor against the reference units
};

bool mentionsRange(const std::string &d)
{
    return d.find("out of range") != std::string::npos || d.find("out of the integer range") != std::string::npos;
}

// May throw whatever the library throws.
void evalAttr(int p, const std::vector<const std::string *> &items, std::vector<Obs> &out, bool monitor)
{
    out.assign(items.size(), Obs());
    std::string doc = docFor(p, items);
    auto parser = Parser::create();
    ModelPtr m = parser->parseModel(doc);
    if (monitor) {
        monitorLogger(*parser, "Parser::parseModel", "");
    }
    if (m == nullptr) {
        throw std::logic_error("harness: parser returned null model");
    }
    std::unordered_map<const void *, size_t> idx;
    ComponentPtr comp = m->componentCount() > 0 ? m->component(0) : nullptr;
    size_t off = p == P_PREFIX ? 1 : 0;
    bool shape = true;
    switch (p) {
    case P_EXPONENT:
    case P_MULTIPLIER:
    case P_PREFIX:
        shape = m->unitsCount() == items.size() + off;
        for (size_t i = 0; shape && i < items.size(); ++i) {
            auto u = m->units(i + off);
            shape = u->name() == "u" + std::to_string(i) && u->unitCount() == 1;
            idx[u.get()] = i;
        }
        break;
    case P_ORDER:
        shape = comp != nullptr && comp->resetCount() == items.size();
        for (size_t i = 0; shape && i < items.size(); ++i) {
            idx[comp->reset(i).get()] = i;
        }
        break;
    default:
        shape = comp != nullptr && comp->variableCount() == items.size();
        for (size_t i = 0; shape && i < items.size(); ++i) {
            shape = comp->variable(i)->name() == "v" + std::to_string(i);
            idx[comp->variable(i).get()] = i;
        }
    }
    if (!shape) {
        throw std::logic_error(std::string("harness: parsed model does not have the expected shape for ") + posName(p) + ": " + issueSummary(*parser, 3));
    }
    auto absorb = [&](const Logger &lg, const char *svc) {
        for (size_t k = 0; k < lg.issueCount(); ++k) {
            auto is = lg.issue(k);
            auto it = is->item();
            const void *key = nullptr;
            if (it != nullptr) {
                switch (it->type()) {
                case CellmlElementType::UNITS:
                    key = it->units().get();
                    break;
                case CellmlElementType::UNIT:
                    key = it->unitsItem() != nullptr ? it->unitsItem()->units().get() : nullptr;
                    break;
                case CellmlElementType::RESET:
                case CellmlElementType::RESET_VALUE:
                case CellmlElementType::TEST_VALUE:
                    key = it->reset().get();
                    break;
                case CellmlElementType::VARIABLE:
                    key = it->variable().get();
                    break;
                default:
                    break;
                }
            }
            auto f = idx.find(key);
            std::string tag = std::string(posName(p)) + ":" + svc + ":" + ruleName(is->referenceRule());
            if (key == nullptr || f == idx.end()) {
                stat("unattributed_issues");
                seen("unattributed_issue", tag + ":" + is->description().substr(0, 60));
                continue;
            }
            seen("issue_source", tag);
            Obs &o = out[f->second];
            o.issue = true;
            o.oor = o.oor || mentionsRange(is->description());
            if (o.desc.empty()) {
                o.desc = std::string(svc) + ": " + is->description();
            }
        }
    };
    absorb(*parser, "Parser");
    if (p == P_PREFIX || p == P_INITIAL) {
        auto validator = Validator::create();
        validator->validateModel(m);
        if (monitor) {
            monitorLogger(*validator, "Validator::validateModel", "");
        }
        absorb(*validator, "Validator");
    }
    // values
    for (size_t i = 0; i < items.size(); ++i) {
        Obs &o = out[i];
        switch (p) {
        case P_EXPONENT:
            o.d = m->units(i)->unitAttributeExponent(0);
            break;
        case P_MULTIPLIER:
            o.d = m->units(i)->unitAttributeMultiplier(0);
            break;
        case P_PREFIX:
            o.s = m->units(i + 1)->unitAttributePrefix(0);
            if (!o.issue && refInt(*items[i])) {
                o.sf = Units::scalingFactor(m->units(i + 1), m->units(0));
            }
            break;
        case P_ORDER:
            o.orderSet = comp->reset(i)->isOrderSet();
            o.i = comp->reset(i)->order();
            break;
        default:
            o.s = comp->variable(i)->initialValue();
        }
    }
}

void evalAttrRobust(int p, const std::vector<const std::string *> &items, size_t lo, size_t hi, std::vector<Obs> &out, bool top)
{
    if (lo >= hi) {
        return;
    }
    std::vector<const std::string *> sub(items.begin() + static_cast<long>(lo), items.begin() + static_cast<long>(hi));
    std::vector<Obs> o;
    std::string exc;
    try {
        evalAttr(p, sub, o, top);
        for (size_t i = 0; i < o.size(); ++i) {
            out[lo + i] = o[i];
        }
        return;
    } catch (const std::logic_error &e) {
        if (std::string(e.what()).rfind("harness:", 0) == 0) {
            throw;
        }
        exc = excName(e);
    } catch (const std::exception &e) {
        exc = excName(e);
    } catch (...) {
        exc = "non-std-exception";
    }
    stat("batches_that_threw");
    if (hi - lo == 1) {
        out[lo].threw = true;
        out[lo].exc = exc;
        return;
    }
    size_t mid = lo + (hi - lo) / 2;
    evalAttrRobust(p, items, lo, mid, out, false);
    evalAttrRobust(p, items, mid, hi, out, false);
}

bool near15(double a, double b)
{
    char x[64];
    char y[64];
    snprintf(x, sizeof x, "%.14e", a);
    snprintf(y, sizeof y, "%.14e", b);
    return strcmp(x, y) == 0;
}

void judgeAttr(int p, const std::string &s, const Obs &o, int &nAcc, int &nRej)
{
    std::string pn = posName(p);
    std::string cls = classOf(s);
    std::string pre = pn + ": text " + show(s) + " ";
    stat("judged:" + pn);
    seen("class:" + pn, cls);
    Gram g = grammar(p, s);
    stat(g == G_ACCEPT ? "grammar_accepts:" + pn : "grammar_rejects:" + pn);
    (g == G_ACCEPT ? nAcc : nRej)++;
    if (o.threw) {
        stat("throws:" + pn);
        report("throws:" + pn + ":" + o.exc + ":" + cls, p, s, pre + "makes Parser::parseModel/Validator::validateModel throw " + o.exc + " (grammar says " + (g == G_ACCEPT ? "accept" : "reject") + ")");
        return;
    }
    stat(o.issue ? "library_reports:" + pn : "library_silent:" + pn);
    if (g == G_REJECT) {
        if (!o.issue) {
            report("accepts-nongrammar:" + pn + ":" + cls, p, s, pre + "is not in the grammar but no issue is raised about the item");
        }
        return;
    }
    // grammar accepts
    RefValue rv = posIsInt(p) ? refIntValue(s) : refRealValue(s);
    if (o.issue) {
        if (!o.oor) {
            report("rejects-grammar:" + pn + ":" + cls, p, s, pre + "is in the grammar but is reported: " + o.desc);
        } else if (!rv.outOfRange) {
            report("spurious-out-of-range:" + pn + ":" + cls, p, s, pre + "is representable but is reported out of range: " + o.desc);
        } else {
            stat("out_of_range_reported:" + pn);
        }
        return;
    }
    // accepted silently: value must correspond
    switch (p) {
    case P_EXPONENT:
    case P_MULTIPLIER:
        stat("values_checked:" + pn);
        if (rv.outOfRange) {
            report("wrong-value:" + pn + ":unreported-out-of-range", p, s, pre + "is out of range of double but nothing is reported; value read back " + fmtDouble(o.d, 17));
        } else if (!(o.d == rv.d) || std::signbit(o.d) != std::signbit(rv.d)) {
            report("wrong-value:" + pn, p, s, pre + "read back as " + fmtDouble(o.d, 17) + ", strtod gives " + fmtDouble(rv.d, 17));
        }
        break;
    case P_ORDER:
        stat("values_checked:" + pn);
        if (rv.outOfRange) {
            report("wrong-value:" + pn + ":unreported-out-of-range", p, s, pre + "is out of range of int but nothing is reported; order read back " + std::to_string(o.i));
        } else if (!o.orderSet || o.i != rv.i) {
            report("wrong-value:" + pn, p, s, pre + "read back as isOrderSet=" + std::to_string(o.orderSet) + " order=" + std::to_string(o.i) + ", strtol gives " + std::to_string(rv.i));
        }
        break;
    case P_PREFIX:
        stat("values_checked:" + pn);
        if (rv.outOfRange) {
            report("wrong-value:" + pn + ":unreported-out-of-range", p, s, pre + "is out of range of int but nothing is reported; prefix read back '" + o.s + "'");
        } else if (!(o.s == s || (rv.i == 0 && o.s.empty()))) {
            report("wrong-value:" + pn + ":text", p, s, pre + "read back as '" + o.s + "'");
        } else if (rv.i >= -300 && rv.i <= 300) {
            // Units::scalingFactor(units1, units2) returns units2/units1 by its documentation: (metre) / (10^p metre)
            double expect = std::pow(10.0, static_cast<double>(-rv.i));
            stat("prefix_scaling_checked");
            if (!(std::fabs(o.sf - expect) <= 1e-9 * expect)) {
                report("wrong-value:" + pn + ":scaling", p, s, pre + "gives scalingFactor(u, metre) = " + fmtDouble(o.sf, 17) + ", expected 10^" + std::to_string(-rv.i));
            }
        }
        break;
    default: // initial value: the model keeps the text; conversion to double is not observable through Parser/Validator
        stat("values_checked:" + pn);
        if (o.s != s) {
            report("wrong-value:" + pn + ":text", p, s, pre + "read back as '" + o.s + "'");
        }
        if (rv.outOfRange) {
            stat("initial_value_out_of_range_not_judged");
        }
    }
}

// =====================================================================================================
// Content positions (cn): verdict = number of MATH_CN_FORMAT issues of a document whose cn elements all
// have the same expected verdict; bisect on mismatch or exception.
// =====================================================================================================

const size_t kCnChunk = 250;

// returns number of MATH_CN_FORMAT issues; may throw
int cnIssues(int p, const std::vector<const std::string *> &items, bool monitor)
{
    std::string doc = docFor(p, items);
    auto parser = Parser::create();
    ModelPtr m = parser->parseModel(doc);
    if (m == nullptr || parser->issueCount() != 0 || m->componentCount() != 1) {
        throw std::logic_error(std::string("harness: cn document not parsed cleanly: ") + issueSummary(*parser, 3));
    }
    auto validator = Validator::create();
    validator->validateModel(m);
    stat("cn_documents_validated");
    if (monitor) {
        monitorLogger(*validator, "Validator::validateModel", "");
    }
    int n = 0;
    for (size_t k = 0; k < validator->issueCount(); ++k) {
        auto is = validator->issue(k);
        if (is->referenceRule() == Issue::ReferenceRule::MATH_CN_FORMAT) {
            ++n;
        } else {
            stat("cn_other_issues");
            seen("cn_other_issue", std::string(posName(p)) + ":" + ruleName(is->referenceRule()) + ":" + is->description().substr(0, 70));
        }
    }
    return n;
}

struct CnItem
{
    const std::string *raw;
    std::string stripped;
    Gram g;
};

// an item whose observed outcome (exception, or issue count of a document containing only this item / only deviating
// items) differs from what the grammar says
void judgeCnSingle(int p, const CnItem &it, bool threw, const std::string &exc)
{
    std::string pn = posName(p);
    const std::string &s = *it.raw;
    std::string cls = classOf(it.stripped);
    std::string pre = pn + ": content " + show(s) + " ";
    if (threw) {
        stat("throws:" + pn);
        report("throws:" + pn + ":" + exc + ":" + cls, p, s, pre + "makes Validator::validateModel throw " + exc);
    } else if (it.g == G_REJECT) {
        stat("library_silent:" + pn);
        report("accepts-nongrammar:" + pn + ":" + cls, p, s, pre + "is not in the grammar but the validator raises no MATH_CN_FORMAT issue");
    } else {
        stat("library_reports:" + pn);
        report("rejects-grammar:" + pn + ":" + cls, p, s, pre + "is in the grammar but the validator raises a MATH_CN_FORMAT issue");
    }
}

void judgeCnGroup(int p, const std::vector<CnItem> &grp, size_t lo, size_t hi, bool top)
{
    if (lo >= hi) {
        return;
    }
    std::string pn = posName(p);
    Gram g = grp[lo].g;
    std::vector<const std::string *> sub;
    for (size_t i = lo; i < hi; ++i) {
        sub.push_back(grp[i].raw);
    }
    bool threw = false;
    std::string exc;
    int n = -1;
    try {
        n = cnIssues(p, sub, top);
    } catch (const std::logic_error &e) {
        if (std::string(e.what()).rfind("harness:", 0) == 0) {
            throw;
        }
        threw = true;
        exc = excName(e);
    } catch (const std::exception &e) {
        threw = true;
        exc = excName(e);
    } catch (...) {
        threw = true;
        exc = "non-std-exception";
    }
    size_t sz = hi - lo;
    bool asExpected = !threw && (g == G_UNDECIDED || n == (g == G_REJECT ? static_cast<int>(sz) : 0));
    if (asExpected) {
        if (g == G_REJECT) {
            stat("library_reports:" + pn, static_cast<int64_t>(sz));
        } else if (g == G_ACCEPT) {
            stat("library_silent:" + pn, static_cast<int64_t>(sz));
        }
        return;
    }
    if (threw) {
        stat("batches_that_threw");
    }
    // every cn yields at most one MATH_CN_FORMAT issue, so "all of them" / "none of them" identifies every item
    bool allDeviate = !threw && sz > 1 && ((g == G_ACCEPT && n == static_cast<int>(sz)) || (g == G_REJECT && n == 0));
    if (allDeviate) {
        for (size_t i = lo; i < hi; ++i) {
            judgeCnSingle(p, grp[i], false, "");
        }
        return;
    }
    if (sz == 1) {
        judgeCnSingle(p, grp[lo], threw, exc);
        return;
    }
    size_t mid = lo + sz / 2;
    judgeCnGroup(p, grp, lo, mid, false);
    judgeCnGroup(p, grp, mid, hi, false);
}

// =====================================================================================================
// Grammar cases
// =====================================================================================================

// the i-th string (after a seed-dependent affine permutation) of exactly `len` characters over the alphabet
std::string fixedLengthString(int len, uint64_t i, uint64_t seed)
{
    uint64_t n = 1;
    for (int k = 0; k < len; ++k) {
        n *= 9;
    }
    // n is a power of 3; the multiplier is not divisible by 3, hence a bijection on [0, n)
    uint64_t j = (i * 1000003ULL + (seed % n) * 7919ULL) % n;
    std::string s(static_cast<size_t>(len), '0');
    for (int k = len - 1; k >= 0; --k) {
        s[static_cast<size_t>(k)] = kAlphabet[j % 9];
        j /= 9;
    }
    return s;
}

void runGrammarCase(int p, const std::vector<std::string> &batchStrings, const std::string &label)
{
    std::string pn = posName(p);
    std::vector<const std::string *> items;
    uint64_t h = fnv1a(pn);
    for (const std::string &s : batchStrings) {
        h = fnv1a(s + "\x01", h);
        if (s.empty() && (p == P_PREFIX || p == P_INITIAL)) {
            // prefix="" / initial_value="" are indistinguishable from an absent attribute in the object model: not judged
            stat("empty_attribute_not_judged:" + pn);
            continue;
        }
        items.push_back(&s);
    }
    int nAcc = 0;
    int nRej = 0;
    stage(pn + ":evaluate");
    if (!posIsContent(p)) {
        std::vector<Obs> obs(items.size());
        evalAttrRobust(p, items, 0, items.size(), obs, true);
        stage(pn + ":judge");
        for (size_t i = 0; i < items.size(); ++i) {
            judgeAttr(p, *items[i], obs[i], nAcc, nRej);
        }
    } else {
        std::vector<CnItem> groups[3];
        for (const auto *s : items) {
            CnItem it;
            it.raw = s;
            it.stripped = stripWs(*s);
            if (it.stripped != *s) {
                stat("cn_surrounding_whitespace_stripped:" + pn);
            }
            it.g = grammar(p, it.stripped);
            if (it.g == G_ACCEPT && posIsInt(p) && refIntValue(it.stripped).outOfRange) {
                // an e-notation exponent is an integer position: "converted to the corresponding int or reported as out
                // of range".  No int is exposed for it, so a value that does not fit an int has ONE observable correct
                // outcome: an issue (the validator words it like a format error, which is fine).
                it.g = G_REJECT;
                stat("integer_out_of_range_must_be_reported:" + pn);
            } else if (it.g == G_ACCEPT && !posIsInt(p) && refRealValue(it.stripped).outOfRange) {
                // "converted ... or reported as out of range": the validator neither exposes the converted double nor words
                // its cn issue differently for range errors, so both outcomes are allowed; only exceptions are monitored.
                it.g = G_UNDECIDED;
                stat("cn_out_of_range_either_outcome_allowed:" + pn);
            }
            groups[it.g].push_back(it);
            stat("judged:" + pn);
            seen("class:" + pn, classOf(it.stripped));
            if (it.g == G_ACCEPT) {
                stat("grammar_accepts:" + pn);
                ++nAcc;
            } else if (it.g == G_REJECT) {
                stat("grammar_rejects:" + pn);
                ++nRej;
            } else {
                stat("grammar_silent:" + pn);
            }
        }
        // batching only: keep strings with and without an exponent part in separate documents
        std::stable_sort(groups[G_ACCEPT].begin(), groups[G_ACCEPT].end(), [](const CnItem &a, const CnItem &b) {
            return (a.stripped.find_first_of("eE") != std::string::npos) < (b.stripped.find_first_of("eE") != std::string::npos);
        });
        for (auto &grp : groups) {
            for (size_t a = 0; a < grp.size(); a += kCnChunk) {
                judgeCnGroup(p, grp, a, std::min(grp.size(), a + kCnChunk), true);
            }
        }
    }
    flushReports();
    std::string sample = "position=" + pn + " batch=" + label + " strings=" + std::to_string(items.size()) + " grammar-accepted=" + std::to_string(nAcc) + " grammar-rejected=" + std::to_string(nRej) + " e.g.";
    for (size_t i = 0; i < items.size() && i < 12; ++i) {
        sample += " " + show(*items[i]);
    }
    caseInfo(hex64(h), nAcc > 0 && nRej > 0, sample);
}

// =====================================================================================================
// Round trip: numbers set through the API, printed, re-parsed, read back equal to 15 significant digits
// =====================================================================================================

double randomDouble(Rng &r)
{
    static const double special[] = {0.0, -0.0, 1.0, -1.0, 0.1, 0.2, 0.30000000000000004, 1.0 / 3.0, 2.0 / 3.0, 1e15, 1e16, 1e17, 999999999999999.9, 123456789012345678.0, 1e21, 1e22, 1e23, 1e-5, 1e-4, 0.0001234,
                                     1.7976931348623157e308, -1.7976931348623157e308, 2.2250738585072014e-308, 1e308, 1e-307, 4.35, 0.5, 100.0, 1e5, 1e6, 123456.0, 1234567.0, 0.000001, 0.0000001, 3.141592653589793, 2.718281828459045, 9.999999999999999e22, 6.02214076e23, 1.602176634e-19, 299792458.0};
    int k = r.range(0, 9);
    if (k == 0) {
        return special[r.below(sizeof special / sizeof special[0])];
    }
    if (k <= 3) { // random bit pattern, finite, normal
        for (;;) {
            uint64_t b = r.next();
            double d;
            memcpy(&d, &b, sizeof d);
            if (std::isnormal(d)) {
                return d;
            }
        }
    }
    if (k <= 6) { // short decimal: m * 10^e
        int digits = r.range(1, 17);
        double m = 0;
        for (int i = 0; i < digits; ++i) {
            m = m * 10 + static_cast<double>(r.below(10));
        }
        int e = r.range(-30, 30);
        double d = m * std::pow(10.0, e);
        return r.chance(0.3) ? -d : d;
    }
    if (k <= 8) { // wide exponent range
        double m = 1.0 + r.unit() * 9.0;
        int e = r.range(-300, 300);
        double d = m * std::pow(10.0, e);
        return r.chance(0.3) ? -d : d;
    }
    return static_cast<double>(r.range(-1000000, 1000000)) / (r.chance(0.5) ? 1.0 : 1000.0);
}

double randomSubnormal(Rng &r)
{
    uint64_t b = r.next() & 0x000FFFFFFFFFFFFFULL;
    if (b == 0) {
        b = 1;
    }
    if (r.chance(0.3)) {
        b |= 0x8000000000000000ULL;
    }
    double d;
    memcpy(&d, &b, sizeof d);
    return d;
}

int randomInt(Rng &r)
{
    int k = r.range(0, 5);
    if (k == 0) {
        static const int sp[] = {0, 1, -1, INT_MAX, INT_MIN, INT_MAX - 1, INT_MIN + 1, 10, -10, 24, -24, 300, -300, 1000000000};
        return sp[r.below(sizeof sp / sizeof sp[0])];
    }
    if (k <= 2) {
        return r.range(-30, 30);
    }
    return static_cast<int>(static_cast<uint32_t>(r.next()));
}

std::string magClass(double d)
{
    if (d == 0.0) {
        return "zero";
    }
    if (!std::isnormal(d)) {
        return "subnormal";
    }
    double a = std::fabs(d);
    {
        // |d| so close to DBL_MAX that its 15-significant-digit decimal exceeds DBL_MAX
        char buf[64];
        snprintf(buf, sizeof buf, "%.15g", a);
        errno = 0;
        double back = strtod(buf, nullptr);
        if (std::isinf(back)) {
            return "rounds-above-DBL_MAX";
        }
        if (!std::isnormal(back)) {
            // a normal double next to DBL_MIN whose 15-significant-digit decimal is below DBL_MIN
            return "rounds-to-subnormal";
        }
    }
    if (a >= 1e300) {
        return "huge";
    }
    if (a <= 1e-300) {
        return "tiny";
    }
    return "normal";
}

// pull the value of attribute `name` of the k-th element `<elem ` in printed text (independent of the library's parser)
std::vector<std::string> attrValues(const std::string &text, const std::string &elem, const std::string &name)
{
    std::vector<std::string> out;
    size_t at = 0;
    std::string open = "<" + elem + " ";
    while ((at = text.find(open, at)) != std::string::npos) {
        size_t end = text.find('>', at);
        std::string tag = text.substr(at, end - at);
        std::string key = " " + name + "=\"";
        size_t a = tag.find(key);
        if (a == std::string::npos) {
            out.push_back("<absent>");
        } else {
            a += key.size();
            out.push_back(tag.substr(a, tag.find('"', a) - a));
        }
        at = end;
    }
    return out;
}

void runRoundTripCase(Ctx &ctx)
{
    Rng &r = ctx.rng;
    const int n = kRoundTripItems;
    bool subnormals = r.chance(0.15);
    std::vector<double> ex(n);
    std::vector<double> mu(n);
    std::vector<double> iv(n);
    std::vector<int> pf(n);
    std::vector<int> od(n);
    auto model = Model::create("m");
    auto comp = Component::create("c");
    model->addComponent(comp);
    auto tv = Variable::create("t");
    tv->setUnits("dimensionless");
    comp->addVariable(tv);
    uint64_t h = 1469598103934665603ULL;
    stage("roundtrip:build");
    for (int i = 0; i < n; ++i) {
        ex[i] = randomDouble(r);
        mu[i] = randomDouble(r);
        iv[i] = randomDouble(r);
        if (subnormals && r.chance(0.2)) {
            (r.chance(0.5) ? ex[i] : mu[i]) = randomSubnormal(r);
            iv[i] = randomSubnormal(r);
        }
        pf[i] = randomInt(r);
        od[i] = randomInt(r);
        auto u = Units::create("u" + std::to_string(i));
        u->addUnit("metre", pf[i], ex[i], mu[i], "");
        model->addUnits(u);
        auto v = Variable::create("v" + std::to_string(i));
        v->setUnits("dimensionless");
        v->setInitialValue(iv[i]);
        comp->addVariable(v);
        auto rs = Reset::create();
        rs->setVariable(tv);
        rs->setTestVariable(tv);
        rs->setOrder(od[i]);
        comp->addReset(rs);
        h = fnv1a(fmtDouble(ex[i], 17) + "|" + fmtDouble(mu[i], 17) + "|" + fmtDouble(iv[i], 17) + "|" + std::to_string(pf[i]) + "|" + std::to_string(od[i]), h);
    }
    stage("roundtrip:print");
    auto printer = Printer::create();
    std::string text = printer->printModel(model);
    monitorLogger(*printer, "Printer::printModel", "");
    if (text.empty()) {
        viol(PROP, "roundtrip:print-empty", "printModel returned an empty string: " + issueSummary(*printer), "");
        caseInfo(hex64(h), false, "roundtrip print-empty");
        return;
    }
    // what the printer wrote must itself be in the grammar (independent scan of the text)
    auto pe = attrValues(text, "unit", "exponent");
    auto pm = attrValues(text, "unit", "multiplier");
    auto pp = attrValues(text, "unit", "prefix");
    auto pi = attrValues(text, "variable", "initial_value");
    auto po = attrValues(text, "reset", "order");
    bool scanOk = pe.size() == static_cast<size_t>(n) && pm.size() == pe.size() && pp.size() == pe.size() && pi.size() == static_cast<size_t>(n) + 1 && po.size() == static_cast<size_t>(n);
    if (!scanOk) {
        viol(PROP, "roundtrip:printed-shape", "printed document does not contain the expected elements", truncateForLog(text, 3000));
    } else {
        for (int i = 0; i < n; ++i) {
            struct W
            {
                const char *pos;
                const std::string *txt;
                bool real;
                bool mayBeAbsent;
                double d;
            } ws[] = {{"exponent", &pe[i], true, ex[i] == 1.0, ex[i]}, {"multiplier", &pm[i], true, mu[i] == 1.0, mu[i]}, {"prefix", &pp[i], false, pf[i] == 0, 0.0}, {"initial_value", &pi[i + 1], true, false, iv[i]}, {"order", &po[i], false, false, 0.0}};
            for (const auto &w : ws) {
                stat(std::string("printed_numbers:") + w.pos);
                if (*w.txt == "<absent>" && w.mayBeAbsent) {
                    continue;
                }
                bool ok = w.real ? refReal(*w.txt) : refInt(*w.txt);
                if (!ok) {
                    Agg &a = gAgg[std::string("roundtrip:printed-nongrammar:") + w.pos + ":" + classOf(*w.txt)];
                    ++a.count;
                    if (a.detail.empty()) {
                        a.detail = std::string("Printer wrote ") + w.pos + "=\"" + *w.txt + "\" which is not in the grammar";
                        a.replay = a.detail;
                    }
                }
            }
        }
    }
    stage("roundtrip:parse");
    auto parser = Parser::create();
    ModelPtr m2 = parser->parseModel(text);
    monitorLogger(*parser, "Parser::parseModel(printed)", "");
    auto validator = Validator::create();
    if (m2 != nullptr) {
        stage("roundtrip:validate");
        validator->validateModel(m2);
        monitorLogger(*validator, "Validator::validateModel(printed)", "");
    }
    ComponentPtr c2 = (m2 != nullptr && m2->componentCount() == 1) ? m2->component(0) : nullptr;
    if (m2 == nullptr || c2 == nullptr || m2->unitsCount() != static_cast<size_t>(n) || c2->variableCount() != static_cast<size_t>(n) + 1 || c2->resetCount() != static_cast<size_t>(n)) {
        viol(PROP, "roundtrip:reparse-shape", "re-parsed model does not have the expected shape: " + issueSummary(*parser), truncateForLog(text, 3000));
        caseInfo(hex64(h), false, "roundtrip reparse-shape");
        return;
    }
    // issues about numbers, attributed by item
    std::unordered_map<const void *, std::pair<int, const char *>> owner;
    for (int i = 0; i < n; ++i) {
        owner[m2->units(static_cast<size_t>(i)).get()] = {i, "units"};
        owner[c2->variable(static_cast<size_t>(i) + 1).get()] = {i, "initial_value"};
        owner[c2->reset(static_cast<size_t>(i)).get()] = {i, "order"};
    }
    std::vector<std::string> complaint[3]; // per item: units / initial / order
    for (auto &c : complaint) {
        c.assign(static_cast<size_t>(n), "");
    }
    auto scan = [&](const Logger &lg) {
        for (size_t k = 0; k < lg.issueCount(); ++k) {
            auto is = lg.issue(k);
            auto rr = is->referenceRule();
            int which = -1;
            const void *key = nullptr;
            auto it = is->item();
            if (rr == Issue::ReferenceRule::UNIT_ATTRIBUTE_EXPONENT_VALUE || rr == Issue::ReferenceRule::UNIT_ATTRIBUTE_MULTIPLIER_VALUE || rr == Issue::ReferenceRule::UNIT_ATTRIBUTE_PREFIX_VALUE) {
                which = 0;
                key = it->type() == CellmlElementType::UNITS ? static_cast<const void *>(it->units().get()) : (it->unitsItem() != nullptr ? static_cast<const void *>(it->unitsItem()->units().get()) : nullptr);
            } else if (rr == Issue::ReferenceRule::VARIABLE_INITIAL_VALUE_VALUE) {
                which = 1;
                key = it->variable().get();
            } else if (rr == Issue::ReferenceRule::RESET_ORDER_VALUE) {
                which = 2;
                key = it->reset().get();
            }
            if (which < 0) {
                continue;
            }
            auto f = owner.find(key);
            if (f != owner.end() && complaint[which][static_cast<size_t>(f->second.first)].empty()) {
                complaint[which][static_cast<size_t>(f->second.first)] = is->description();
            }
        }
    };
    scan(*parser);
    scan(*validator);
    stage("roundtrip:compare");
    for (int i = 0; i < n; ++i) {
        size_t k = static_cast<size_t>(i);
        auto u = m2->units(k);
        std::string where = "item " + std::to_string(i) + ": addUnit(\"metre\", " + std::to_string(pf[i]) + ", " + fmtDouble(ex[i], 17) + ", " + fmtDouble(mu[i], 17) + ") printed as exponent=\"" + (scanOk ? pe[k] : "?") + "\" multiplier=\"" + (scanOk ? pm[k] : "?") + "\" prefix=\"" + (scanOk ? pp[k] : "?") + "\"";
        stat("roundtrip_values", 5);
        seen("roundtrip_magnitude", magClass(ex[i]));
        seen("roundtrip_magnitude", magClass(mu[i]));
        if (!complaint[0][k].empty()) {
            std::string mc = complaint[0][k].find("exponent") != std::string::npos ? "exponent:" + magClass(ex[i]) : (complaint[0][k].find("multiplier") != std::string::npos ? "multiplier:" + magClass(mu[i]) : std::string("prefix"));
            Agg &a = gAgg["roundtrip:rejected:" + mc];
            ++a.count;
            if (a.detail.empty()) {
                a.detail = where + "\nre-parse reports: " + complaint[0][k];
                a.replay = a.detail;
            }
        } else {
            double e2 = u->unitAttributeExponent(0);
            double m2v = u->unitAttributeMultiplier(0);
            if (!near15(e2, ex[i])) {
                Agg &a = gAgg["roundtrip:differs:exponent:" + magClass(ex[i])];
                ++a.count;
                if (a.detail.empty()) {
                    a.detail = where + "\nexponent read back " + fmtDouble(e2, 17);
                    a.replay = a.detail;
                }
            }
            if (!near15(m2v, mu[i])) {
                Agg &a = gAgg["roundtrip:differs:multiplier:" + magClass(mu[i])];
                ++a.count;
                if (a.detail.empty()) {
                    a.detail = where + "\nmultiplier read back " + fmtDouble(m2v, 17);
                    a.replay = a.detail;
                }
            }
            std::string p2 = u->unitAttributePrefix(0);
            long long pv = p2.empty() ? 0 : strtoll(p2.c_str(), nullptr, 10);
            if (pv != pf[i] || !(p2.empty() || refInt(p2))) {
                Agg &a = gAgg["roundtrip:differs:prefix"];
                ++a.count;
                if (a.detail.empty()) {
                    a.detail = where + "\nprefix read back '" + p2 + "'";
                    a.replay = a.detail;
                }
            }
        }
        // initial value
        std::string ivText = c2->variable(k + 1)->initialValue();
        std::string whereV = "item " + std::to_string(i) + ": setInitialValue(" + fmtDouble(iv[i], 17) + ") printed as initial_value=\"" + (scanOk ? pi[k + 1] : "?") + "\"";
        if (!complaint[1][k].empty()) {
            Agg &a = gAgg["roundtrip:rejected:initial_value:" + magClass(iv[i])];
            ++a.count;
            if (a.detail.empty()) {
                a.detail = whereV + "\nvalidator reports: " + complaint[1][k];
                a.replay = a.detail;
            }
        } else {
            char *end = nullptr;
            double back = strtod(ivText.c_str(), &end);
            if (end != ivText.c_str() + ivText.size() || ivText.empty() || !near15(back, iv[i])) {
                Agg &a = gAgg["roundtrip:differs:initial_value:" + magClass(iv[i])];
                ++a.count;
                if (a.detail.empty()) {
                    a.detail = whereV + "\ninitial value read back '" + ivText + "'";
                    a.replay = a.detail;
                }
            }
        }
        // order
        auto rs = c2->reset(k);
        if (!complaint[2][k].empty()) {
            Agg &a = gAgg["roundtrip:rejected:order"];
            ++a.count;
            if (a.detail.empty()) {
                a.detail = "setOrder(" + std::to_string(od[i]) + ") printed as order=\"" + (scanOk ? po[k] : "?") + "\"; re-parse reports: " + complaint[2][k];
                a.replay = a.detail;
            }
        } else if (!rs->isOrderSet() || rs->order() != od[i]) {
            Agg &a = gAgg["roundtrip:differs:order"];
            ++a.count;
            if (a.detail.empty()) {
                a.detail = "setOrder(" + std::to_string(od[i]) + ") printed as order=\"" + (scanOk ? po[k] : "?") + "\"; read back isOrderSet=" + std::to_string(rs->isOrderSet()) + " order=" + std::to_string(rs->order());
                a.replay = a.detail;
            }
        }
    }
    for (auto &kv : gAgg) {
        kv.second.detail += "\n(" + std::to_string(kv.second.count) + " occurrences in this case)";
        viol(PROP, kv.first, kv.second.detail, kv.second.replay + "\n\n" + truncateForLog(text, 2000));
    }
    gAgg.clear();
    stat("roundtrip_cases");
    std::string sample = "roundtrip of " + std::to_string(n) + " items" + (subnormals ? " (with subnormals)" : "") + ", e.g. exponent " + fmtDouble(ex[0], 17) + " -> \"" + (scanOk ? pe[0] : "?") + "\", multiplier " + fmtDouble(mu[0], 17) + " -> \"" + (scanOk ? pm[0] : "?") + "\", initial_value " + fmtDouble(iv[0], 17) + " -> \"" + (scanOk ? pi[1] : "?") + "\", prefix " + std::to_string(pf[0]) + ", order " + std::to_string(od[0]);
    caseInfo(hex64(h), true, sample);
}

size_t pow9(int len)
{
    size_t n = 1;
    for (int k = 0; k < len; ++k) {
        n *= 9;
    }
    return n;
}

// Case index layout.
//   segment A: shuffled list (all strings of length <= 5, extremes, random longer strings) x 8 positions
//   segment B (thorough): all strings of length exactly 6 x 8 positions
//   segment C (thorough): all strings of length exactly 7 (the shortest length at which sign, integer digits, point,
//                         fraction digits, e, exponent sign and exponent digits are all present) x exponent attribute
//   segment R: round trips
struct Layout
{
    int64_t nA = 0;
    int64_t nB = 0;
    int64_t nC = 0;
    int64_t nR = 0;
    int64_t casesA() const { return nA * P_COUNT; }
    int64_t casesB() const { return nB * P_COUNT; }
    int64_t total() const { return casesA() + casesB() + nC + nR; }
};

Layout layout(const std::string &tier)
{
    Layout l;
    l.nA = static_cast<int64_t>((totalCandidates(tier) + kBatch - 1) / kBatch);
    if (tier == "thorough") {
        l.nB = static_cast<int64_t>((pow9(6) + kBatch - 1) / kBatch);
        l.nC = static_cast<int64_t>((pow9(7) + kBatch - 1) / kBatch);
    }
    l.nR = roundTripCases(tier);
    return l;
}

} // namespace

int64_t vh_case_count(const std::string &tier, uint64_t)
{
    return layout(tier).total();
}

void vh_run_case(Ctx &ctx)
{
    Layout l = layout(ctx.tier);
    int64_t i = ctx.index;
    std::vector<std::string> batch;
    if (i < l.casesA()) {
        const CandSet &cs = candidates(ctx.tier, ctx.seed);
        size_t b = static_cast<size_t>(i / P_COUNT);
        size_t lo = b * kBatch;
        size_t hi = std::min(cs.all.size(), lo + kBatch);
        batch.assign(cs.all.begin() + static_cast<long>(lo), cs.all.begin() + static_cast<long>(hi));
        stat("strings_from_shuffled_list", static_cast<int64_t>(batch.size()));
        runGrammarCase(static_cast<int>(i % P_COUNT), batch, "A" + std::to_string(b));
        return;
    }
    i -= l.casesA();
    if (i < l.casesB() + l.nC) {
        int len = 6;
        int p = static_cast<int>(i % P_COUNT);
        size_t b = static_cast<size_t>(i / P_COUNT);
        if (i >= l.casesB()) {
            len = 7;
            p = P_EXPONENT;
            b = static_cast<size_t>(i - l.casesB());
        }
        size_t n = pow9(len);
        for (size_t k = b * kBatch; k < n && k < (b + 1) * kBatch; ++k) {
            batch.push_back(fixedLengthString(len, k, ctx.seed));
        }
        stat("strings_of_length_" + std::to_string(len), static_cast<int64_t>(batch.size()));
        runGrammarCase(p, batch, (len == 6 ? "B" : "C") + std::to_string(b));
        return;
    }
    runRoundTripCase(ctx);
}
