// C02: print then parse preserves content.
// Oracle: independent well-formedness parse + canonical dump (public getters only) of the original model,
// of the IR it was built from, and of the re-parsed model; second round trip compared too.
#include "gen.h"
#include "vh.h"

using namespace vh;

int64_t vh_case_count(const std::string &tier, uint64_t)
{
    return tier == "thorough" ? 20000 : 1500;
}

static std::string classify(const std::string &diff)
{
    // structural class of the first differing line: the leading keyword(s)
    std::string d = diff;
    size_t a = d.find("A[");
    if (a == std::string::npos) {
        a = d.find("[");
    }
    std::string line = a == std::string::npos ? d : d.substr(d.find('[', a) + 1);
    line = trim(line);
    std::string kw = line.substr(0, line.find_first_of(" ="));
    return kw.empty() ? "?" : kw;
}

void vh_run_case(Ctx &ctx)
{
    Rng &rng = ctx.rng;
    GenOptions go;
    int variant = rng.range(0, 9);
    // 0-5: text-built valid model; 6-7: API-built valid model; 8-9: API-built with one hostile free-text attribute
    bool api = variant >= 6;
    bool hostile = variant >= 8;
    go.hostileText = hostile;
    go.resets = rng.chance(0.7);
    go.imports = rng.chance(0.7);
    IrModel ir = generateModel(rng, go);
    std::string irDump = dumpIr(ir);
    std::string text;
    ModelPtr m;
    std::string replay;
    if (api) {
        m = buildApi(ir);
        replay = "api-built from IR:\n" + irDump;
    } else {
        text = writeCellml2(ir, rng);
        replay = text;
        auto p0 = Parser::create(true);
        m = p0->parseModel(text);
        monitorLogger(*p0, "Parser::parseModel", replay);
        if (m == nullptr || p0->issueCount() != 0) {
            // The generator claims validity-by-construction; a parser complaint here is a C04/C02 precondition failure.
            viol("C02", "generated-valid-model-rejected-by-parser", "parser issues on a valid generated document:\n" + issueSummary(*p0), replay);
            caseInfo(ir.structuralHash(), false);
            return;
        }
    }
    stat(api ? "api_built" : "text_built");
    std::string d0 = dumpModel(m);
    if (d0 != irDump) {
        // the model we start from must itself be what the IR says (parser fidelity / API fidelity)
        std::string fd = firstDiff(irDump, d0);
        viol("C02", std::string(api ? "api" : "parse") + "-differs-from-source:" + classify(fd), "A=IR B=model: " + fd, replay);
    }
    auto validator = Validator::create();
    validator->validateModel(m);
    monitorLogger(*validator, "Validator::validateModel", replay);
    bool accepted = validator->issueCount() == 0;
    if (!hostile && !accepted) {
        viol("C04", "valid-by-construction-rejected:" + rejectionKey(*validator), issueSummary(*validator), replay);
    }
    stat(accepted ? "validator_accepted" : "validator_rejected");

    auto printer = Printer::create();
    std::string p1 = printer->printModel(m);
    monitorLogger(*printer, "Printer::printModel", replay);
    std::string tag = hostile ? ":badtext:" + ir.hostile : "";
    if (hostile) {
        seen("hostile_slot", ir.hostile);
    }
    if (p1.empty()) {
        viol("C02", "print-empty" + tag, "printModel returned an empty string; printer issues:\n" + issueSummary(*printer), replay);
        caseInfo(ir.structuralHash(), true, "print-empty");
        return;
    }
    if (!wellFormed(p1)) {
        viol("C02", "print-not-wellformed" + tag, truncateForLog(p1, 1500), replay);
        caseInfo(ir.structuralHash(), true, "not-wellformed");
        return;
    }
    auto parser = Parser::create(true);
    auto m2 = parser->parseModel(p1);
    monitorLogger(*parser, "Parser::parseModel(printed)", replay);
    if (m2 == nullptr) {
        viol("C02", "reparse-null" + tag, issueSummary(*parser) + "\n" + truncateForLog(p1, 1500), replay);
        caseInfo(ir.structuralHash(), true, "reparse-null");
        return;
    }
    if (accepted && parser->issueCount() != 0) {
        viol("C02", "reparse-issues:" + ruleName(parser->issue(0)->referenceRule()) + tag, issueSummary(*parser) + "\n" + truncateForLog(p1, 1500), replay);
    }
    std::string d1 = dumpModel(m2);
    if (d1 != d0) {
        std::string fd = firstDiff(d0, d1);
        viol("C02", "roundtrip-differs:" + classify(fd) + tag, "A=original B=reparsed: " + fd + "\nprinted:\n" + truncateForLog(p1, 2500), replay);
    }
    // second round
    std::string p2 = printer->printModel(m2);
    if (p2.empty() || !wellFormed(p2)) {
        viol("C02", "second-print-bad" + tag, truncateForLog(p2, 800), replay);
    } else {
        auto m3 = Parser::create(true)->parseModel(p2);
        std::string d2 = m3 != nullptr ? dumpModel(m3) : "<null>";
        if (d2 != d1) {
            std::string fd = firstDiff(d1, d2);
            viol("C02", "second-roundtrip-differs:" + classify(fd) + tag, fd, replay);
        }
    }
    // the model handed to the printer must be unchanged (C12)
    if (dumpModel(m) != d0) {
        viol("C12", "printer-mutated-model", firstDiff(d0, dumpModel(m)), replay);
    }
    stat("roundtrips");
    stat("features", ir.featureCount());
    std::string sample = "variant=" + std::to_string(variant) + " units=" + std::to_string(ir.units.size()) + " comps=" + std::to_string(ir.comps.size()) + " conns=" + std::to_string(ir.conns.size()) + " imports=" + std::to_string(ir.imports.size()) + (hostile ? " hostile=" + ir.hostile : "") + " printed=" + std::to_string(p1.size()) + "B";
    caseInfo(ir.structuralHash() + (hostile ? ir.hostile : ""), ir.featureCount() >= 2, sample);
}
