// C09 part B: bad-argument sweep (level fault_enumeration).
//
// A hand-written table of every public method of the object model (Entity, ParentedEntity, ComponentEntity,
// Model, Component, Variable, Units, Reset, ImportSource, ImportedEntity, UnitsItem, VariablePair) and of the
// services that accept entities (Annotator, Importer, Analyser, AnalyserExternalVariable, AnalyserModel and
// its variables/equations, Generator, Printer, Validator, Logger) that takes an entity pointer, an index or a
// lookup name, crossed with the bad-argument classes
//     null        a null shared_ptr
//     neveradded  an entity that was never added to a model (unique name, so that it equals nothing)
//     ownerdead   an entity whose owner has been destroyed (last shared_ptr to the owner released)
//     pastend     index == count
//     unknownname a name / id / key that does not exist
// and, for services and a few methods without arguments, the receiver states
//     recv=nomodel / recv=modeldead (Annotator), recv=neveradded / recv=ownerdead (isDefined(), ...).
// ONE CELL PER CASE: case i runs cell i on a freshly built fixture, so a crash is attributed to one cell.
// Expectation per cell:
//     R  must refuse: return false / null / empty / 0 or add an issue, and leave the canonical dump of
//        the fixture model, of the argument and of the service's countable state unchanged
//     U  (void methods, numeric getters) must leave everything unchanged
//     N  the argument is legitimate for this method (e.g. addComponent(never-added component),
//        setUnits(nullptr) meaning "clear"): only "does not crash" is required, the outcome is recorded
// Keys: badarg:<Class::method(signature)>:<argument class>:<returned-success|changed-state>; crashes are
// keyed by the supervisor (crash:<kind>@<frames>), the stage marker names the cell.
//
// The table is data: every CELL/NA line below is read by tools/c09_header_audit.py and compared with the
// public headers.
#include "vh.h"
#include "vhc.h"

#include <functional>
#include <memory>

using namespace vh;

namespace {

// ---------------------------------------------------------------- fixture
std::string fixtureText(const std::string &p)
{
    // p prefixes every name and id so that the "owner destroyed" objects are not structurally equal to fixture objects
    std::string t = R"(<?xml version="1.0" encoding="UTF-8"?>
<model xmlns="http://www.cellml.org/cellml/2.0#" name="@m" id="@mid">
  <units name="@u" id="@uid"><unit units="second" prefix="milli" id="@unitid"/></units>
  <units name="@w" id="@wid"><unit units="@u" exponent="2" id="@unit2id"/></units>
  <component name="@c1" id="@c1id">
    <variable name="@t" units="@u" interface="public_and_private" id="@tid"/>
    <variable name="@x" units="dimensionless" initial_value="0" interface="public_and_private" id="@xid"/>
    <variable name="@k" units="@w" initial_value="3" id="@kid"/>
    <math xmlns="http://www.w3.org/1998/Math/MathML" xmlns:cellml="http://www.cellml.org/cellml/2.0#">
      <apply><eq/><apply><diff/><bvar><ci>@t</ci></bvar><ci>@x</ci></apply><cn cellml:units="dimensionless">1</cn></apply>
    </math>
    <reset variable="@x" test_variable="@t" order="1" id="@rid">
      <test_value id="@tvid"><math xmlns="http://www.w3.org/1998/Math/MathML" xmlns:cellml="http://www.cellml.org/cellml/2.0#"><cn cellml:units="@u">5</cn></math></test_value>
      <reset_value id="@rvid"><math xmlns="http://www.w3.org/1998/Math/MathML" xmlns:cellml="http://www.cellml.org/cellml/2.0#"><cn cellml:units="dimensionless">0</cn></math></reset_value>
    </reset>
  </component>
  <component name="@c2" id="@c2id">
    <variable name="@t" units="@u" interface="public" id="@t2id"/>
    <variable name="@y" units="@u" id="@yid"/>
    <math xmlns="http://www.w3.org/1998/Math/MathML">
      <apply><eq/><ci>@y</ci><ci>@t</ci></apply>
    </math>
  </component>
  <connection component_1="@c1" component_2="@c2" id="@connid"><map_variables variable_1="@t" variable_2="@t" id="@mapid"/></connection>
  <encapsulation id="@encid"><component_ref component="@c1" id="@cref1"><component_ref component="@c2" id="@cref2"/></component_ref></encapsulation>
</model>
)";
    std::string out;
    for (char ch : t) {
        if (ch == '@') {
            out += p;
        } else {
            out += ch;
        }
    }
    return out;
}

ModelPtr parseFixture(const std::string &prefix)
{
    auto parser = Parser::create(true);
    return parser->parseModel(fixtureText(prefix));
}

enum BadClass
{
    B_NULL,
    B_NEVER,
    B_DEAD
};
const char *const badName[] = {"null", "neveradded", "ownerdead"};

struct Fx
{
    ModelPtr m;
    ComponentPtr c1, c2;
    VariablePtr t1, x, k, t2, y;
    UnitsPtr u, w;
    ResetPtr r;
    // the bad argument of the cell (at most one of each type), dumped before and after the call
    ModelPtr badM;
    ComponentPtr badC;
    VariablePtr badV;
    UnitsPtr badU;
    ResetPtr badR;
    ImportSourcePtr badI;
    // further state to compare before/after (service counters ...)
    std::vector<std::function<std::string()>> watch;
    // services, created on demand by cells
    AnnotatorPtr an;
    ImporterPtr imp;
    AnalyserPtr ana;
    AnalyserExternalVariablePtr aev;
    AnalyserModelPtr am;
    ModelPtr aux; // second valid model for services
    ImportSourcePtr is;

    Fx()
    {
        m = parseFixture("");
        c1 = m->component("c1");
        c2 = c1 != nullptr ? c1->component("c2") : nullptr;
        if (c1 == nullptr || c2 == nullptr) {
            return;
        }
        t1 = c1->variable("t");
        x = c1->variable("x");
        k = c1->variable("k");
        t2 = c2->variable("t");
        y = c2->variable("y");
        u = m->units("u");
        w = m->units("w");
        r = c1->reset(0);
    }
    bool ok() const
    {
        return m != nullptr && c1 != nullptr && c2 != nullptr && t1 != nullptr && x != nullptr && k != nullptr && t2 != nullptr && y != nullptr && u != nullptr && w != nullptr && r != nullptr;
    }
};

// ---- bad objects
ModelPtr badModel(BadClass b)
{
    if (b == B_NULL) {
        return nullptr;
    }
    // a model is never "added to a model": neveradded = a fresh empty model the service has never seen;
    // ownerdead does not apply (callers do not ask for it)
    return Model::create("never_added_model");
}
ComponentPtr badComponent(BadClass b)
{
    if (b == B_NULL) {
        return nullptr;
    }
    if (b == B_NEVER) {
        auto c = Component::create("never_added");
        c->addVariable(Variable::create("never_added_v"));
        return c;
    }
    auto m2 = parseFixture("dead_");
    return m2 != nullptr ? m2->component("dead_c1") : nullptr; // m2 dies here; the component keeps its own children
}
VariablePtr badVariable(BadClass b)
{
    if (b == B_NULL) {
        return nullptr;
    }
    if (b == B_NEVER) {
        auto v = Variable::create("never_added");
        v->setUnits("second");
        return v;
    }
    auto m2 = parseFixture("dead_");
    auto c = m2 != nullptr ? m2->component("dead_c1") : nullptr;
    return c != nullptr ? c->variable("dead_t") : nullptr; // model and component die here
}
UnitsPtr badUnits(BadClass b)
{
    if (b == B_NULL) {
        return nullptr;
    }
    if (b == B_NEVER) {
        auto un = Units::create("never_added");
        un->addUnit("metre");
        return un;
    }
    auto m2 = parseFixture("dead_");
    return m2 != nullptr ? m2->units("dead_w") : nullptr; // references dead_u, which died with the model
}
ResetPtr badReset(BadClass b)
{
    if (b == B_NULL) {
        return nullptr;
    }
    if (b == B_NEVER) {
        auto rr = Reset::create(77);
        rr->setId("never_added");
        return rr;
    }
    auto m2 = parseFixture("dead_");
    auto c = m2 != nullptr ? m2->component("dead_c1") : nullptr;
    return c != nullptr ? c->reset(0) : nullptr; // its variable()/testVariable() keep the variables alive, their component died
}
ImportSourcePtr badImportSource(BadClass b)
{
    if (b == B_NULL) {
        return nullptr;
    }
    auto is = ImportSource::create();
    is->setUrl(b == B_NEVER ? "never_added.cellml" : "dead_owner.cellml");
    is->setId(b == B_NEVER ? "never_added_is" : "dead_is");
    if (b == B_DEAD) {
        auto owner = Component::create("dead_importer");
        owner->setImportSource(is);
        owner->setImportReference("ref");
        auto mm = Model::create("dead_model");
        mm->addComponent(owner);
    }
    return is;
}

std::string parentState(const ParentedEntityPtr &e)
{
    return std::string(" hasParent=") + (e->hasParent() ? "1" : "0");
}

std::string snapshot(const Fx &fx)
{
    DumpOptions o;
    o.orderSensitive = true;
    std::string s = "fixture: " + dumpModel(fx.m, o);
    // the fixture's own entities may have been unlinked from the model by the call: dump them separately too
    if (fx.c1 != nullptr) {
        s += "\nc1:" + parentState(fx.c1) + " " + dumpComponent(fx.c1, o);
    }
    if (fx.x != nullptr) {
        s += "\nx:" + parentState(fx.x) + " eq=" + std::to_string(fx.x->equivalentVariableCount()) + " " + dumpVariable(fx.x, o);
    }
    if (fx.t1 != nullptr) {
        s += "\nt1:" + parentState(fx.t1) + " eq=" + std::to_string(fx.t1->equivalentVariableCount()) + " " + dumpVariable(fx.t1, o);
    }
    if (fx.u != nullptr) {
        s += "\nu:" + parentState(fx.u) + " " + dumpUnits(fx.u, o);
    }
    if (fx.r != nullptr) {
        s += "\nr:" + parentState(fx.r) + " " + dumpReset(fx.r, o);
    }
    if (fx.badM != nullptr) {
        s += "\nbadM: " + dumpModel(fx.badM, o);
    }
    if (fx.badC != nullptr) {
        s += "\nbadC:" + parentState(fx.badC) + " " + dumpComponent(fx.badC, o);
    }
    if (fx.badV != nullptr) {
        s += "\nbadV:" + parentState(fx.badV) + " eq=" + std::to_string(fx.badV->equivalentVariableCount()) + " " + dumpVariable(fx.badV, o);
    }
    if (fx.badU != nullptr) {
        s += "\nbadU:" + parentState(fx.badU) + " " + dumpUnits(fx.badU, o);
    }
    if (fx.badR != nullptr) {
        s += "\nbadR:" + parentState(fx.badR) + " " + dumpReset(fx.badR, o);
    }
    if (fx.badI != nullptr) {
        s += "\nbadI: url=" + fx.badI->url() + " id=" + fx.badI->id() + " hasModel=" + (fx.badI->hasModel() ? "1" : "0");
    }
    if (fx.aux != nullptr) {
        s += "\naux: " + dumpModel(fx.aux, o);
    }
    for (const auto &wf : fx.watch) {
        s += "\nwatch: " + wf();
    }
    return s;
}

// ---------------------------------------------------------------- cells
enum Exp
{
    R, // must refuse and change nothing
    U, // must change nothing
    N // legitimate argument: must not crash; outcome recorded
};

struct Out
{
    bool refused = true;
    std::string desc;
};
Out ofBool(bool b)
{
    return {!b, b ? "true" : "false"};
}
template<class T>
Out ofPtr(const std::shared_ptr<T> &p)
{
    return {p == nullptr, p == nullptr ? "null" : "non-null"};
}
Out ofStr(const std::string &s)
{
    return {s.empty(), s.empty() ? "\"\"" : "\"" + s.substr(0, 40) + "\""};
}
Out ofCount(size_t n)
{
    return {n == 0, std::to_string(n)};
}
Out ofVoid()
{
    return {true, "void"};
}
Out ofNum(double d)
{
    return {true, fmtDouble(d)};
}
Out ofItem(const AnyCellmlElementPtr &it)
{
    bool empty = it == nullptr || it->type() == CellmlElementType::UNDEFINED;
    return {empty, it == nullptr ? "null" : empty ? "UNDEFINED item" :
                                                    "item"};
}
// a logger-based service refuses when it adds an issue
Out withIssues(const Logger &lg, size_t before, Out o)
{
    if (lg.issueCount() > before) {
        o.refused = true;
        o.desc += " +issue(" + ruleName(lg.issue(lg.issueCount() - 1)->referenceRule()) + ")";
    }
    return o;
}

struct Cell
{
    std::string sig;
    std::string arg;
    Exp exp;
    std::function<void(Fx &)> prep;
    std::function<Out(Fx &)> run;
};

std::vector<Cell> gCells;
std::vector<std::pair<std::string, std::string>> gNotApplicable;

void CELL(const std::string &sig, const std::string &arg, Exp exp, std::function<Out(Fx &)> run, std::function<void(Fx &)> prep = nullptr)
{
    gCells.push_back({sig, arg, exp, std::move(prep), std::move(run)});
}
void NA(const std::string &sig, const std::string &reason)
{
    gNotApplicable.emplace_back(sig, reason);
}

// three cells (null / neveradded / ownerdead) for one pointer parameter
using Exp3 = std::array<Exp, 3>;
const Exp3 RRR = {R, R, R};
const Exp3 RNN = {R, N, N};
const Exp3 NNN = {N, N, N};
const Exp3 UUU = {U, U, U};
const Exp3 UNN = {U, N, N};

void cellsC(const std::string &sig, const std::string &argName, Exp3 e, std::function<Out(Fx &, const ComponentPtr &)> f)
{
    for (int b = 0; b < 3; ++b) {
        CELL(sig, argName + "=" + badName[b], e[b], [f](Fx &fx) { return f(fx, fx.badC); }, [b](Fx &fx) { fx.badC = badComponent(static_cast<BadClass>(b)); });
    }
}
void cellsV(const std::string &sig, const std::string &argName, Exp3 e, std::function<Out(Fx &, const VariablePtr &)> f)
{
    for (int b = 0; b < 3; ++b) {
        CELL(sig, argName + "=" + badName[b], e[b], [f](Fx &fx) { return f(fx, fx.badV); }, [b](Fx &fx) { fx.badV = badVariable(static_cast<BadClass>(b)); });
    }
}
void cellsU(const std::string &sig, const std::string &argName, Exp3 e, std::function<Out(Fx &, const UnitsPtr &)> f)
{
    for (int b = 0; b < 3; ++b) {
        CELL(sig, argName + "=" + badName[b], e[b], [f](Fx &fx) { return f(fx, fx.badU); }, [b](Fx &fx) { fx.badU = badUnits(static_cast<BadClass>(b)); });
    }
}
void cellsR(const std::string &sig, const std::string &argName, Exp3 e, std::function<Out(Fx &, const ResetPtr &)> f)
{
    for (int b = 0; b < 3; ++b) {
        CELL(sig, argName + "=" + badName[b], e[b], [f](Fx &fx) { return f(fx, fx.badR); }, [b](Fx &fx) { fx.badR = badReset(static_cast<BadClass>(b)); });
    }
}
void cellsI(const std::string &sig, const std::string &argName, Exp3 e, std::function<Out(Fx &, ImportSourcePtr &)> f)
{
    for (int b = 0; b < 3; ++b) {
        CELL(sig, argName + "=" + badName[b], e[b], [f](Fx &fx) { return f(fx, fx.badI); }, [b](Fx &fx) { fx.badI = badImportSource(static_cast<BadClass>(b)); });
    }
}
// models: null and "a model the service has never seen"
void cellsM(const std::string &sig, const std::string &argName, Exp eNull, Exp eOther, std::function<Out(Fx &, ModelPtr &)> f)
{
    CELL(sig, argName + "=null", eNull, [f](Fx &fx) { return f(fx, fx.badM); }, [](Fx &fx) { fx.badM = nullptr; });
    CELL(sig, argName + "=neveradded", eOther, [f](Fx &fx) { return f(fx, fx.badM); }, [](Fx &fx) { fx.badM = badModel(B_NEVER); });
}

const std::string NONAME = "no_such_name";

// ---------------------------------------------------------------- object model
void objectModelCells()
{
    // ---- Entity / ParentedEntity
    for (const std::string recv : {"Model", "Component", "Variable", "Units", "Reset"}) {
        auto self = [recv](Fx &fx) -> EntityPtr {
            if (recv == "Model") {
                return fx.m;
            }
            if (recv == "Component") {
                return fx.c1;
            }
            if (recv == "Variable") {
                return fx.x;
            }
            if (recv == "Units") {
                return fx.u;
            }
            return fx.r;
        };
        const std::string sig = "Entity::equals(EntityPtr)";
        if (recv == "Model") {
            CELL(sig, "recv=Model,arg1=null", R, [self](Fx &fx) { return ofBool(self(fx)->equals(nullptr)); });
            CELL(sig, "recv=Model,arg1=neveradded", R, [](Fx &fx) { return ofBool(fx.m->equals(fx.badM)); }, [](Fx &fx) { fx.badM = badModel(B_NEVER); });
        } else if (recv == "Component") {
            cellsC(sig, "recv=Component,arg1", RRR, [](Fx &fx, const ComponentPtr &a) { return ofBool(fx.c1->equals(a)); });
        } else if (recv == "Variable") {
            cellsV(sig, "recv=Variable,arg1", RRR, [](Fx &fx, const VariablePtr &a) { return ofBool(fx.x->equals(a)); });
        } else if (recv == "Units") {
            cellsU(sig, "recv=Units,arg1", RRR, [](Fx &fx, const UnitsPtr &a) { return ofBool(fx.u->equals(a)); });
        } else {
            cellsR(sig, "recv=Reset,arg1", RRR, [](Fx &fx, const ResetPtr &a) { return ofBool(fx.r->equals(a)); });
        }
    }
    cellsI("Entity::equals(EntityPtr)", "recv=ImportSource,arg1", RRR, [](Fx &, ImportSourcePtr &a) {
        auto is = ImportSource::create();
        is->setUrl("some.cellml");
        return ofBool(is->equals(a));
    });
    cellsC("ParentedEntity::hasAncestor(ParentedEntityPtr)", "arg1", RRR, [](Fx &fx, const ComponentPtr &a) { return ofBool(fx.c2->hasAncestor(a)); });
    CELL("ParentedEntity::hasAncestor(ParentedEntityPtr)", "recv=neveradded,arg1=valid", R, [](Fx &fx) { return ofBool(fx.badC->hasAncestor(fx.m)); }, [](Fx &fx) { fx.badC = badComponent(B_NEVER); });
    CELL("ParentedEntity::hasAncestor(ParentedEntityPtr)", "recv=ownerdead,arg1=valid", R, [](Fx &fx) { return ofBool(fx.badC->hasAncestor(fx.m)); }, [](Fx &fx) { fx.badC = badComponent(B_DEAD); });
    CELL("ParentedEntity::parent()", "recv=ownerdead", R, [](Fx &fx) { return Out {fx.badC->parent() == nullptr && !fx.badC->hasParent(), "parent() after owner died"}; }, [](Fx &fx) { fx.badC = badComponent(B_DEAD); });

    // ---- ComponentEntity, on a Model and on a Component receiver
    for (const std::string recv : {"Model", "Component"}) {
        auto P = [recv](Fx &fx) -> ComponentEntityPtr {
            if (recv == "Model") {
                return fx.m;
            }
            return fx.c1;
        };
        const std::string rp = "recv=" + recv + ",";
        cellsC("ComponentEntity::addComponent(ComponentPtr)", rp + "arg1", RNN, [P](Fx &fx, const ComponentPtr &a) { return ofBool(P(fx)->addComponent(a)); });
        CELL("ComponentEntity::removeComponent(size_t)", rp + "arg1=pastend", R, [P](Fx &fx) { return ofBool(P(fx)->removeComponent(P(fx)->componentCount())); });
        CELL("ComponentEntity::removeComponent(string,bool)", rp + "arg1=unknownname", R, [P](Fx &fx) { return ofBool(P(fx)->removeComponent(NONAME, true)); });
        cellsC("ComponentEntity::removeComponent(ComponentPtr,bool)", rp + "arg1", RRR, [P](Fx &fx, const ComponentPtr &a) { return ofBool(P(fx)->removeComponent(a, true)); });
        CELL("ComponentEntity::containsComponent(string,bool)", rp + "arg1=unknownname", R, [P](Fx &fx) { return ofBool(P(fx)->containsComponent(NONAME, true)); });
        cellsC("ComponentEntity::containsComponent(ComponentPtr,bool)", rp + "arg1", RRR, [P](Fx &fx, const ComponentPtr &a) { return ofBool(P(fx)->containsComponent(a, true)); });
        CELL("ComponentEntity::component(size_t)", rp + "arg1=pastend", R, [P](Fx &fx) { return ofPtr(P(fx)->component(P(fx)->componentCount())); });
        CELL("ComponentEntity::component(string,bool)", rp + "arg1=unknownname", R, [P](Fx &fx) { return ofPtr(P(fx)->component(NONAME, true)); });
        CELL("ComponentEntity::takeComponent(size_t)", rp + "arg1=pastend", R, [P](Fx &fx) { return ofPtr(P(fx)->takeComponent(P(fx)->componentCount())); });
        CELL("ComponentEntity::takeComponent(string,bool)", rp + "arg1=unknownname", R, [P](Fx &fx) { return ofPtr(P(fx)->takeComponent(NONAME, true)); });
        CELL("ComponentEntity::replaceComponent(size_t,ComponentPtr)", rp + "arg1=pastend", R, [P](Fx &fx) { return ofBool(P(fx)->replaceComponent(P(fx)->componentCount(), fx.badC)); }, [](Fx &fx) { fx.badC = badComponent(B_NEVER); });
        cellsC("ComponentEntity::replaceComponent(size_t,ComponentPtr)", rp + "arg2", RNN, [P](Fx &fx, const ComponentPtr &a) { return ofBool(P(fx)->replaceComponent(0, a)); });
        CELL("ComponentEntity::replaceComponent(string,ComponentPtr,bool)", rp + "arg1=unknownname", R, [P](Fx &fx) { return ofBool(P(fx)->replaceComponent(NONAME, fx.badC, true)); }, [](Fx &fx) { fx.badC = badComponent(B_NEVER); });
        cellsC("ComponentEntity::replaceComponent(string,ComponentPtr,bool)", rp + "arg2", RNN, [P, recv](Fx &fx, const ComponentPtr &a) { return ofBool(P(fx)->replaceComponent(recv == "Model" ? "c1" : "c2", a, true)); });
        cellsC("ComponentEntity::replaceComponent(ComponentPtr,ComponentPtr,bool)", rp + "arg1", RRR, [P](Fx &fx, const ComponentPtr &a) { return ofBool(P(fx)->replaceComponent(a, Component::create("fresh_replacement"), true)); });
        cellsC("ComponentEntity::replaceComponent(ComponentPtr,ComponentPtr,bool)", rp + "arg2", RNN, [P, recv](Fx &fx, const ComponentPtr &a) { return ofBool(P(fx)->replaceComponent(recv == "Model" ? fx.c1 : fx.c2, a, true)); });
    }
    NA("ComponentEntity::setEncapsulationId(string)", "free text: every string is a legal value");

    // ---- Model
    cellsU("Model::addUnits(UnitsPtr)", "arg1", RNN, [](Fx &fx, const UnitsPtr &a) { return ofBool(fx.m->addUnits(a)); });
    CELL("Model::removeUnits(size_t)", "arg1=pastend", R, [](Fx &fx) { return ofBool(fx.m->removeUnits(fx.m->unitsCount())); });
    CELL("Model::removeUnits(string)", "arg1=unknownname", R, [](Fx &fx) { return ofBool(fx.m->removeUnits(NONAME)); });
    cellsU("Model::removeUnits(UnitsPtr)", "arg1", RRR, [](Fx &fx, const UnitsPtr &a) { return ofBool(fx.m->removeUnits(a)); });
    CELL("Model::hasUnits(string)", "arg1=unknownname", R, [](Fx &fx) { return ofBool(fx.m->hasUnits(NONAME)); });
    cellsU("Model::hasUnits(UnitsPtr)", "arg1", RRR, [](Fx &fx, const UnitsPtr &a) { return ofBool(fx.m->hasUnits(a)); });
    CELL("Model::units(size_t)", "arg1=pastend", R, [](Fx &fx) { return ofPtr(fx.m->units(fx.m->unitsCount())); });
    CELL("Model::units(string)", "arg1=unknownname", R, [](Fx &fx) { return ofPtr(fx.m->units(NONAME)); });
    CELL("Model::takeUnits(size_t)", "arg1=pastend", R, [](Fx &fx) { return ofPtr(fx.m->takeUnits(fx.m->unitsCount())); });
    CELL("Model::takeUnits(string)", "arg1=unknownname", R, [](Fx &fx) { return ofPtr(fx.m->takeUnits(NONAME)); });
    CELL("Model::replaceUnits(size_t,UnitsPtr)", "arg1=pastend", R, [](Fx &fx) { return ofBool(fx.m->replaceUnits(fx.m->unitsCount(), fx.badU)); }, [](Fx &fx) { fx.badU = badUnits(B_NEVER); });
    cellsU("Model::replaceUnits(size_t,UnitsPtr)", "arg2", RNN, [](Fx &fx, const UnitsPtr &a) { return ofBool(fx.m->replaceUnits(1, a)); });
    CELL("Model::replaceUnits(string,UnitsPtr)", "arg1=unknownname", R, [](Fx &fx) { return ofBool(fx.m->replaceUnits(NONAME, fx.badU)); }, [](Fx &fx) { fx.badU = badUnits(B_NEVER); });
    cellsU("Model::replaceUnits(string,UnitsPtr)", "arg2", RNN, [](Fx &fx, const UnitsPtr &a) { return ofBool(fx.m->replaceUnits("w", a)); });
    cellsU("Model::replaceUnits(UnitsPtr,UnitsPtr)", "arg1", RRR, [](Fx &fx, const UnitsPtr &a) { return ofBool(fx.m->replaceUnits(a, Units::create("fresh_replacement"))); });
    cellsU("Model::replaceUnits(UnitsPtr,UnitsPtr)", "arg2", RNN, [](Fx &fx, const UnitsPtr &a) { return ofBool(fx.m->replaceUnits(fx.w, a)); });
    NA("Model::create(string)", "free text: model name");

    // ---- Component
    cellsI("Component::setSourceComponent(ImportSourcePtr,string)", "arg1", NNN, [](Fx &fx, ImportSourcePtr &a) {
        fx.c2->setSourceComponent(a, "ref");
        return ofVoid();
    });
    cellsV("Component::addVariable(VariablePtr)", "arg1", RNN, [](Fx &fx, const VariablePtr &a) { return ofBool(fx.c1->addVariable(a)); });
    CELL("Component::removeVariable(size_t)", "arg1=pastend", R, [](Fx &fx) { return ofBool(fx.c1->removeVariable(fx.c1->variableCount())); });
    CELL("Component::removeVariable(string)", "arg1=unknownname", R, [](Fx &fx) { return ofBool(fx.c1->removeVariable(NONAME)); });
    cellsV("Component::removeVariable(VariablePtr)", "arg1", RRR, [](Fx &fx, const VariablePtr &a) { return ofBool(fx.c1->removeVariable(a)); });
    CELL("Component::variable(size_t)", "arg1=pastend", R, [](Fx &fx) { return ofPtr(fx.c1->variable(fx.c1->variableCount())); });
    CELL("Component::variable(string)", "arg1=unknownname", R, [](Fx &fx) { return ofPtr(fx.c1->variable(NONAME)); });
    CELL("Component::takeVariable(size_t)", "arg1=pastend", R, [](Fx &fx) { return ofPtr(fx.c1->takeVariable(fx.c1->variableCount())); });
    CELL("Component::takeVariable(string)", "arg1=unknownname", R, [](Fx &fx) { return ofPtr(fx.c1->takeVariable(NONAME)); });
    cellsV("Component::hasVariable(VariablePtr)", "arg1", RRR, [](Fx &fx, const VariablePtr &a) { return ofBool(fx.c1->hasVariable(a)); });
    CELL("Component::hasVariable(string)", "arg1=unknownname", R, [](Fx &fx) { return ofBool(fx.c1->hasVariable(NONAME)); });
    cellsR("Component::addReset(ResetPtr)", "arg1", RNN, [](Fx &fx, const ResetPtr &a) { return ofBool(fx.c1->addReset(a)); });
    CELL("Component::takeReset(size_t)", "arg1=pastend", R, [](Fx &fx) { return ofPtr(fx.c1->takeReset(fx.c1->resetCount())); });
    CELL("Component::removeReset(size_t)", "arg1=pastend", R, [](Fx &fx) { return ofBool(fx.c1->removeReset(fx.c1->resetCount())); });
    cellsR("Component::removeReset(ResetPtr)", "arg1", RRR, [](Fx &fx, const ResetPtr &a) { return ofBool(fx.c1->removeReset(a)); });
    CELL("Component::reset(size_t)", "arg1=pastend", R, [](Fx &fx) { return ofPtr(fx.c1->reset(fx.c1->resetCount())); });
    cellsR("Component::hasReset(ResetPtr)", "arg1", RRR, [](Fx &fx, const ResetPtr &a) { return ofBool(fx.c1->hasReset(a)); });
    for (int b = B_NEVER; b <= B_DEAD; ++b) {
        const std::string rc = std::string("recv=") + badName[b];
        auto prep = [b](Fx &fx) { fx.badC = badComponent(static_cast<BadClass>(b)); };
        CELL("Component::isDefined()", rc, N, [](Fx &fx) { return ofBool(fx.badC->isDefined()); }, prep);
        CELL("ImportedEntity::isResolved()", rc + ",Component", N, [](Fx &fx) { return ofBool(fx.badC->isResolved()); }, prep);
        CELL("Component::requiresImports()", rc, N, [](Fx &fx) { return ofBool(fx.badC->requiresImports()); }, prep);
        CELL("Component::clone()", rc, N, [](Fx &fx) { return ofPtr(fx.badC->clone()); }, prep);
    }
    NA("Component::create(string)", "free text: component name");
    NA("Component::appendMath(string)", "free text: MathML string");
    NA("Component::setMath(string)", "free text: MathML string");

    // ---- Variable
    cellsV("Variable::addEquivalence(VariablePtr,VariablePtr)", "arg1", RNN, [](Fx &fx, const VariablePtr &a) { return ofBool(Variable::addEquivalence(a, fx.y)); });
    cellsV("Variable::addEquivalence(VariablePtr,VariablePtr)", "arg2", RNN, [](Fx &fx, const VariablePtr &a) { return ofBool(Variable::addEquivalence(fx.y, a)); });
    cellsV("Variable::addEquivalence(VariablePtr,VariablePtr,string,string)", "arg1", RNN, [](Fx &fx, const VariablePtr &a) { return ofBool(Variable::addEquivalence(a, fx.y, "mid", "cid")); });
    cellsV("Variable::addEquivalence(VariablePtr,VariablePtr,string,string)", "arg2", RNN, [](Fx &fx, const VariablePtr &a) { return ofBool(Variable::addEquivalence(fx.y, a, "mid", "cid")); });
    cellsV("Variable::setEquivalenceMappingId(VariablePtr,VariablePtr,string)", "arg1", UUU, [](Fx &fx, const VariablePtr &a) {
        Variable::setEquivalenceMappingId(a, fx.t1, "new_map_id");
        return ofVoid();
    });
    cellsV("Variable::setEquivalenceMappingId(VariablePtr,VariablePtr,string)", "arg2", UUU, [](Fx &fx, const VariablePtr &a) {
        Variable::setEquivalenceMappingId(fx.t1, a, "new_map_id");
        return ofVoid();
    });
    cellsV("Variable::setEquivalenceConnectionId(VariablePtr,VariablePtr,string)", "arg1", UUU, [](Fx &fx, const VariablePtr &a) {
        Variable::setEquivalenceConnectionId(a, fx.t1, "new_conn_id");
        return ofVoid();
    });
    cellsV("Variable::setEquivalenceConnectionId(VariablePtr,VariablePtr,string)", "arg2", UUU, [](Fx &fx, const VariablePtr &a) {
        Variable::setEquivalenceConnectionId(fx.t1, a, "new_conn_id");
        return ofVoid();
    });
    cellsV("Variable::equivalenceMappingId(VariablePtr,VariablePtr)", "arg1", RRR, [](Fx &fx, const VariablePtr &a) { return ofStr(Variable::equivalenceMappingId(a, fx.t1)); });
    cellsV("Variable::equivalenceMappingId(VariablePtr,VariablePtr)", "arg2", RRR, [](Fx &fx, const VariablePtr &a) { return ofStr(Variable::equivalenceMappingId(fx.t1, a)); });
    cellsV("Variable::equivalenceConnectionId(VariablePtr,VariablePtr)", "arg1", RRR, [](Fx &fx, const VariablePtr &a) { return ofStr(Variable::equivalenceConnectionId(a, fx.t1)); });
    cellsV("Variable::equivalenceConnectionId(VariablePtr,VariablePtr)", "arg2", RRR, [](Fx &fx, const VariablePtr &a) { return ofStr(Variable::equivalenceConnectionId(fx.t1, a)); });
    cellsV("Variable::removeEquivalenceConnectionId(VariablePtr,VariablePtr)", "arg1", UUU, [](Fx &fx, const VariablePtr &a) {
        Variable::removeEquivalenceConnectionId(a, fx.t1);
        return ofVoid();
    });
    cellsV("Variable::removeEquivalenceConnectionId(VariablePtr,VariablePtr)", "arg2", UUU, [](Fx &fx, const VariablePtr &a) {
        Variable::removeEquivalenceConnectionId(fx.t1, a);
        return ofVoid();
    });
    cellsV("Variable::removeEquivalenceMappingId(VariablePtr,VariablePtr)", "arg1", UUU, [](Fx &fx, const VariablePtr &a) {
        Variable::removeEquivalenceMappingId(a, fx.t1);
        return ofVoid();
    });
    cellsV("Variable::removeEquivalenceMappingId(VariablePtr,VariablePtr)", "arg2", UUU, [](Fx &fx, const VariablePtr &a) {
        Variable::removeEquivalenceMappingId(fx.t1, a);
        return ofVoid();
    });
    cellsV("Variable::removeEquivalence(VariablePtr,VariablePtr)", "arg1", RRR, [](Fx &fx, const VariablePtr &a) { return ofBool(Variable::removeEquivalence(a, fx.t1)); });
    cellsV("Variable::removeEquivalence(VariablePtr,VariablePtr)", "arg2", RRR, [](Fx &fx, const VariablePtr &a) { return ofBool(Variable::removeEquivalence(fx.t1, a)); });
    CELL("Variable::equivalentVariable(size_t)", "arg1=pastend", R, [](Fx &fx) { return ofPtr(fx.t1->equivalentVariable(fx.t1->equivalentVariableCount())); });
    CELL("Variable::equivalentVariable(size_t)", "recv=ownerdead,arg1=0", R, [](Fx &fx) { return ofPtr(fx.badV->equivalentVariable(0)); }, [](Fx &fx) { fx.badV = badVariable(B_DEAD); });
    cellsV("Variable::hasEquivalentVariable(VariablePtr,bool)", "direct,arg1", RRR, [](Fx &fx, const VariablePtr &a) { return ofBool(fx.t1->hasEquivalentVariable(a, false)); });
    cellsV("Variable::hasEquivalentVariable(VariablePtr,bool)", "indirect,arg1", RRR, [](Fx &fx, const VariablePtr &a) { return ofBool(fx.t1->hasEquivalentVariable(a, true)); });
    cellsU("Variable::setUnits(UnitsPtr)", "arg1", NNN, [](Fx &fx, const UnitsPtr &a) {
        fx.k->setUnits(a);
        return ofVoid();
    });
    cellsV("Variable::setInitialValue(VariablePtr)", "arg1", UNN, [](Fx &fx, const VariablePtr &a) {
        fx.k->setInitialValue(a);
        return ofVoid();
    });
    CELL("Variable::removeAllEquivalences()", "recv=ownerdead", N, [](Fx &fx) {
        fx.badV->removeAllEquivalences();
        return ofCount(fx.badV->equivalentVariableCount());
    }, [](Fx &fx) { fx.badV = badVariable(B_DEAD); });
    NA("Variable::create(string)", "free text: variable name");
    NA("Variable::setUnits(string)", "free text: creates a stand-alone Units of that name, nothing is looked up");
    NA("Variable::setInitialValue(string)", "free text");
    NA("Variable::setInterfaceType(string)", "free text (validity is the Validator's concern, C04)");

    // ---- Units
    CELL("Units::unitAttributes(size_t,string,string,double,double,string)", "arg1=pastend", U, [](Fx &fx) {
        std::string ref = "in";
        std::string pre = "in";
        std::string id = "in";
        double e = -1.0;
        double mu = -1.0;
        fx.u->unitAttributes(fx.u->unitCount(), ref, pre, e, mu, id);
        return Out {true, "ref=" + ref + " prefix=" + pre + " exp=" + fmtDouble(e) + " mult=" + fmtDouble(mu) + " id=" + id};
    });
    CELL("Units::unitAttributeReference(size_t)", "arg1=pastend", R, [](Fx &fx) { return ofStr(fx.u->unitAttributeReference(fx.u->unitCount())); });
    CELL("Units::setUnitAttributeReference(size_t,string)", "arg1=pastend", U, [](Fx &fx) {
        fx.u->setUnitAttributeReference(fx.u->unitCount(), "metre");
        return ofVoid();
    });
    CELL("Units::unitAttributePrefix(size_t)", "arg1=pastend", R, [](Fx &fx) { return ofStr(fx.u->unitAttributePrefix(fx.u->unitCount())); });
    CELL("Units::unitAttributeExponent(size_t)", "arg1=pastend", U, [](Fx &fx) { return ofNum(fx.u->unitAttributeExponent(fx.u->unitCount())); });
    CELL("Units::unitAttributeMultiplier(size_t)", "arg1=pastend", U, [](Fx &fx) { return ofNum(fx.u->unitAttributeMultiplier(fx.u->unitCount())); });
    CELL("Units::unitAttributes(string,string,double,double,string)", "arg1=unknownname", U, [](Fx &fx) {
        std::string pre = "in";
        std::string id = "in";
        double e = -1.0;
        double mu = -1.0;
        fx.u->unitAttributes(NONAME, pre, e, mu, id);
        return Out {true, "prefix=" + pre + " exp=" + fmtDouble(e) + " mult=" + fmtDouble(mu) + " id=" + id};
    });
    CELL("Units::unitAttributes(StandardUnit,string,double,double,string)", "arg1=unknownname", U, [](Fx &fx) {
        std::string pre = "in";
        std::string id = "in";
        double e = -1.0;
        double mu = -1.0;
        fx.u->unitAttributes(Units::StandardUnit::WEBER, pre, e, mu, id); // not referenced by u
        return Out {true, "prefix=" + pre + " exp=" + fmtDouble(e) + " mult=" + fmtDouble(mu) + " id=" + id};
    });
    CELL("Units::removeUnit(size_t)", "arg1=pastend", R, [](Fx &fx) { return ofBool(fx.u->removeUnit(fx.u->unitCount())); });
    CELL("Units::removeUnit(string)", "arg1=unknownname", R, [](Fx &fx) { return ofBool(fx.u->removeUnit(NONAME)); });
    CELL("Units::removeUnit(StandardUnit)", "arg1=unknownname", R, [](Fx &fx) { return ofBool(fx.u->removeUnit(Units::StandardUnit::WEBER)); });
    cellsI("Units::setSourceUnits(ImportSourcePtr,string)", "arg1", NNN, [](Fx &fx, ImportSourcePtr &a) {
        fx.w->setSourceUnits(a, "ref");
        return ofVoid();
    });
    cellsU("Units::scalingFactor(UnitsPtr,UnitsPtr,bool)", "arg1", RNN, [](Fx &fx, const UnitsPtr &a) { return Out {Units::scalingFactor(a, fx.u, true) == 0.0, "factor"}; });
    cellsU("Units::scalingFactor(UnitsPtr,UnitsPtr,bool)", "arg2", RNN, [](Fx &fx, const UnitsPtr &a) { return Out {Units::scalingFactor(fx.u, a, true) == 0.0, "factor"}; });
    cellsU("Units::compatible(UnitsPtr,UnitsPtr)", "arg1", RNN, [](Fx &fx, const UnitsPtr &a) { return ofBool(Units::compatible(a, fx.u)); });
    cellsU("Units::compatible(UnitsPtr,UnitsPtr)", "arg2", RNN, [](Fx &fx, const UnitsPtr &a) { return ofBool(Units::compatible(fx.u, a)); });
    cellsU("Units::equivalent(UnitsPtr,UnitsPtr)", "arg1", RNN, [](Fx &fx, const UnitsPtr &a) { return ofBool(Units::equivalent(a, fx.u)); });
    cellsU("Units::equivalent(UnitsPtr,UnitsPtr)", "arg2", RNN, [](Fx &fx, const UnitsPtr &a) { return ofBool(Units::equivalent(fx.u, a)); });
    CELL("Units::setUnitId(size_t,string)", "arg1=pastend", R, [](Fx &fx) { return ofBool(fx.u->setUnitId(fx.u->unitCount(), "new_id")); });
    CELL("Units::unitId(size_t)", "arg1=pastend", R, [](Fx &fx) { return ofStr(fx.u->unitId(fx.u->unitCount())); });
    for (int b = B_NEVER; b <= B_DEAD; ++b) {
        const std::string rc = std::string("recv=") + badName[b];
        auto prep = [b](Fx &fx) { fx.badU = badUnits(static_cast<BadClass>(b)); };
        CELL("Units::isDefined()", rc, N, [](Fx &fx) { return ofBool(fx.badU->isDefined()); }, prep);
        CELL("Units::requiresImports()", rc, N, [](Fx &fx) { return ofBool(fx.badU->requiresImports()); }, prep);
        CELL("ImportedEntity::isResolved()", rc + ",Units", N, [](Fx &fx) { return ofBool(fx.badU->isResolved()); }, prep);
        CELL("Units::isBaseUnit()", rc, N, [](Fx &fx) { return ofBool(fx.badU->isBaseUnit()); }, prep);
        CELL("Units::clone()", rc, N, [](Fx &fx) { return ofPtr(fx.badU->clone()); }, prep);
    }
    NA("Units::create(string)", "free text: units name");
    NA("Units::addUnit(string,string,double,double,string)", "free text: the reference is stored, not looked up (validity: C04)");
    NA("Units::addUnit(string,Prefix,double,double,string)", "free text: the reference is stored, not looked up");
    NA("Units::addUnit(string,int,double,double,string)", "free text: the reference is stored, not looked up");
    NA("Units::addUnit(string,double,string)", "free text: the reference is stored, not looked up");
    NA("Units::addUnit(string)", "free text: the reference is stored, not looked up");
    NA("Units::addUnit(StandardUnit,string,double,double,string)", "free text prefix/id");
    NA("Units::addUnit(StandardUnit,Prefix,double,double,string)", "free text id");
    NA("Units::addUnit(StandardUnit,int,double,double,string)", "free text id");
    NA("Units::addUnit(StandardUnit,double,string)", "free text id");

    // ---- Reset
    cellsV("Reset::setVariable(VariablePtr)", "arg1", NNN, [](Fx &fx, const VariablePtr &a) {
        fx.r->setVariable(a);
        return ofVoid();
    });
    cellsV("Reset::setTestVariable(VariablePtr)", "arg1", NNN, [](Fx &fx, const VariablePtr &a) {
        fx.r->setTestVariable(a);
        return ofVoid();
    });
    CELL("Reset::clone()", "recv=ownerdead", N, [](Fx &fx) { return ofPtr(fx.badR->clone()); }, [](Fx &fx) { fx.badR = badReset(B_DEAD); });
    NA("Reset::appendTestValue(string)", "free text: MathML string");
    NA("Reset::setTestValue(string)", "free text: MathML string");
    NA("Reset::setTestValueId(string)", "free text id");
    NA("Reset::appendResetValue(string)", "free text: MathML string");
    NA("Reset::setResetValue(string)", "free text: MathML string");
    NA("Reset::setResetValueId(string)", "free text id");

    // ---- ImportSource / ImportedEntity
    cellsM("ImportSource::setModel(ModelPtr)", "arg1", N, N, [](Fx &, ModelPtr &a) {
        auto is = ImportSource::create();
        is->setModel(a);
        return ofBool(is->hasModel());
    });
    cellsI("ImportedEntity::setImportSource(ImportSourcePtr)", "recv=Component,arg1", NNN, [](Fx &fx, ImportSourcePtr &a) {
        fx.c2->setImportSource(a);
        return ofBool(fx.c2->isImport());
    });
    cellsI("ImportedEntity::setImportSource(ImportSourcePtr)", "recv=Units,arg1", NNN, [](Fx &fx, ImportSourcePtr &a) {
        fx.w->setImportSource(a);
        return ofBool(fx.w->isImport());
    });
    NA("ImportSource::setUrl(string)", "free text url");
    NA("ImportedEntity::setImportReference(string)", "free text: resolved only by the Importer (C07)");
    NA("Entity::setId(string)", "free text id");
    NA("NamedEntity::setName(string)", "free text name");

    // ---- UnitsItem / VariablePair (types.h)
    cellsU("UnitsItem::create(UnitsPtr,size_t)", "arg1", RNN, [](Fx &, const UnitsPtr &a) {
        auto it = UnitsItem::create(a, 0);
        return Out {it == nullptr || !it->isValid(), it == nullptr ? "null" : it->isValid() ? "valid" :
                                                                                               "invalid"};
    });
    CELL("UnitsItem::create(UnitsPtr,size_t)", "arg2=pastend", R, [](Fx &fx) {
        auto it = UnitsItem::create(fx.u, fx.u->unitCount());
        return Out {it == nullptr || !it->isValid(), it == nullptr ? "null" : it->isValid() ? "valid" :
                                                                                               "invalid"};
    });
    cellsV("VariablePair::create(VariablePtr,VariablePtr)", "arg1", RNN, [](Fx &fx, const VariablePtr &a) {
        auto p = VariablePair::create(a, fx.t1);
        return Out {p == nullptr || !p->isValid(), p == nullptr ? "null" : p->isValid() ? "valid" :
                                                                                           "invalid"};
    });
    cellsV("VariablePair::create(VariablePtr,VariablePtr)", "arg2", RNN, [](Fx &fx, const VariablePtr &a) {
        auto p = VariablePair::create(fx.t1, a);
        return Out {p == nullptr || !p->isValid(), p == nullptr ? "null" : p->isValid() ? "valid" :
                                                                                           "invalid"};
    });
}

// ---------------------------------------------------------------- Annotator
struct AnnMethod
{
    std::string sig;
    std::function<Out(Annotator &, Fx &)> call; // with arguments that are valid for the fixture
};

void annotatorCells()
{
    auto prepNormal = [](Fx &fx) {
        fx.an = Annotator::create();
        fx.an->setModel(fx.m);
        Annotator *a = fx.an.get();
        fx.watch.push_back([a]() { return "annotator ids=" + std::to_string(a->ids().size()) + " hasModel=" + (a->hasModel() ? "1" : "0"); });
    };
    auto prepNoModel = [](Fx &fx) {
        fx.an = Annotator::create();
    };
    auto prepModelDead = [](Fx &fx) {
        fx.an = Annotator::create();
        fx.an->setModel(fx.m);
        fx.m.reset(); // the fixture's children stay alive (held by fx), the model is destroyed
    };

    // ---- lookups by id (+ index)
    struct Lookup
    {
        std::string name;
        std::string validId;
        std::function<Out(Annotator &, const std::string &)> one;
        std::function<Out(Annotator &, const std::string &, size_t)> two;
    };
    std::vector<Lookup> lookups = {
        {"item", "c1id", [](Annotator &a, const std::string &id) { return ofItem(a.item(id)); }, [](Annotator &a, const std::string &id, size_t i) { return ofItem(a.item(id, i)); }},
        {"component", "c1id", [](Annotator &a, const std::string &id) { return ofPtr(a.component(id)); }, [](Annotator &a, const std::string &id, size_t i) { return ofPtr(a.component(id, i)); }},
        {"componentEncapsulation", "cref1", [](Annotator &a, const std::string &id) { return ofPtr(a.componentEncapsulation(id)); }, [](Annotator &a, const std::string &id, size_t i) { return ofPtr(a.componentEncapsulation(id, i)); }},
        {"encapsulation", "encid", [](Annotator &a, const std::string &id) { return ofPtr(a.encapsulation(id)); }, [](Annotator &a, const std::string &id, size_t i) { return ofPtr(a.encapsulation(id, i)); }},
        {"variable", "xid", [](Annotator &a, const std::string &id) { return ofPtr(a.variable(id)); }, [](Annotator &a, const std::string &id, size_t i) { return ofPtr(a.variable(id, i)); }},
        {"reset", "rid", [](Annotator &a, const std::string &id) { return ofPtr(a.reset(id)); }, [](Annotator &a, const std::string &id, size_t i) { return ofPtr(a.reset(id, i)); }},
        {"model", "mid", [](Annotator &a, const std::string &id) { return ofPtr(a.model(id)); }, [](Annotator &a, const std::string &id, size_t i) { return ofPtr(a.model(id, i)); }},
        {"importSource", "c1id", [](Annotator &a, const std::string &id) { return ofPtr(a.importSource(id)); }, [](Annotator &a, const std::string &id, size_t i) { return ofPtr(a.importSource(id, i)); }},
        {"units", "uid", [](Annotator &a, const std::string &id) { return ofPtr(a.units(id)); }, [](Annotator &a, const std::string &id, size_t i) { return ofPtr(a.units(id, i)); }},
        {"mapVariables", "mapid", [](Annotator &a, const std::string &id) { return ofPtr(a.mapVariables(id)); }, [](Annotator &a, const std::string &id, size_t i) { return ofPtr(a.mapVariables(id, i)); }},
        {"connection", "connid", [](Annotator &a, const std::string &id) { return ofPtr(a.connection(id)); }, [](Annotator &a, const std::string &id, size_t i) { return ofPtr(a.connection(id, i)); }},
        {"unitsItem", "unitid", [](Annotator &a, const std::string &id) { return ofPtr(a.unitsItem(id)); }, [](Annotator &a, const std::string &id, size_t i) { return ofPtr(a.unitsItem(id, i)); }},
        {"testValue", "tvid", [](Annotator &a, const std::string &id) { return ofPtr(a.testValue(id)); }, [](Annotator &a, const std::string &id, size_t i) { return ofPtr(a.testValue(id, i)); }},
        {"resetValue", "rvid", [](Annotator &a, const std::string &id) { return ofPtr(a.resetValue(id)); }, [](Annotator &a, const std::string &id, size_t i) { return ofPtr(a.resetValue(id, i)); }},
    };
    std::vector<AnnMethod> methods;
    for (const auto &l : lookups) {
        const std::string s1 = "Annotator::" + l.name + "(string)";
        const std::string s2 = "Annotator::" + l.name + "(string,size_t)";
        auto one = l.one;
        auto two = l.two;
        const std::string vid = l.validId;
        CELL(s1, "arg1=unknownname", R, [one](Fx &fx) {
            size_t n = fx.an->issueCount();
            return withIssues(*fx.an, n, one(*fx.an, NONAME)); }, prepNormal);
        CELL(s2, "arg1=unknownname", R, [two](Fx &fx) {
            size_t n = fx.an->issueCount();
            return withIssues(*fx.an, n, two(*fx.an, NONAME, 0)); }, prepNormal);
        if (l.name != "importSource") {
            CELL(s2, "arg2=pastend", R, [two, vid](Fx &fx) {
                size_t n = fx.an->issueCount();
                return withIssues(*fx.an, n, two(*fx.an, vid, fx.an->itemCount(vid))); }, prepNormal);
        }
        methods.push_back({s1, [one, vid](Annotator &a, Fx &) { return one(a, vid); }});
        methods.push_back({s2, [two, vid](Annotator &a, Fx &) { return two(a, vid, 0); }});
    }
    // ---- other id-based queries
    CELL("Annotator::isUnique(string)", "arg1=unknownname", R, [](Fx &fx) { return ofBool(fx.an->isUnique(NONAME)); }, prepNormal);
    CELL("Annotator::items(string)", "arg1=unknownname", R, [](Fx &fx) { return ofCount(fx.an->items(NONAME).size()); }, prepNormal);
    CELL("Annotator::itemCount(string)", "arg1=unknownname", R, [](Fx &fx) { return ofCount(fx.an->itemCount(NONAME)); }, prepNormal);
    methods.push_back({"Annotator::isUnique(string)", [](Annotator &a, Fx &) { return ofBool(a.isUnique("c1id")); }});
    methods.push_back({"Annotator::items(string)", [](Annotator &a, Fx &) { return ofCount(a.items("c1id").size()); }});
    methods.push_back({"Annotator::itemCount(string)", [](Annotator &a, Fx &) { return ofCount(a.itemCount("c1id")); }});
    methods.push_back({"Annotator::ids()", [](Annotator &a, Fx &) { return ofCount(a.ids().size()); }});
    methods.push_back({"Annotator::duplicateIds()", [](Annotator &a, Fx &) { return ofCount(a.duplicateIds().size()); }});
    methods.push_back({"Annotator::assignAllIds()", [](Annotator &a, Fx &) { return ofBool(a.assignAllIds()); }});
    methods.push_back({"Annotator::assignIds(CellmlElementType)", [](Annotator &a, Fx &) { return ofBool(a.assignIds(CellmlElementType::VARIABLE)); }});
    methods.push_back({"Annotator::clearAllIds()", [](Annotator &a, Fx &) {
                           a.clearAllIds();
                           return ofVoid();
                       }});
    methods.push_back({"Annotator::model()", [](Annotator &a, Fx &) { return ofPtr(a.model()); }});
    methods.push_back({"Annotator::hasModel()", [](Annotator &a, Fx &) { return ofBool(a.hasModel()); }});

    // ---- entry points taking a model
    cellsM("Annotator::setModel(ModelPtr)", "arg1", N, N, [](Fx &fx, ModelPtr &a) {
        fx.an->setModel(a);
        return ofBool(fx.an->hasModel());
    });
    gCells[gCells.size() - 2].prep = [prepNormal](Fx &fx) { prepNormal(fx); fx.badM = nullptr; };
    gCells[gCells.size() - 1].prep = [prepNormal](Fx &fx) { prepNormal(fx); fx.badM = badModel(B_NEVER); };
    CELL("Annotator::assignAllIds(ModelPtr)", "arg1=null", R, [](Fx &fx) {
        size_t n = fx.an->issueCount();
        ModelPtr nm;
        return withIssues(*fx.an, n, ofBool(fx.an->assignAllIds(nm))); }, prepNormal);
    CELL("Annotator::clearAllIds(ModelPtr)", "arg1=null", U, [](Fx &fx) {
        ModelPtr nm;
        fx.an->clearAllIds(nm);
        return ofVoid(); }, prepNormal);

    // ---- assignId overloads
    CELL("Annotator::assignId(AnyCellmlElementPtr)", "arg1=null", R, [](Fx &fx) {
        size_t n = fx.an->issueCount();
        return withIssues(*fx.an, n, ofStr(fx.an->assignId(AnyCellmlElementPtr()))); }, prepNormal);
    CELL("Annotator::assignId(AnyCellmlElementPtr)", "arg1=neveradded", R, [](Fx &fx) {
        // an item that belongs to another model (obtained from a second annotator)
        auto other = Annotator::create();
        other->setModel(fx.aux);
        auto item = other->item("dead_c1id");
        size_t n = fx.an->issueCount();
        return withIssues(*fx.an, n, ofStr(fx.an->assignId(item))); }, [prepNormal](Fx &fx) { prepNormal(fx); fx.aux = parseFixture("dead_"); });
    CELL("Annotator::assignId(AnyCellmlElementPtr)", "arg1=ownerdead", R, [](Fx &fx) {
        AnyCellmlElementPtr item;
        {
            auto other = Annotator::create();
            auto m2 = parseFixture("dead_");
            other->setModel(m2);
            item = other->item("dead_c1id");
        } // the item's model (and with it the component it refers to weakly) is destroyed here
        size_t n = fx.an->issueCount();
        return withIssues(*fx.an, n, ofStr(fx.an->assignId(item))); }, prepNormal);
    CELL("Annotator::assignId(ModelPtr,CellmlElementType)", "arg1=null", R, [](Fx &fx) {
        size_t n = fx.an->issueCount();
        return withIssues(*fx.an, n, ofStr(fx.an->assignId(ModelPtr(), CellmlElementType::MODEL))); }, prepNormal);
    CELL("Annotator::assignId(ModelPtr,CellmlElementType)", "arg1=neveradded", R, [](Fx &fx) {
        size_t n = fx.an->issueCount();
        return withIssues(*fx.an, n, ofStr(fx.an->assignId(fx.badM, CellmlElementType::MODEL))); }, [prepNormal](Fx &fx) { prepNormal(fx); fx.badM = badModel(B_NEVER); });
    auto annC = [prepNormal](const std::string &sig, CellmlElementType type) {
        for (int b = 0; b < 3; ++b) {
            CELL(sig, std::string("arg1=") + badName[b] + (type == CellmlElementType::COMPONENT ? "" : ",type=COMPONENT_REF"), R, [type](Fx &fx) {
                size_t n = fx.an->issueCount();
                return withIssues(*fx.an, n, ofStr(fx.an->assignId(fx.badC, type))); }, [prepNormal, b](Fx &fx) { prepNormal(fx); fx.badC = badComponent(static_cast<BadClass>(b)); });
        }
    };
    annC("Annotator::assignId(ComponentPtr,CellmlElementType)", CellmlElementType::COMPONENT);
    annC("Annotator::assignId(ComponentPtr,CellmlElementType)", CellmlElementType::COMPONENT_REF);
    for (int b = 0; b < 3; ++b) {
        const std::string a1 = std::string("arg1=") + badName[b];
        const BadClass bc = static_cast<BadClass>(b);
        CELL("Annotator::assignId(ImportSourcePtr)", a1, R, [](Fx &fx) {
            size_t n = fx.an->issueCount();
            return withIssues(*fx.an, n, ofStr(fx.an->assignId(fx.badI))); }, [prepNormal, bc](Fx &fx) { prepNormal(fx); fx.badI = badImportSource(bc); });
        for (auto type : {CellmlElementType::RESET, CellmlElementType::TEST_VALUE, CellmlElementType::RESET_VALUE}) {
            CELL("Annotator::assignId(ResetPtr,CellmlElementType)", a1 + ",type=" + std::to_string(static_cast<int>(type)), R, [type](Fx &fx) {
                size_t n = fx.an->issueCount();
                return withIssues(*fx.an, n, ofStr(fx.an->assignId(fx.badR, type))); }, [prepNormal, bc](Fx &fx) { prepNormal(fx); fx.badR = badReset(bc); });
        }
        CELL("Annotator::assignId(UnitsPtr)", a1, R, [](Fx &fx) {
            size_t n = fx.an->issueCount();
            return withIssues(*fx.an, n, ofStr(fx.an->assignId(fx.badU))); }, [prepNormal, bc](Fx &fx) { prepNormal(fx); fx.badU = badUnits(bc); });
        CELL("Annotator::assignId(UnitsPtr,size_t)", a1, R, [](Fx &fx) {
            size_t n = fx.an->issueCount();
            return withIssues(*fx.an, n, ofStr(fx.an->assignId(fx.badU, 0))); }, [prepNormal, bc](Fx &fx) { prepNormal(fx); fx.badU = badUnits(bc); });
        CELL("Annotator::assignId(UnitsItemPtr)", std::string("arg1=item-of-") + badName[b] + "-units", R, [](Fx &fx) {
            size_t n = fx.an->issueCount();
            return withIssues(*fx.an, n, ofStr(fx.an->assignId(UnitsItem::create(fx.badU, 0)))); }, [prepNormal, bc](Fx &fx) { prepNormal(fx); fx.badU = badUnits(bc); });
        CELL("Annotator::assignId(VariablePtr)", a1, R, [](Fx &fx) {
            size_t n = fx.an->issueCount();
            return withIssues(*fx.an, n, ofStr(fx.an->assignId(fx.badV))); }, [prepNormal, bc](Fx &fx) { prepNormal(fx); fx.badV = badVariable(bc); });
        for (auto type : {CellmlElementType::MAP_VARIABLES, CellmlElementType::CONNECTION}) {
            const std::string ts = type == CellmlElementType::MAP_VARIABLES ? ",type=MAP_VARIABLES" : ",type=CONNECTION";
            CELL("Annotator::assignId(VariablePtr,VariablePtr,CellmlElementType)", a1 + ts, R, [type](Fx &fx) {
                size_t n = fx.an->issueCount();
                return withIssues(*fx.an, n, ofStr(fx.an->assignId(fx.badV, fx.t1, type))); }, [prepNormal, bc](Fx &fx) { prepNormal(fx); fx.badV = badVariable(bc); });
            CELL("Annotator::assignId(VariablePtr,VariablePtr,CellmlElementType)", std::string("arg2=") + badName[b] + ts, R, [type](Fx &fx) {
                size_t n = fx.an->issueCount();
                return withIssues(*fx.an, n, ofStr(fx.an->assignId(fx.t1, fx.badV, type))); }, [prepNormal, bc](Fx &fx) { prepNormal(fx); fx.badV = badVariable(bc); });
            CELL("Annotator::assignId(VariablePairPtr,CellmlElementType)", std::string("arg1=pair-with-") + badName[b] + "-variable" + ts, R, [type](Fx &fx) {
                size_t n = fx.an->issueCount();
                return withIssues(*fx.an, n, ofStr(fx.an->assignId(VariablePair::create(fx.badV, fx.t1), type))); }, [prepNormal, bc](Fx &fx) { prepNormal(fx); fx.badV = badVariable(bc); });
        }
    }
    CELL("Annotator::assignId(UnitsItemPtr)", "arg1=null", R, [](Fx &fx) {
        size_t n = fx.an->issueCount();
        return withIssues(*fx.an, n, ofStr(fx.an->assignId(UnitsItemPtr()))); }, prepNormal);
    CELL("Annotator::assignId(UnitsItemPtr)", "arg1=item-pastend", R, [](Fx &fx) {
        size_t n = fx.an->issueCount();
        return withIssues(*fx.an, n, ofStr(fx.an->assignId(UnitsItem::create(fx.u, fx.u->unitCount())))); }, prepNormal);
    CELL("Annotator::assignId(UnitsPtr,size_t)", "arg2=pastend", R, [](Fx &fx) {
        size_t n = fx.an->issueCount();
        return withIssues(*fx.an, n, ofStr(fx.an->assignId(fx.u, fx.u->unitCount()))); }, prepNormal);
    CELL("Annotator::assignId(VariablePairPtr,CellmlElementType)", "arg1=null", R, [](Fx &fx) {
        size_t n = fx.an->issueCount();
        return withIssues(*fx.an, n, ofStr(fx.an->assignId(VariablePairPtr(), CellmlElementType::MAP_VARIABLES))); }, prepNormal);
    methods.push_back({"Annotator::assignId(ModelPtr,CellmlElementType)", [](Annotator &a, Fx &fx) { return ofStr(a.assignId(fx.m, CellmlElementType::MODEL)); }});
    methods.push_back({"Annotator::assignId(ComponentPtr,CellmlElementType)", [](Annotator &a, Fx &fx) { return ofStr(a.assignId(fx.c1, CellmlElementType::COMPONENT)); }});
    methods.push_back({"Annotator::assignId(ResetPtr,CellmlElementType)", [](Annotator &a, Fx &fx) { return ofStr(a.assignId(fx.r, CellmlElementType::RESET)); }});
    methods.push_back({"Annotator::assignId(UnitsPtr)", [](Annotator &a, Fx &fx) { return ofStr(a.assignId(fx.u)); }});
    methods.push_back({"Annotator::assignId(UnitsPtr,size_t)", [](Annotator &a, Fx &fx) { return ofStr(a.assignId(fx.u, 0)); }});
    methods.push_back({"Annotator::assignId(UnitsItemPtr)", [](Annotator &a, Fx &fx) { return ofStr(a.assignId(UnitsItem::create(fx.u, 0))); }});
    methods.push_back({"Annotator::assignId(VariablePtr)", [](Annotator &a, Fx &fx) { return ofStr(a.assignId(fx.x)); }});
    methods.push_back({"Annotator::assignId(VariablePtr,VariablePtr,CellmlElementType)", [](Annotator &a, Fx &fx) { return ofStr(a.assignId(fx.t1, fx.t2, CellmlElementType::MAP_VARIABLES)); }});
    methods.push_back({"Annotator::assignId(VariablePairPtr,CellmlElementType)", [](Annotator &a, Fx &fx) { return ofStr(a.assignId(VariablePair::create(fx.t1, fx.t2), CellmlElementType::CONNECTION)); }});

    // ---- every method on an annotator without a model / whose model has been destroyed: must refuse
    for (const auto &mth : methods) {
        auto call = mth.call;
        const bool isQuery = mth.sig == "Annotator::hasModel()" || mth.sig == "Annotator::model()";
        (void)isQuery;
        CELL(mth.sig, "recv=nomodel", R, [call](Fx &fx) {
            size_t n = fx.an->issueCount();
            return withIssues(*fx.an, n, call(*fx.an, fx)); }, prepNoModel);
        CELL(mth.sig, "recv=modeldead", R, [call](Fx &fx) {
            size_t n = fx.an->issueCount();
            return withIssues(*fx.an, n, call(*fx.an, fx)); }, prepModelDead);
    }
}

// ---------------------------------------------------------------- Importer
ModelPtr importingModel()
{
    auto mi = Model::create("importer_model");
    auto is = ImportSource::create();
    is->setUrl("no_such_file.cellml");
    auto ci = Component::create("imported");
    ci->setImportSource(is);
    ci->setImportReference("ref");
    mi->addComponent(ci);
    return mi;
}

void importerCells()
{
    auto prep = [](Fx &fx) {
        fx.imp = Importer::create(true);
        fx.aux = parseFixture("lib_");
        fx.imp->addModel(fx.aux, "lib.cellml");
        fx.is = ImportSource::create();
        fx.is->setUrl("lib.cellml");
        fx.imp->addImportSource(fx.is);
        Importer *i = fx.imp.get();
        fx.watch.push_back([i]() { return "importer library=" + std::to_string(i->libraryCount()) + " sources=" + std::to_string(i->importSourceCount()) + " lib0=" + (i->library(0) != nullptr ? "set" : "null"); });
    };
    CELL("Importer::flattenModel(ModelPtr)", "arg1=null", R, [](Fx &fx) {
        size_t n = fx.imp->issueCount();
        return withIssues(*fx.imp, n, ofPtr(fx.imp->flattenModel(nullptr))); }, prep);
    CELL("Importer::flattenModel(ModelPtr)", "arg1=unresolved-imports", R, [](Fx &fx) {
        size_t n = fx.imp->issueCount();
        return withIssues(*fx.imp, n, ofPtr(fx.imp->flattenModel(fx.badM))); }, [prep](Fx &fx) { prep(fx); fx.badM = importingModel(); });
    CELL("Importer::resolveImports(ModelPtr,string)", "arg1=null", R, [](Fx &fx) {
        size_t n = fx.imp->issueCount();
        ModelPtr nm;
        return withIssues(*fx.imp, n, ofBool(fx.imp->resolveImports(nm, scratchDir() + "/"))); }, prep);
    CELL("Importer::resolveImports(ModelPtr,string)", "arg2=unknownname", R, [](Fx &fx) {
        // the imported file does not exist under the given base path
        return ofBool(fx.imp->resolveImports(fx.badM, scratchDir() + "/no_such_dir/")) ; }, [prep](Fx &fx) { prep(fx); fx.badM = importingModel(); });
    CELL("Importer::library(string)", "arg1=unknownname", R, [](Fx &fx) { return ofPtr(fx.imp->library(NONAME)); }, prep);
    CELL("Importer::library(size_t)", "arg1=pastend", R, [](Fx &fx) { return ofPtr(fx.imp->library(fx.imp->libraryCount())); }, prep);
    CELL("Importer::key(size_t)", "arg1=pastend", R, [](Fx &fx) { return ofStr(fx.imp->key(fx.imp->libraryCount())); }, prep);
    CELL("Importer::addModel(ModelPtr,string)", "arg1=null", R, [](Fx &fx) { return ofBool(fx.imp->addModel(nullptr, "null_model.cellml")); }, prep);
    CELL("Importer::addModel(ModelPtr,string)", "arg1=null;then=resolveImports", N, [](Fx &fx) {
        fx.imp->addModel(nullptr, scratchDir() + "/no_such_file.cellml");
        return ofBool(fx.imp->resolveImports(fx.badM, scratchDir() + "/")); }, [prep](Fx &fx) { prep(fx); fx.badM = importingModel(); });
    CELL("Importer::replaceModel(ModelPtr,string)", "arg1=null", R, [](Fx &fx) { return ofBool(fx.imp->replaceModel(nullptr, "lib.cellml")); }, prep);
    CELL("Importer::replaceModel(ModelPtr,string)", "arg2=unknownname", R, [](Fx &fx) { return ofBool(fx.imp->replaceModel(fx.m, NONAME)); }, prep);
    CELL("Importer::clearImports(ModelPtr)", "arg1=null", U, [](Fx &fx) {
        ModelPtr nm;
        fx.imp->clearImports(nm);
        return ofVoid(); }, prep);
    cellsI("Importer::addImportSource(ImportSourcePtr)", "arg1", RNN, [](Fx &fx, ImportSourcePtr &a) { return ofBool(fx.imp->addImportSource(a)); });
    cellsI("Importer::removeImportSource(ImportSourcePtr)", "arg1", RRR, [](Fx &fx, ImportSourcePtr &a) { return ofBool(fx.imp->removeImportSource(a)); });
    cellsI("Importer::hasImportSource(ImportSourcePtr)", "arg1", RRR, [](Fx &fx, ImportSourcePtr &a) { return ofBool(fx.imp->hasImportSource(a)); });
    for (size_t i = gCells.size() - 9; i < gCells.size(); ++i) {
        auto inner = gCells[i].prep;
        gCells[i].prep = [prep, inner](Fx &fx) { prep(fx); inner(fx); };
    }
    CELL("Importer::importSource(size_t)", "arg1=pastend", R, [](Fx &fx) { return ofPtr(fx.imp->importSource(fx.imp->importSourceCount())); }, prep);
    CELL("Importer::removeImportSource(size_t)", "arg1=pastend", R, [](Fx &fx) { return ofBool(fx.imp->removeImportSource(fx.imp->importSourceCount())); }, prep);
}

// ---------------------------------------------------------------- Analyser and friends
void analyserCells()
{
    // an analyser with one legitimate external variable (on fixture variable k) that has one dependency (x)
    auto prep = [](Fx &fx) {
        fx.ana = Analyser::create();
        fx.aev = AnalyserExternalVariable::create(fx.k);
        fx.aev->addDependency(fx.x);
        fx.ana->addExternalVariable(fx.aev);
        Analyser *a = fx.ana.get();
        AnalyserExternalVariable *e = fx.aev.get();
        fx.watch.push_back([a, e]() { return "analyser externals=" + std::to_string(a->externalVariableCount()) + " deps=" + std::to_string(e->dependencyCount()); });
    };
    CELL("Analyser::analyseModel(ModelPtr)", "arg1=null", R, [](Fx &fx) {
        fx.ana->analyseModel(nullptr);
        return Out {fx.ana->issueCount() > 0, "issues=" + std::to_string(fx.ana->issueCount())}; }, prep);
    CELL("Analyser::analyseModel(ModelPtr)", "arg1=neveradded", R, [](Fx &fx) {
        // a model the external variable does not belong to
        fx.ana->analyseModel(fx.aux);
        return Out {fx.ana->issueCount() > 0, "issues=" + std::to_string(fx.ana->issueCount())}; }, [prep](Fx &fx) { prep(fx); fx.aux = parseFixture("other_"); });
    CELL("Analyser::addExternalVariable(AnalyserExternalVariablePtr)", "arg1=null", R, [](Fx &fx) { return ofBool(fx.ana->addExternalVariable(nullptr)); }, prep);
    CELL("Analyser::addExternalVariable(AnalyserExternalVariablePtr)", "arg1=null;then=containsExternalVariable(model,names)", N, [](Fx &fx) {
        fx.ana->addExternalVariable(nullptr);
        return ofBool(fx.ana->containsExternalVariable(fx.m, "c2", "y")); }, prep);
    CELL("Analyser::addExternalVariable(AnalyserExternalVariablePtr)", "arg1=null;then=analyseModel", N, [](Fx &fx) {
        fx.ana->addExternalVariable(nullptr);
        fx.ana->analyseModel(fx.m);
        return Out {fx.ana->issueCount() > 0, "issues=" + std::to_string(fx.ana->issueCount())}; }, prep);
    for (int b = 0; b < 3; ++b) {
        const BadClass bc = static_cast<BadClass>(b);
        CELL("Analyser::addExternalVariable(AnalyserExternalVariablePtr)", std::string("arg1=external-on-") + badName[b] + "-variable;then=analyseModel", R, [](Fx &fx) {
            fx.ana->addExternalVariable(AnalyserExternalVariable::create(fx.badV));
            fx.ana->analyseModel(fx.m);
            return Out {fx.ana->issueCount() > 0, "issues=" + std::to_string(fx.ana->issueCount())}; }, [bc](Fx &fx) { fx.ana = Analyser::create(); fx.badV = badVariable(bc); });
        CELL("AnalyserExternalVariable::create(VariablePtr)", std::string("arg1=") + badName[b], N, [](Fx &fx) {
            auto e = AnalyserExternalVariable::create(fx.badV);
            return ofPtr(e != nullptr ? e->variable() : nullptr); }, [bc](Fx &fx) { fx.badV = badVariable(bc); });
    }
    CELL("Analyser::removeExternalVariable(size_t)", "arg1=pastend", R, [](Fx &fx) { return ofBool(fx.ana->removeExternalVariable(fx.ana->externalVariableCount())); }, prep);
    CELL("Analyser::externalVariable(size_t)", "arg1=pastend", R, [](Fx &fx) { return ofPtr(fx.ana->externalVariable(fx.ana->externalVariableCount())); }, prep);
    struct Triple
    {
        std::string arg;
        int which; // 0 model null, 1 model other, 2 component unknown, 3 variable unknown
    };
    for (const Triple &t : {Triple {"arg1=null", 0}, Triple {"arg1=neveradded", 1}, Triple {"arg2=unknownname", 2}, Triple {"arg3=unknownname", 3}}) {
        auto mdl = [t](Fx &fx) -> ModelPtr { return t.which == 0 ? nullptr : t.which == 1 ? fx.badM :
                                                                                            fx.m; };
        const std::string cn = t.which == 2 ? NONAME : "c1";
        const std::string vn = t.which == 3 ? NONAME : "k";
        auto p2 = [prep, t](Fx &fx) { prep(fx); if (t.which == 1) { fx.badM = badModel(B_NEVER); } };
        CELL("Analyser::removeExternalVariable(ModelPtr,string,string)", t.arg, R, [mdl, cn, vn](Fx &fx) { return ofBool(fx.ana->removeExternalVariable(mdl(fx), cn, vn)); }, p2);
        CELL("Analyser::containsExternalVariable(ModelPtr,string,string)", t.arg, R, [mdl, cn, vn](Fx &fx) { return ofBool(fx.ana->containsExternalVariable(mdl(fx), cn, vn)); }, p2);
        CELL("Analyser::externalVariable(ModelPtr,string,string)", t.arg, R, [mdl, cn, vn](Fx &fx) { return ofPtr(fx.ana->externalVariable(mdl(fx), cn, vn)); }, p2);
        const std::string dn = t.which == 3 ? NONAME : "x";
        CELL("AnalyserExternalVariable::removeDependency(ModelPtr,string,string)", t.arg, R, [mdl, cn, dn](Fx &fx) { return ofBool(fx.aev->removeDependency(mdl(fx), cn, dn)); }, p2);
        CELL("AnalyserExternalVariable::containsDependency(ModelPtr,string,string)", t.arg, R, [mdl, cn, dn](Fx &fx) { return ofBool(fx.aev->containsDependency(mdl(fx), cn, dn)); }, p2);
        CELL("AnalyserExternalVariable::dependency(ModelPtr,string,string)", t.arg, R, [mdl, cn, dn](Fx &fx) { return ofPtr(fx.aev->dependency(mdl(fx), cn, dn)); }, p2);
    }
    CELL("Analyser::removeExternalVariable(AnalyserExternalVariablePtr)", "arg1=null", R, [](Fx &fx) { return ofBool(fx.ana->removeExternalVariable(AnalyserExternalVariablePtr())); }, prep);
    CELL("Analyser::removeExternalVariable(AnalyserExternalVariablePtr)", "arg1=neveradded", R, [](Fx &fx) { return ofBool(fx.ana->removeExternalVariable(AnalyserExternalVariable::create(fx.y))); }, prep);
    CELL("Analyser::containsExternalVariable(AnalyserExternalVariablePtr)", "arg1=null", R, [](Fx &fx) { return ofBool(fx.ana->containsExternalVariable(AnalyserExternalVariablePtr())); }, prep);
    CELL("Analyser::containsExternalVariable(AnalyserExternalVariablePtr)", "arg1=neveradded", R, [](Fx &fx) { return ofBool(fx.ana->containsExternalVariable(AnalyserExternalVariable::create(fx.y))); }, prep);

    // ---- AnalyserExternalVariable
    size_t first = gCells.size();
    cellsV("AnalyserExternalVariable::addDependency(VariablePtr)", "arg1", RRR, [](Fx &fx, const VariablePtr &a) { return ofBool(fx.aev->addDependency(a)); });
    cellsV("AnalyserExternalVariable::removeDependency(VariablePtr)", "arg1", RRR, [](Fx &fx, const VariablePtr &a) { return ofBool(fx.aev->removeDependency(a)); });
    cellsV("AnalyserExternalVariable::containsDependency(VariablePtr)", "arg1", RRR, [](Fx &fx, const VariablePtr &a) { return ofBool(fx.aev->containsDependency(a)); });
    for (size_t i = first; i < gCells.size(); ++i) {
        auto inner = gCells[i].prep;
        gCells[i].prep = [prep, inner](Fx &fx) { prep(fx); inner(fx); };
    }
    CELL("AnalyserExternalVariable::addDependency(VariablePtr)", "recv=external-on-null-variable,arg1=valid", R, [](Fx &fx) { return ofBool(AnalyserExternalVariable::create(nullptr)->addDependency(fx.x)); });
    CELL("AnalyserExternalVariable::addDependency(VariablePtr)", "recv=external-on-ownerdead-variable,arg1=valid", R, [](Fx &fx) { return ofBool(AnalyserExternalVariable::create(fx.badV)->addDependency(fx.x)); }, [](Fx &fx) { fx.badV = badVariable(B_DEAD); });
    CELL("AnalyserExternalVariable::removeDependency(size_t)", "arg1=pastend", R, [](Fx &fx) { return ofBool(fx.aev->removeDependency(fx.aev->dependencyCount())); }, prep);
    CELL("AnalyserExternalVariable::dependency(size_t)", "arg1=pastend", R, [](Fx &fx) { return ofPtr(fx.aev->dependency(fx.aev->dependencyCount())); }, prep);
    CELL("AnalyserExternalVariable::removeDependency(ModelPtr,string,string)", "recv=dependency-ownerdead,arg1=valid", R, [](Fx &fx) {
        // a dependency whose component and model have been destroyed after it was added
        return ofBool(fx.aev->removeDependency(fx.m, "c1", "x")); }, [](Fx &fx) {
        auto m2 = parseFixture("dead_");
        auto c = m2->component("dead_c1");
        fx.aev = AnalyserExternalVariable::create(c->variable("dead_k"));
        fx.aev->addDependency(c->variable("dead_x")); });

    // ---- AnalyserModel and what hangs off it
    auto prepAm = [](Fx &fx) {
        fx.ana = Analyser::create();
        fx.ana->analyseModel(fx.m);
        fx.am = fx.ana->model();
    };
    CELL("AnalyserModel::state(size_t)", "arg1=pastend", R, [](Fx &fx) { return ofPtr(fx.am->state(fx.am->stateCount())); }, prepAm);
    CELL("AnalyserModel::variable(size_t)", "arg1=pastend", R, [](Fx &fx) { return ofPtr(fx.am->variable(fx.am->variableCount())); }, prepAm);
    CELL("AnalyserModel::equation(size_t)", "arg1=pastend", R, [](Fx &fx) { return ofPtr(fx.am->equation(fx.am->equationCount())); }, prepAm);
    CELL("AnalyserModel::state(size_t)", "recv=invalid-model,arg1=0", R, [](Fx &fx) { return ofPtr(fx.am->state(0)); }, [](Fx &fx) { fx.ana = Analyser::create(); fx.ana->analyseModel(nullptr); fx.am = fx.ana->model(); });
    CELL("AnalyserModel::variable(size_t)", "recv=invalid-model,arg1=0", R, [](Fx &fx) { return ofPtr(fx.am->variable(0)); }, [](Fx &fx) { fx.ana = Analyser::create(); fx.ana->analyseModel(nullptr); fx.am = fx.ana->model(); });
    CELL("AnalyserModel::equation(size_t)", "recv=invalid-model,arg1=0", R, [](Fx &fx) { return ofPtr(fx.am->equation(0)); }, [](Fx &fx) { fx.ana = Analyser::create(); fx.ana->analyseModel(nullptr); fx.am = fx.ana->model(); });
    first = gCells.size();
    cellsV("AnalyserModel::areEquivalentVariables(VariablePtr,VariablePtr)", "arg1", RRR, [](Fx &fx, const VariablePtr &a) { return ofBool(fx.am->areEquivalentVariables(a, fx.t1)); });
    cellsV("AnalyserModel::areEquivalentVariables(VariablePtr,VariablePtr)", "arg2", RRR, [](Fx &fx, const VariablePtr &a) { return ofBool(fx.am->areEquivalentVariables(fx.t1, a)); });
    for (size_t i = first; i < gCells.size(); ++i) {
        auto inner = gCells[i].prep;
        gCells[i].prep = [prepAm, inner](Fx &fx) { prepAm(fx); inner(fx); };
    }
    CELL("AnalyserModel::areEquivalentVariables(VariablePtr,VariablePtr)", "recv=modeldead,arg1,arg2=valid", N, [](Fx &fx) { return ofBool(fx.am->areEquivalentVariables(fx.t1, fx.t2)); }, [prepAm](Fx &fx) { prepAm(fx); fx.ana.reset(); fx.m.reset(); });
    CELL("AnalyserVariable::equation(size_t)", "arg1=pastend", R, [](Fx &fx) {
        auto v = fx.am->variable(0);
        return ofPtr(v != nullptr ? v->equation(v->equationCount()) : nullptr); }, prepAm);
    CELL("AnalyserEquation::dependency(size_t)", "arg1=pastend", R, [](Fx &fx) {
        auto e = fx.am->equation(0);
        return ofPtr(e != nullptr ? e->dependency(e->dependencyCount()) : nullptr); }, prepAm);
    CELL("AnalyserEquation::nlaSibling(size_t)", "arg1=pastend", R, [](Fx &fx) {
        auto e = fx.am->equation(0);
        return ofPtr(e != nullptr ? e->nlaSibling(e->nlaSiblingCount()) : nullptr); }, prepAm);
    CELL("AnalyserEquation::variable(size_t)", "arg1=pastend", R, [](Fx &fx) {
        auto e = fx.am->equation(0);
        return ofPtr(e != nullptr ? e->variable(e->variableCount()) : nullptr); }, prepAm);

    // ---- Generator / Printer / Validator entry points taking a model, Logger indices
    CELL("Generator::setModel(AnalyserModelPtr)", "arg1=null;then=interfaceCode", R, [](Fx &) {
        auto g = Generator::create();
        g->setModel(nullptr);
        return ofStr(g->interfaceCode()); });
    CELL("Generator::setModel(AnalyserModelPtr)", "arg1=null;then=implementationCode", R, [](Fx &) {
        auto g = Generator::create();
        g->setModel(nullptr);
        return ofStr(g->implementationCode()); });
    CELL("Generator::setModel(AnalyserModelPtr)", "arg1=invalid-model;then=implementationCode", R, [](Fx &) {
        auto a = Analyser::create();
        a->analyseModel(nullptr);
        auto g = Generator::create();
        g->setModel(a->model());
        return ofStr(g->implementationCode()); });
    CELL("Generator::setProfile(GeneratorProfilePtr)", "arg1=null;then=implementationCode", N, [](Fx &fx) {
        auto g = Generator::create();
        g->setModel(fx.am);
        g->setProfile(nullptr);
        return ofStr(g->implementationCode()); }, prepAm);
    CELL("Generator::equationCode(AnalyserEquationAstPtr)", "arg1=null", R, [](Fx &) { return ofStr(Generator::equationCode(nullptr)); });
    CELL("Generator::equationCode(AnalyserEquationAstPtr,GeneratorProfilePtr)", "arg1=null", R, [](Fx &) { return ofStr(Generator::equationCode(nullptr, GeneratorProfile::create())); });
    CELL("Generator::equationCode(AnalyserEquationAstPtr,GeneratorProfilePtr)", "arg2=null", N, [](Fx &fx) {
        auto e = fx.am->equation(0);
        return ofStr(Generator::equationCode(e != nullptr ? e->ast() : nullptr, nullptr)); }, prepAm);
    CELL("Printer::printModel(ModelPtr,bool)", "arg1=null", R, [](Fx &) {
        auto p = Printer::create();
        return ofStr(p->printModel(nullptr)); });
    CELL("Printer::printModel(ModelPtr,bool)", "arg1=null,autoIds", R, [](Fx &) {
        auto p = Printer::create();
        return ofStr(p->printModel(nullptr, true)); });
    CELL("Validator::validateModel(ModelPtr)", "arg1=null", R, [](Fx &) {
        auto v = Validator::create();
        v->validateModel(nullptr);
        return Out {v->issueCount() > 0, "issues=" + std::to_string(v->issueCount())}; });
    auto prepVal = [](Fx &fx) {
        fx.badM = Model::create("1bad name"); // produces at least one error
    };
    CELL("Logger::issue(size_t)", "arg1=pastend", R, [](Fx &fx) {
        auto v = Validator::create();
        v->validateModel(fx.badM);
        return ofPtr(v->issue(v->issueCount())); }, prepVal);
    CELL("Logger::error(size_t)", "arg1=pastend", R, [](Fx &fx) {
        auto v = Validator::create();
        v->validateModel(fx.badM);
        return ofPtr(v->error(v->errorCount())); }, prepVal);
    CELL("Logger::warning(size_t)", "arg1=pastend", R, [](Fx &fx) {
        auto v = Validator::create();
        v->validateModel(fx.badM);
        return ofPtr(v->warning(v->warningCount())); }, prepVal);
    CELL("Logger::message(size_t)", "arg1=pastend", R, [](Fx &fx) {
        auto v = Validator::create();
        v->validateModel(fx.badM);
        return ofPtr(v->message(v->messageCount())); }, prepVal);
    NA("Parser::parseModel(string)", "document text, not a lookup name: covered by C01");
    NA("Issue::verifCreate(ReferenceRule,Level,string)", "verification hook, free text description");
    NA("AnalyserEquationAst::setValue(string)", "free text");
    NA("AnalyserEquationAst::setVariable(VariablePtr)", "plain setter of an optional link of an AST node; null is the legal 'none' value; not an object-model or service entry point");
    NA("AnalyserEquationAst::setParent(AnalyserEquationAstPtr)", "plain setter of an optional link of an AST node");
    NA("AnalyserEquationAst::setLeftChild(AnalyserEquationAstPtr)", "plain setter of an optional link of an AST node");
    NA("AnalyserEquationAst::setRightChild(AnalyserEquationAstPtr)", "plain setter of an optional link of an AST node");
}

const std::vector<Cell> &cells()
{
    if (gCells.empty()) {
        objectModelCells();
        annotatorCells();
        importerCells();
        analyserCells();
    }
    return gCells;
}

} // namespace

int64_t vh_case_count(const std::string &, uint64_t)
{
    return static_cast<int64_t>(cells().size());
}

void vh_run_case(Ctx &ctx)
{
    const Cell &cell = cells()[static_cast<size_t>(ctx.index)];
    const std::string id = cell.sig + ":" + cell.arg;
    const char *expName = cell.exp == R ? "R" : cell.exp == U ? "U" :
                                                                "N";
    Fx fx;
    if (!fx.ok()) {
        viol("C09", "harness:fixture-did-not-parse", "the fixture model of c09b could not be built", fixtureText(""));
        caseInfo("broken", false);
        return;
    }
    stage("prep:" + id);
    if (cell.prep) {
        cell.prep(fx);
    }
    const std::string before = snapshot(fx);
    stage(id);
    Out o = cell.run(fx);
    stage("post:" + id);
    const std::string after = snapshot(fx);
    const bool changed = before != after;
    const std::string replay = "cell " + std::to_string(ctx.index) + ": " + id + " (expectation " + expName + ")\nfixture: harness/drivers/c09b.cpp fixtureText(\"\"); see the CELL line for the exact call";
    stat("cells");
    stat(std::string("cells_expect_") + expName);
    seen("method", cell.sig);
    for (const char *cls : {"null", "neveradded", "ownerdead", "pastend", "unknownname", "nomodel", "modeldead"}) {
        if (cell.arg.find(std::string("=") + cls) != std::string::npos || cell.arg.find(std::string("-") + cls) != std::string::npos) {
            seen("argument_class", cls);
            stat(std::string("cells_class_") + cls);
        }
    }
    std::string outcome = std::string(o.refused ? "refused" : "accepted") + (changed ? "+changed" : "");
    stat("outcome_" + outcome);
    if (cell.exp == N) {
        seen("legitimate_argument_outcome", id + " -> " + o.desc + (changed ? " (state changed)" : ""));
    }
    if (cell.exp == R && !o.refused) {
        viol("C09", "badarg:" + id + ":returned-success", "returned " + o.desc + " for a bad argument; expected false / null / empty / an issue", replay);
    }
    if ((cell.exp == R || cell.exp == U) && changed) {
        viol("C09", "badarg:" + id + ":changed-state", "returned " + o.desc + "; state changed: " + firstDiff(before, after), replay);
    }
    caseInfo(id, true, id + " -> " + o.desc + (changed ? " (state changed)" : " (state unchanged)"));
}
