// C01, second part: bounded progress on small inputs whose structure shares sub-definitions.
// "Returns normally" is decided on a CPU-time budget that is five orders of magnitude above what the same stage needs on
// the small variant of the same shape: a units definition u_N = u_(N-1) x u_(N-1)^-1 ... down to u_0 (a DAG of N+1
// definitions, ~3 KB of text for N = 40).  One pipeline stage per case, so that a hang is attributed to that stage; the
// supervisor's watchdog turns a stage that does not return into  hang:<shape><N>:<stage>.
#include "vhc.h"
#include "vh.h"

#include <sstream>

using namespace vh;
using namespace libcellml;

static const std::vector<std::string> kStages = {"validate", "print", "queries", "compatible", "scalingFactor", "flatten", "clone-equals", "repair", "annotate", "analyse", "component-queries"};
static const std::vector<int> kDepths = {6, 12, 40};
static const std::vector<std::string> kShapes = {"units-dag", "units-dag-mixed-exponents"};

int64_t vh_case_count(const std::string &, uint64_t)
{
    return static_cast<int64_t>(kStages.size() * kDepths.size() * kShapes.size());
}

static std::string dagModel(int n, bool mixed)
{
    std::ostringstream s;
    s << "<?xml version=\"1.0\" encoding=\"UTF-8\"?>\n<model xmlns=\"http://www.cellml.org/cellml/2.0#\" name=\"m\">\n<units name=\"u0\"><unit units=\"second\"/></units>\n";
    for (int i = 1; i <= n; ++i) {
        s << "<units name=\"u" << i << "\"><unit units=\"u" << i - 1 << "\"/><unit units=\"u" << i - 1 << "\"" << (mixed ? " exponent=\"-1\"" : "") << "/></units>\n";
    }
    s << "<component name=\"c\"><variable name=\"x\" units=\"u" << n << "\" interface=\"public\"/></component>\n";
    s << "<component name=\"d\"><variable name=\"y\" units=\"u" << n << "\" interface=\"public\"/></component>\n";
    s << "<connection component_1=\"c\" component_2=\"d\"><map_variables variable_1=\"x\" variable_2=\"y\"/></connection>\n</model>\n";
    return s.str();
}

void vh_run_case(Ctx &ctx)
{
    size_t i = static_cast<size_t>(ctx.index);
    const std::string &stageName = kStages[i % kStages.size()];
    int n = kDepths[(i / kStages.size()) % kDepths.size()];
    const std::string &shape = kShapes[i / (kStages.size() * kDepths.size())];
    std::string text = dagModel(n, shape != "units-dag");
    std::string tag = shape + std::to_string(n) + ":" + stageName;
    stage(shape + std::to_string(n) + ":parse");
    auto parser = Parser::create(true);
    auto m = parser->parseModel(text);
    if (m == nullptr || parser->issueCount() != 0 || m->unitsCount() != static_cast<size_t>(n) + 1) {
        viol("C01", "harness:dag-model-not-parsed", issueSummary(*parser), text);
        return;
    }
    auto top = m->units(static_cast<size_t>(n));
    auto below = m->units(static_cast<size_t>(n) - 1);
    stage(tag);
    std::string outcome;
    if (stageName == "validate") {
        auto v = Validator::create();
        v->validateModel(m);
        monitorLogger(*v, "Validator::validateModel", text);
        outcome = std::to_string(v->issueCount()) + " issues";
    } else if (stageName == "print") {
        outcome = std::to_string(Printer::create()->printModel(m).size()) + " bytes";
    } else if (stageName == "queries") {
        outcome = std::string(m->isDefined() ? "D" : "d") + (m->hasImports() ? "I" : "i") + (m->hasUnresolvedImports() ? "U" : "u") + (top->isDefined() ? "D" : "d") + (top->isBaseUnit() ? "B" : "b") + (top->requiresImports() ? "R" : "r") + (top->isResolved() ? "S" : "s");
    } else if (stageName == "component-queries") {
        auto c = m->component(0);
        outcome = std::string(c->isDefined() ? "D" : "d") + (c->isResolved() ? "S" : "s") + (c->requiresImports() ? "R" : "r");
    } else if (stageName == "compatible") {
        outcome = std::string(Units::compatible(top, below) ? "C" : "c") + (Units::equivalent(top, top) ? "E" : "e");
    } else if (stageName == "scalingFactor") {
        outcome = std::to_string(Units::scalingFactor(top, top)) + "/" + std::to_string(Units::scalingFactor(top, below, false));
    } else if (stageName == "flatten") {
        auto imp = Importer::create();
        auto f = imp->flattenModel(m);
        monitorLogger(*imp, "Importer::flattenModel", text);
        outcome = f != nullptr ? "model" : "null";
    } else if (stageName == "clone-equals") {
        auto c = m->clone();
        outcome = c->equals(m) ? "equal" : "differs";
    } else if (stageName == "repair") {
        m->linkUnits();
        bool f = m->fixVariableInterfaces();
        m->clean();
        outcome = std::string(f ? "F" : "f") + (m->hasUnlinkedUnits() ? "L" : "l");
    } else if (stageName == "annotate") {
        auto a = Annotator::create();
        a->setModel(m);
        a->assignAllIds();
        outcome = std::to_string(a->ids().size()) + " ids";
    } else if (stageName == "analyse") {
        auto a = Analyser::create();
        a->analyseModel(m);
        monitorLogger(*a, "Analyser::analyseModel", text);
        outcome = AnalyserModel::typeAsString(a->model()->type());
    }
    stat("stages_returned");
    stat("stages_returned_depth_" + std::to_string(n));
    seen("returned", tag);
    seen("outcome", tag + "=" + outcome);
    caseInfo(tag, true, tag + " -> " + outcome + " (" + std::to_string(text.size()) + " bytes of input)");
}
