// C14: CellML 1.0/1.1 documents are faithfully transformed in permissive mode.
// Oracle: the harness's own 1.x writer applied to a valid-by-construction IR; the permissive parse must have the
// canonical content of the IR (= the 2.0 original), report nothing above MESSAGE, and the strict parser must refuse.
#include "gen.h"
#include "vh.h"

using namespace vh;

int64_t vh_case_count(const std::string &tier, uint64_t)
{
    return tier == "thorough" ? 80000 : 6000;
}

static std::string classify(const std::string &diff)
{
    size_t a = diff.find("[");
    std::string line = a == std::string::npos ? diff : trim(diff.substr(a + 1));
    std::string kw = line.substr(0, line.find_first_of(" ="));
    return kw.empty() ? "?" : kw;
}

void vh_run_case(Ctx &ctx)
{
    Rng &rng = ctx.rng;
    std::string version = rng.chance(0.5) ? "1.0" : "1.1";
    bool useNone = rng.chance(0.2);
    GenOptions go;
    go.resets = false;                 // resets are 2.0 only
    go.imports = version == "1.1" && rng.chance(0.6);
    IrModel ir = generateModel(rng, go);
    // Not representable distinctly in 1.x, hence normalised in the reference: interface="none" (same as absent) and
    // an id on the encapsulation element (1.x groups may hold several relationships; no claim is made about their ids).
    ir.encId.clear();
    for (auto &c : ir.comps) {
        for (auto &v : c.vars) {
            if (v.iface == "none") {
                v.iface.clear();
            }
        }
    }
    std::string text = writeCellml1x(ir, version, rng, useNone);
    std::string tag = useNone ? ":interface-none" : "";
    std::string replay = text;
    stat("docs_" + version);

    // permissive
    auto pp = Parser::create(false);
    auto m = pp->parseModel(text);
    monitorLogger(*pp, "Parser::parseModel(permissive,1.x)", replay);
    monitorExplained(m == nullptr, *pp, "Parser::parseModel(permissive,1.x)", replay);
    if (m == nullptr) {
        viol("C14", "permissive-null:" + version + tag, issueSummary(*pp), replay);
    } else {
        if (pp->errorCount() + pp->warningCount() != 0) {
            auto is = pp->errorCount() != 0 ? pp->error(0) : pp->warning(0);
            viol("C14", "permissive-above-message:" + ruleName(is->referenceRule()) + ":" + version + tag, issueSummary(*pp), replay);
        }
        stat("messages", static_cast<int64_t>(pp->messageCount()));
        std::string want = dumpIr(ir);
        std::string got = dumpModel(m);
        if (want != got) {
            std::string fd = firstDiff(want, got);
            viol("C14", "transform-differs:" + classify(fd) + ":" + version + tag, "A=2.0 original B=permissive parse of 1.x: " + fd, replay);
        } else {
            stat("faithful");
        }
        // the transformed model must be usable as 2.0: print + strict re-parse gives the same content
        auto printed = Printer::create()->printModel(m);
        auto p2 = Parser::create(true);
        auto m2 = p2->parseModel(printed);
        if (m2 == nullptr || dumpModel(m2) != got) {
            viol("C14", "transformed-model-not-2.0-roundtrippable:" + version + tag, m2 == nullptr ? issueSummary(*p2) : firstDiff(got, dumpModel(m2)), replay);
        }
    }
    // strict
    auto ps = Parser::create(true);
    auto ms = ps->parseModel(text);
    monitorLogger(*ps, "Parser::parseModel(strict,1.x)", replay);
    if (ps->errorCount() == 0) {
        viol("C14", "strict-accepts-1x:" + version, "strict parser raised no error on a CellML " + version + " document", replay);
    } else {
        stat("strict_refused");
    }
    (void)ms;
    caseInfo(ir.structuralHash() + version + (useNone ? "n" : ""), ir.featureCount() >= 2,
             "version=" + version + " none=" + (useNone ? "1" : "0") + " units=" + std::to_string(ir.units.size()) + " comps=" + std::to_string(ir.comps.size()) + " conns=" + std::to_string(ir.conns.size()) + " imports=" + std::to_string(ir.imports.size()) + " bytes=" + std::to_string(text.size()));
}
