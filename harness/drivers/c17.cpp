// C17: generated code's declared structure matches the analysed model.
// Oracle: a probe program compiled and linked against the generated C (gcc -std=c99 -Wall -Wextra, -Wl,--no-undefined,
// only nlaSolve supplied) prints the exported constants and tables; the executed Python module prints its attributes;
// both are compared with the AnalyserModel read through public accessors; helper functions are compared with the set of
// operators the generator's own expression trees contain.
#include "sem.h"
#include "vh.h"

#include <algorithm>
#include <regex>
#include <sys/stat.h>

using namespace vh;

int64_t vh_case_count(const std::string &tier, uint64_t)
{
    return tier == "thorough" ? 5000 : 300;
}

static std::string sh(const std::string &cmd, int &rc)
{
    std::string out;
    FILE *p = popen((cmd + " 2>&1").c_str(), "r");
    if (p == nullptr) {
        rc = -1;
        return out;
    }
    char buf[4096];
    size_t n;
    while ((n = fread(buf, 1, sizeof buf, p)) > 0) {
        out.append(buf, n);
    }
    rc = pclose(p);
    return out;
}

static void opsIn(const ExprP &e, std::set<Op> &out)
{
    if (e == nullptr) {
        return;
    }
    out.insert(e->op);
    for (const auto &k : e->kids) {
        opsIn(k, out);
    }
}

struct Helper
{
    Op op;
    const char *cName;
    const char *pyName;
};

static const std::vector<Helper> kHelpers = {
    {Op::XOR, "xor", "xor_func"}, {Op::MIN, "min", "min"}, {Op::MAX, "max", "max"}, {Op::SEC, "sec", "sec"}, {Op::CSC, "csc", "csc"},
    {Op::COT, "cot", "cot"}, {Op::SECH, "sech", "sech"}, {Op::CSCH, "csch", "csch"}, {Op::COTH, "coth", "coth"}, {Op::ASEC, "asec", "asec"},
    {Op::ACSC, "acsc", "acsc"}, {Op::ACOT, "acot", "acot"}, {Op::ASECH, "asech", "asech"}, {Op::ACSCH, "acsch", "acsch"}, {Op::ACOTH, "acoth", "acoth"},
    // Python only
    {Op::EQ, nullptr, "eq_func"}, {Op::NEQ, nullptr, "neq_func"}, {Op::LT, nullptr, "lt_func"}, {Op::LEQ, nullptr, "leq_func"},
    {Op::GT, nullptr, "gt_func"}, {Op::GEQ, nullptr, "geq_func"}, {Op::AND, nullptr, "and_func"}, {Op::OR, nullptr, "or_func"}, {Op::NOT, nullptr, "not_func"}};

static std::string typeNameUpper(AnalyserVariable::Type t)
{
    std::string s = AnalyserVariable::typeAsString(t);
    for (auto &c : s) {
        c = static_cast<char>(toupper(c));
    }
    return s;
}

// builds a model in which every helper-requiring operator sits in a "corner": inside logbase, degree, piecewise
// condition and value, or plainly
static SemModel cornerModel(Rng &rng)
{
    SemModel m;
    m.ncomp = 1;
    m.compParent = {-1};
    auto add = [&](QKind k, const std::string &name, double init) {
        Quantity q;
        q.kind = k;
        SemInstance in;
        in.comp = 0;
        in.name = name;
        in.units = "dimensionless";
        q.inst.push_back(in);
        q.init = init;
        m.q.push_back(q);
        return static_cast<int>(m.q.size()) - 1;
    };
    bool ode = rng.chance(0.5);
    if (ode) {
        m.voi = add(QKind::VOI, "t", 0.0);
        int s = add(QKind::STATE, "s", 1.3);
        m.q[static_cast<size_t>(s)].def = mkCnD(1.0);
        m.order.push_back(s);
    }
    int k1 = add(QKind::CONSTANT, "k1", 1.75);
    int k2 = add(QKind::CONSTANT, "k2", 0.6);
    int n = rng.range(1, 4);
    for (int i = 0; i < n; ++i) {
        const Helper &h = kHelpers[rng.below(kHelpers.size())];
        bool rel = h.op == Op::EQ || h.op == Op::NEQ || h.op == Op::LT || h.op == Op::LEQ || h.op == Op::GT || h.op == Op::GEQ;
        bool logical = h.op == Op::AND || h.op == Op::OR || h.op == Op::XOR || h.op == Op::NOT;
        ExprP inner;
        ExprP a = mkCi("", k1);
        ExprP b = mkCi("", k2);
        if (h.op == Op::NOT) {
            inner = mkOp(Op::NOT, {mkOp(Op::LT, {a, b})});
        } else if (logical) {
            inner = mkOp(h.op, {mkOp(Op::LT, {a, b}), mkOp(Op::GT, {a, mkCnD(1.0)})});
        } else if (rel || h.op == Op::MIN || h.op == Op::MAX) {
            inner = mkOp(h.op, {a, b});
        } else {
            // unary functions: pick an argument inside the domain
            double arg = (h.op == Op::ASEC || h.op == Op::ACSC || h.op == Op::ACOTH) ? 2.5 : ((h.op == Op::ASECH) ? 0.4 : 0.8);
            inner = mkOp(h.op, {mkCnD(arg)});
        }
        ExprP e;
        int corner = rng.range(0, 4);
        switch (corner) {
        case 0:
            e = inner;
            break;
        case 1: {
            e = mkOp(Op::LOG, {mkOp(Op::PLUS, {inner, mkCnD(3.0)}), mkCnD(5.0)});
            e->hasQualifier = true;
            break;
        }
        case 2: {
            e = mkOp(Op::ROOT, {mkOp(Op::PLUS, {inner, mkCnD(3.0)}), mkCnD(5.0)});
            e->hasQualifier = true;
            break;
        }
        case 3: {
            e = mkOp(Op::PIECEWISE, {mkCnD(2.0), (rel || logical) ? inner : mkOp(Op::GT, {inner, mkCnD(0.1)}), mkCnD(4.0)});
            e->hasOtherwise = true;
            break;
        }
        default: {
            e = mkOp(Op::PIECEWISE, {inner, mkOp(Op::GT, {a, b}), mkCnD(4.0)});
            e->hasOtherwise = true;
            break;
        }
        }
        int y = add(QKind::COMPUTED_CONSTANT, "y" + std::to_string(i), 0.0);
        m.q[static_cast<size_t>(y)].def = e;
        m.order.push_back(y);
    }
    return m;
}

static void checkEmpty(const std::string &what, const AnalyserModelPtr &am, const std::string &replay)
{
    for (int profile = 0; profile < 2; ++profile) {
        auto gen = Generator::create();
        gen->setProfile(GeneratorProfile::create(profile == 0 ? GeneratorProfile::Profile::C : GeneratorProfile::Profile::PYTHON));
        if (am != nullptr) {
            gen->setModel(am);
        }
        stat("empty_code_checks");
        if (!gen->interfaceCode().empty() || !gen->implementationCode().empty()) {
            viol("C17", "code-for-" + what + ":" + (profile == 0 ? "C" : "Python"), "non-empty interface/implementation code (" + std::to_string(gen->interfaceCode().size()) + "/" + std::to_string(gen->implementationCode().size()) + " bytes)", replay);
        }
    }
}

void vh_run_case(Ctx &ctx)
{
    Rng &rng = ctx.rng;
    bool corner = ctx.index % 3 == 0;
    SemModel m;
    if (corner) {
        m = cornerModel(rng);
    } else {
        SemOptions so;
        so.maxComponents = rng.range(1, 4);
        so.constants = rng.range(1, 3);
        so.computedConstants = rng.range(0, 3);
        so.ode = rng.chance(0.7);
        so.states = rng.range(1, 3);
        so.algebraics = rng.range(0, 3);
        so.nla = rng.chance(0.3);
        so.nlaDense = true;
        so.nlaSystems = so.nla && rng.chance(0.5) ? 2 : 1; // two implicit systems: two objective functions / root finders
        so.nlaInterleave = so.nlaSystems == 2 && rng.chance(0.6);
        so.scaledUnits = rng.chance(0.5);
        so.exprDepth = rng.range(1, 3);
        m = generateSemModel(rng, so);
    }
    IrModel ir = semToIr(m);
    if (!corner && rng.chance(0.5)) {
        // document order is not dependency order: the equations of two implicit systems may interleave
        ir = permuteIr(ir, rng);
        stat("permuted_models");
    }
    // long names exercise the declared buffer sizes
    std::string text = writeCellml2(ir, WriteStyle());
    auto model = Parser::create(true)->parseModel(text);
    if (model == nullptr) {
        caseInfo("", false);
        return;
    }
    // ---- empty code for missing / invalid models
    if (ctx.index % 10 == 0) {
        checkEmpty("missing-model", nullptr, "Generator without a model");
        // an under-constrained variant: drop all math of the first component
        IrModel bad = ir;
        for (auto &c : bad.comps) {
            if (!c.math.empty() && !c.math[0].empty()) {
                c.math[0].pop_back();
                if (c.math[0].empty()) {
                    c.math.clear();
                }
                break;
            }
        }
        auto bm = Parser::create(true)->parseModel(writeCellml2(bad, WriteStyle()));
        auto an = Analyser::create();
        an->analyseModel(bm);
        auto bam = an->model();
        if (bam != nullptr && !bam->isValid()) {
            seen("invalid_type", AnalyserModel::typeAsString(bam->type()));
            checkEmpty("invalid-model:" + AnalyserModel::typeAsString(bam->type()), bam, writeCellml2(bad, WriteStyle()));
        }
        // an invalid (does not validate) model
        auto inv = Parser::create(true)->parseModel("<?xml version=\"1.0\"?><model xmlns=\"http://www.cellml.org/cellml/2.0#\" name=\"m\"><component name=\"c\"><variable name=\"x\" units=\"nope\"/></component></model>");
        auto an2 = Analyser::create();
        an2->analyseModel(inv);
        if (an2->model() != nullptr) {
            checkEmpty("invalid-model:" + AnalyserModel::typeAsString(an2->model()->type()), an2->model(), "variable with undefined units");
        }
    }
    stage("analyse");
    auto analyser = Analyser::create();
    // now and then the variable of integration (looked up by name: the first variable called t<digits> that is used as
    // bvar) is marked external and nothing else is: whatever the analyser makes of that, the generated code has to
    // declare what it uses
    if (!corner && ctx.index % 7 == 3) {
        size_t bv = text.find("<bvar><ci>");
        if (bv != std::string::npos) {
            std::string tname = text.substr(bv + 10, text.find('<', bv + 10) - bv - 10);
            for (const auto &c : allComponents(model)) {
                auto tv = c->variable(tname);
                if (tv != nullptr) {
                    analyser->addExternalVariable(AnalyserExternalVariable::create(tv));
                    stat("voi_marked_external");
                    break;
                }
            }
        }
    }
    analyser->analyseModel(model);
    auto am = analyser->model();
    if (am == nullptr || !am->isValid()) {
        stat("models_not_valid");
        caseInfo("", false);
        return;
    }
    stage("generate");
    auto gen = Generator::create();
    gen->setModel(am);
    std::string cI = gen->interfaceCode();
    std::string cC = gen->implementationCode();
    gen->setProfile(GeneratorProfile::create(GeneratorProfile::Profile::PYTHON));
    std::string pI = gen->interfaceCode();
    std::string pC = gen->implementationCode();
    std::string replay = text + "\n/* ---- C interface ---- */\n" + cI + "\n/* ---- C implementation ---- */\n" + cC;
    stat("models_generated");
    bool hasVoi = am->voi() != nullptr;

    // ---- expected tables from the AnalyserModel
    struct Row
    {
        std::string name;
        std::string units;
        std::string component;
        std::string type;
    };
    auto rowOf = [&](const AnalyserVariablePtr &av) {
        Row r;
        r.name = av->variable()->name();
        r.units = av->variable()->units() != nullptr ? av->variable()->units()->name() : "";
        auto c = std::dynamic_pointer_cast<Component>(av->variable()->parent());
        r.component = c != nullptr ? c->name() : "";
        r.type = typeNameUpper(av->type());
        return r;
    };
    std::vector<Row> stateRows;
    std::vector<Row> varRows;
    for (const auto &s : am->states()) {
        stateRows.push_back(rowOf(s));
    }
    for (const auto &v : am->variables()) {
        varRows.push_back(rowOf(v));
    }

    // ---- C probe
    std::string wd = scratchDir() + "/c17_" + std::to_string(ctx.index);
    mkdir(wd.c_str(), 0777);
    writeFile(wd + "/model.h", cI);
    writeFile(wd + "/model.c", cC);
    // functions declared in the interface
    std::vector<std::string> declared;
    {
        std::regex decl(R"(^[A-Za-z_][A-Za-z0-9_ \*]*?\b([A-Za-z_][A-Za-z0-9_]*)\s*\(([^;{}]*)\)\s*;\s*$)");
        std::stringstream ss(cI);
        std::string line;
        while (std::getline(ss, line)) {
            std::smatch mt;
            if (line.find("typedef") == std::string::npos && std::regex_match(line, mt, decl)) {
                declared.push_back(mt[1]);
            }
        }
    }
    stat("declared_functions", static_cast<int64_t>(declared.size()));
    std::string probe = "#include \"model.h\"\n#include <stdio.h>\n#include <string.h>\n";
    probe += "void nlaSolve(void (*objectiveFunction)(double *, double *, void *), double *u, size_t n, void *data) { (void)objectiveFunction; (void)u; (void)n; (void)data; }\n";
    probe += "static void row(const char *tag, size_t i, const VariableInfo *v) { printf(\"%s %zu |%s|%s|%s|%d|%zu|%zu|%zu\\n\", tag, i, v->name, v->units, v->component, (int) v->type, sizeof(v->name), sizeof(v->units), sizeof(v->component)); }\n";
    probe += "int main(void)\n{\n    void *fp[] = {";
    for (const auto &d : declared) {
        probe += "(void *) " + d + ", ";
    }
    probe += "NULL};\n    (void) fp;\n";
    probe += "    printf(\"VERSION %s\\n\", VERSION);\n    printf(\"LIBCELLML_VERSION %s\\n\", LIBCELLML_VERSION);\n";
    if (hasVoi) {
        probe += "    printf(\"STATE_COUNT %zu\\n\", STATE_COUNT);\n    row(\"VOI\", 0, &VOI_INFO);\n    for (size_t i = 0; i < STATE_COUNT; ++i) { row(\"STATE\", i, &STATE_INFO[i]); }\n";
    }
    probe += "    printf(\"VARIABLE_COUNT %zu\\n\", VARIABLE_COUNT);\n    for (size_t i = 0; i < VARIABLE_COUNT; ++i) { row(\"VARIABLE\", i, &VARIABLE_INFO[i]); }\n";
    // enum values by name
    for (const char *tn : {"VARIABLE_OF_INTEGRATION", "STATE", "CONSTANT", "COMPUTED_CONSTANT", "ALGEBRAIC", "EXTERNAL"}) {
        if (cI.find(tn) != std::string::npos) {
            probe += std::string("    printf(\"ENUM ") + tn + " %d\\n\", (int) " + tn + ");\n";
        }
    }
    probe += "    return 0;\n}\n";
    writeFile(wd + "/probe.c", probe);
    int rc = 0;
    stage("compile-c");
    std::string diag = sh("cd '" + wd + "' && gcc -std=c99 -O0 -Wall -Wextra -c model.c -o model.o", rc);
    if (rc != 0) {
        viol("C17", "c-does-not-compile", truncateForLog(diag, 2500), replay);
    } else {
        // diagnostics other than unused-parameter / unused-variable
        std::stringstream ds(diag);
        std::string line;
        while (std::getline(ds, line)) {
            if (line.find("warning:") != std::string::npos && line.find("-Wunused-parameter") == std::string::npos && line.find("-Wunused-variable") == std::string::npos) {
                std::string w = line.substr(line.find("warning:"));
                size_t b = w.rfind("[-W");
                std::string flag = b != std::string::npos ? w.substr(b) : "other";
                viol("C17", "c-diagnostic:" + flag, line, replay);
            }
            if (line.find("warning:") != std::string::npos) {
                stat("compiler_warnings_seen");
            }
        }
        std::string ld = sh("cd '" + wd + "' && gcc -std=c99 -O0 -Wall -Wextra -Wl,--no-undefined probe.c model.o -lm -o probe", rc);
        if (rc != 0) {
            std::string kind = ld.find("undefined reference") != std::string::npos ? "declared-function-undefined" : (ld.find("conflicting types") != std::string::npos ? "signature-mismatch" : "probe-build-failed");
            viol("C17", "c-link:" + kind, truncateForLog(ld, 2500), replay);
        } else {
            std::string out = sh("cd '" + wd + "' && ./probe", rc);
            std::map<std::string, int> enumVal;
            std::vector<std::vector<std::string>> rows;
            std::map<std::string, std::string> scalars;
            std::stringstream os(out);
            while (std::getline(os, line)) {
                std::stringstream ls(line);
                std::string tag;
                ls >> tag;
                if (tag == "ENUM") {
                    std::string n;
                    int v;
                    ls >> n >> v;
                    enumVal[n] = v;
                } else if (tag == "STATE_COUNT" || tag == "VARIABLE_COUNT" || tag == "VERSION" || tag == "LIBCELLML_VERSION") {
                    std::string v;
                    ls >> v;
                    scalars[tag] = v;
                } else if (tag == "VOI" || tag == "STATE" || tag == "VARIABLE") {
                    size_t idx;
                    ls >> idx;
                    std::string rest = line.substr(line.find('|') + 1);
                    std::vector<std::string> f = {tag, std::to_string(idx)};
                    std::stringstream rs(rest);
                    std::string part;
                    while (std::getline(rs, part, '|')) {
                        f.push_back(part);
                    }
                    rows.push_back(f);
                }
            }
            stat("c_probes_run");
            if (hasVoi && scalars["STATE_COUNT"] != std::to_string(am->stateCount())) {
                viol("C17", "c-count:STATE_COUNT", "STATE_COUNT=" + scalars["STATE_COUNT"] + " model has " + std::to_string(am->stateCount()), replay);
            }
            if (scalars["VARIABLE_COUNT"] != std::to_string(am->variableCount())) {
                viol("C17", "c-count:VARIABLE_COUNT", "VARIABLE_COUNT=" + scalars["VARIABLE_COUNT"] + " model has " + std::to_string(am->variableCount()), replay);
            }
            for (const auto &f : rows) {
                if (f.size() < 9) {
                    continue;
                }
                size_t idx = static_cast<size_t>(atoi(f[1].c_str()));
                Row want;
                if (f[0] == "VOI") {
                    want = rowOf(am->voi());
                } else if (f[0] == "STATE") {
                    if (idx >= stateRows.size()) {
                        continue;
                    }
                    want = stateRows[idx];
                } else {
                    if (idx >= varRows.size()) {
                        continue;
                    }
                    want = varRows[idx];
                }
                stat("info_entries_checked");
                int tv = enumVal.count(want.type) != 0U ? enumVal[want.type] : -999;
                if (f[2] != want.name || f[3] != want.units || f[4] != want.component || atoi(f[5].c_str()) != tv) {
                    viol("C17", "c-info-mismatch:" + f[0], "entry " + f[1] + " is |" + f[2] + "|" + f[3] + "|" + f[4] + "|" + f[5] + " expected |" + want.name + "|" + want.units + "|" + want.component + "|" + want.type, replay);
                }
                // fits its declared buffer (incl. the terminator)
                if (want.name.size() + 1 > static_cast<size_t>(atoi(f[6].c_str())) || want.units.size() + 1 > static_cast<size_t>(atoi(f[7].c_str())) || want.component.size() + 1 > static_cast<size_t>(atoi(f[8].c_str()))) {
                    viol("C17", "c-info-buffer-too-small:" + f[0], "entry " + f[1] + " buffers " + f[6] + "/" + f[7] + "/" + f[8], replay);
                }
            }
        }
    }
    // ---- helpers emitted exactly when used
    std::set<Op> used;
    for (const auto &q : m.q) {
        opsIn(q.def, used);
    }
    for (const auto &sys : m.nla) {
        for (const auto &eq : sys.equations) {
            opsIn(eq.lhs, used);
            opsIn(eq.rhs, used);
        }
    }
    for (const auto &h : kHelpers) {
        bool isUsed = used.count(h.op) != 0U;
        if (h.cName != nullptr) {
            std::regex def(std::string("(^|\\n)double ") + h.cName + "\\(");
            bool present = std::regex_search(cC, def);
            stat("helper_checks");
            if (present != isUsed) {
                viol("C17", std::string("c-helper-") + (present ? "present-without-use:" : "absent-with-use:") + h.cName, "", replay);
            }
        }
        std::regex pdef(std::string("(^|\\n)def ") + h.pyName + "\\(");
        bool ppresent = std::regex_search(pC, pdef);
        stat("helper_checks");
        if (ppresent != isUsed) {
            viol("C17", std::string("python-helper-") + (ppresent ? "present-without-use:" : "absent-with-use:") + h.pyName, "", text + "\n# ---- Python ----\n" + pC);
        }
        if (isUsed) {
            seen("helper_used", h.pyName);
        }
    }
    // ---- Python module loads and agrees
    {
        writeFile(wd + "/model.py", pC);
        writeFile(wd + "/nlasolver.py", "def nla_solve(objective_function, u, n, data):\n    return u\n");
        std::string probePy = "import sys\nsys.path.insert(0, '.')\nimport model\n";
        probePy += "def row(tag, i, d):\n    print('%s %d |%s|%s|%s|%s' % (tag, i, d['name'], d['units'], d['component'], d['type'].name))\n";
        if (hasVoi) {
            probePy += "print('STATE_COUNT %d' % model.STATE_COUNT)\nrow('VOI', 0, model.VOI_INFO)\nfor i, d in enumerate(model.STATE_INFO):\n    row('STATE', i, d)\nprint('STATE_INFO_LEN %d' % len(model.STATE_INFO))\n";
        }
        probePy += "print('VARIABLE_COUNT %d' % model.VARIABLE_COUNT)\nfor i, d in enumerate(model.VARIABLE_INFO):\n    row('VARIABLE', i, d)\nprint('VARIABLE_INFO_LEN %d' % len(model.VARIABLE_INFO))\n";
        probePy += "for f in ['create_variables_array', 'initialise_variables', 'compute_computed_constants', 'compute_variables'" + std::string(hasVoi ? ", 'create_states_array', 'compute_rates'" : "") + "]:\n    print('FUNC %s %s' % (f, callable(getattr(model, f, None))))\n";
        writeFile(wd + "/probe.py", probePy);
        stage("python-probe");
        std::string out = sh("cd '" + wd + "' && timeout 60 python3 -B probe.py", rc);
        if (rc != 0) {
            viol("C17", "python-does-not-load", truncateForLog(out, 2500), text + "\n# ---- Python ----\n" + pC);
        } else {
            stat("python_probes_run");
            std::stringstream os(out);
            std::string line;
            while (std::getline(os, line)) {
                std::stringstream ls(line);
                std::string tag;
                ls >> tag;
                if (tag == "STATE_COUNT" || tag == "STATE_INFO_LEN") {
                    size_t v;
                    ls >> v;
                    if (v != am->stateCount()) {
                        viol("C17", "python-count:" + tag, line, pC);
                    }
                } else if (tag == "VARIABLE_COUNT" || tag == "VARIABLE_INFO_LEN") {
                    size_t v;
                    ls >> v;
                    if (v != am->variableCount()) {
                        viol("C17", "python-count:" + tag, line, pC);
                    }
                } else if (tag == "FUNC") {
                    std::string f;
                    std::string ok;
                    ls >> f >> ok;
                    if (ok != "True") {
                        viol("C17", "python-function-missing:" + f, "", pC);
                    }
                } else if (tag == "VOI" || tag == "STATE" || tag == "VARIABLE") {
                    size_t idx;
                    ls >> idx;
                    std::string rest = line.substr(line.find('|') + 1);
                    std::vector<std::string> f;
                    std::stringstream rs(rest);
                    std::string part;
                    while (std::getline(rs, part, '|')) {
                        f.push_back(part);
                    }
                    Row want;
                    if (tag == "VOI") {
                        want = rowOf(am->voi());
                    } else if (tag == "STATE" && idx < stateRows.size()) {
                        want = stateRows[idx];
                    } else if (tag == "VARIABLE" && idx < varRows.size()) {
                        want = varRows[idx];
                    } else {
                        continue;
                    }
                    stat("info_entries_checked");
                    if (f.size() < 4 || f[0] != want.name || f[1] != want.units || f[2] != want.component || f[3] != want.type) {
                        viol("C17", "python-info-mismatch:" + tag, line + " expected |" + want.name + "|" + want.units + "|" + want.component + "|" + want.type, pC);
                    }
                }
            }
        }
    }
    (void)pI;
    std::string sig;
    for (const auto &op : used) {
        sig += opName(op);
        sig += ",";
    }
    caseInfo(std::string(corner ? "K" : "S") + hex64(fnv1a(sig + std::to_string(m.q.size()) + (hasVoi ? "o" : "a") + (m.nla.empty() ? "" : "n"))), true,
             std::string(corner ? "corner" : "system") + " type=" + AnalyserModel::typeAsString(am->type()) + " states=" + std::to_string(am->stateCount()) + " variables=" + std::to_string(am->variableCount()) + " ops=" + truncateForLog(sig, 150));
}
