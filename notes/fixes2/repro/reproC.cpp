#include <libcellml>
#include <fstream>
#include <sstream>
#include <iostream>
using namespace libcellml;
int main(int argc, char **argv) {
    std::cout << std::unitbuf; std::string dir = argv[1], file = argv[2];
    std::ifstream f(dir + file); std::stringstream ss; ss << f.rdbuf();
    auto parser = Parser::create();
    auto m = parser->parseModel(ss.str());
    auto imp = Importer::create();
    std::cout << "resolveImports " << imp->resolveImports(m, dir) << " issues " << imp->issueCount() << "\n";
    for (size_t i = 0; i < imp->issueCount(); ++i) std::cout << "   - " << imp->issue(i)->description() << "\n";
    std::cout << "hasUnresolvedImports " << m->hasUnresolvedImports() << " isDefined " << m->isDefined() << "\n";
    auto flat = imp->flattenModel(m);
    std::cout << "flat " << (flat != nullptr) << " issues " << imp->issueCount() << "\n";
    for (size_t i = 0; i < imp->issueCount(); ++i) std::cout << "   - " << imp->issue(i)->description() << "\n";
    if (flat) { auto p = Printer::create(); std::cout << p->printModel(flat) << "\n"; }
}
