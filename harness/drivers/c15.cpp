// C15: issue reporting is coherent across all services; failing results are explained.
// The coherence monitor (vh::checkLogger) also runs inside every other driver; this driver replays the scenario
// families in which issue lists are produced, deleted from and failures occur, and sweeps every ReferenceRule / Level /
// element-type value through the guarded hook Issue::verifCreate.
#include "gen.h"
#include "mutate.h"
#include "pipeline.h"
#include "vh.h"

#include <cstdlib>
#include <sys/stat.h>

using namespace vh;

static std::vector<std::string> gCorpus;
static const std::vector<std::string> &corpus()
{
    if (gCorpus.empty()) {
        const char *repo = getenv("VERIF_REPO");
        std::string root = std::string(repo != nullptr ? repo : "/repo") + "/tests/resources";
        for (const auto &f : listFiles(root, true)) {
            size_t n = f.size();
            if ((n > 7 && f.substr(n - 7) == ".cellml") || (n > 4 && f.substr(n - 4) == ".xml")) {
                // keep the heavy generator fixtures out: they are C01's job
                bool ok = false;
                struct stat st;
                ok = stat(f.c_str(), &st) == 0 && st.st_size < 60000;
                if (ok) {
                    gCorpus.push_back(f);
                }
            }
        }
    }
    return gCorpus;
}

static const int kSweepCases = 1;

int64_t vh_case_count(const std::string &tier, uint64_t)
{
    int64_t c = static_cast<int64_t>(corpus().size());
    return kSweepCases + c + (tier == "thorough" ? 30000 : 2400);
}

static std::string dirOf(const std::string &p)
{
    size_t s = p.rfind('/');
    return s == std::string::npos ? "." : p.substr(0, s);
}

// ---- A: every rule / level / element type ----
static void sweepEnumerations()
{
    int last = static_cast<int>(Issue::ReferenceRule::UNSPECIFIED);
    for (int r = 0; r <= last; ++r) {
        for (int l = 0; l < 3; ++l) {
            auto rule = static_cast<Issue::ReferenceRule>(r);
            auto level = static_cast<Issue::Level>(l);
            auto is = Issue::verifCreate(rule, level, "probe");
            stat("rule_level_pairs");
            std::string key = "rule" + std::to_string(r);
            if (is == nullptr) {
                viol("C15", "issue:verifCreate-null:" + key, "", "");
                continue;
            }
            if (is->referenceRule() != rule || is->level() != level || is->description() != "probe") {
                viol("C15", "issue:accessor-mismatch:" + key, "", "");
            }
            try {
                std::string h = is->referenceHeading();
                std::string u = is->url();
                if (u.empty()) {
                    viol("C15", "issue:empty-url:" + key, "", "");
                }
                seen("rule_heading", std::to_string(r) + ":" + h);
            } catch (const std::exception &e) {
                viol("C15", "issue:rule-lookup-throws:" + key + (r == last ? ":UNSPECIFIED" : ""), std::string("referenceHeading()/url() threw ") + e.what() + " for ReferenceRule value " + std::to_string(r), "Issue::verifCreate(ReferenceRule(" + std::to_string(r) + "), ...)->url()");
            }
            auto item = is->item();
            if (item == nullptr) {
                viol("C15", "issue:null-item:" + key, "", "");
            } else if (item->type() != CellmlElementType::UNDEFINED) {
                viol("C15", "issue:fresh-item-not-undefined:" + key, "", "");
            }
        }
    }
    for (int t = 0; t <= static_cast<int>(CellmlElementType::VARIABLE); ++t) {
        std::string s = cellmlElementTypeAsString(static_cast<CellmlElementType>(t));
        stat("element_types");
        if (s.empty()) {
            viol("C15", "elementtype:empty-name:" + std::to_string(t), "", "");
        }
        seen("element_type", s);
    }
    caseInfo("sweep", true, "every ReferenceRule value 0.." + std::to_string(last) + " x 3 levels through Issue::verifCreate; every CellmlElementType name");
}

// ---- C: import scenarios that make the importer add messages and delete errors ----
static void importScenario(Ctx &ctx)
{
    Rng &rng = ctx.rng;
    std::string dir = scratchDir() + "/c15_" + std::to_string(ctx.index);
    mkdir(dir.c_str(), 0777);
    int n = rng.range(1, 4);
    std::string root = "<?xml version=\"1.0\" encoding=\"UTF-8\"?>\n<model xmlns=\"http://www.cellml.org/cellml/2.0#\" xmlns:xlink=\"http://www.w3.org/1999/xlink\" name=\"root\">\n";
    std::string desc;
    for (int i = 0; i < n; ++i) {
        int kind = rng.range(0, 9);
        std::string fname = "lib" + std::to_string(i) + ".cellml";
        std::string content;
        std::string good20 = "<?xml version=\"1.0\"?><model xmlns=\"http://www.cellml.org/cellml/2.0#\" name=\"lib\"><units name=\"uu\"><unit units=\"second\"/></units><component name=\"cc\"><variable name=\"v\" units=\"uu\"/></component></model>";
        switch (kind) {
        case 0:
            content = good20;
            break;
        case 1: // CellML 1.1 document: a message in permissive mode, an error in strict mode
            content = "<?xml version=\"1.0\"?><model xmlns=\"http://www.cellml.org/cellml/1.1#\" name=\"lib\"><units name=\"uu\"><unit units=\"second\"/></units><component name=\"cc\"><variable name=\"v\" units=\"uu\" public_interface=\"out\"/></component></model>";
            break;
        case 2: // parses with errors that are not XML errors (the importer copies, then deletes them)
            content = "<?xml version=\"1.0\"?><model xmlns=\"http://www.cellml.org/cellml/2.0#\" name=\"lib\" bogus=\"1\"><units name=\"uu\"><unit units=\"second\" wrong=\"x\"/></units><component name=\"cc\" nope=\"1\"><variable name=\"v\" units=\"uu\" zzz=\"1\"/><banana/></component><mango/></model>";
            break;
        case 3: // missing file
            break;
        case 4: // not XML
            content = "this is not xml <";
            break;
        case 5: // other vocabulary
            content = "<?xml version=\"1.0\"?><html><body/></html>";
            break;
        case 6: // referenced entities missing
            content = "<?xml version=\"1.0\"?><model xmlns=\"http://www.cellml.org/cellml/2.0#\" name=\"lib\"><component name=\"other\"/></model>";
            break;
        case 8: // 1.1 AND an error (not an XML one) in the imported items: version message + copied errors, some deleted later
            content = "<?xml version=\"1.0\"?><model xmlns=\"http://www.cellml.org/cellml/1.1#\" name=\"lib\"><units name=\"uu\"><unit units=\"second\" exponent=\"abc\"/></units><component name=\"cc\"><variable name=\"v\" units=\"uu\" initial_value=\"1.2.3\"/></component></model>";
            break;
        case 9: // 1.0 AND an error in something that is NOT imported
            content = "<?xml version=\"1.0\"?><model xmlns=\"http://www.cellml.org/cellml/1.0#\" name=\"lib\"><units name=\"other\"><unit units=\"second\" exponent=\"abc\"/></units><units name=\"uu\"><unit units=\"second\"/></units><component name=\"cc\"><variable name=\"v\" units=\"uu\"/></component><component name=\"dd\"><variable name=\"w\" units=\"second\" initial_value=\"x y\"/></component></model>";
            break;
        default: // 1.1 with junk elements: messages + errors
            content = "<?xml version=\"1.0\"?><model xmlns=\"http://www.cellml.org/cellml/1.1#\" name=\"lib\"><junk/><units name=\"uu\"><unit units=\"second\"/></units><component name=\"cc\"><variable name=\"v\" units=\"uu\" weird=\"1\"/><reaction/></component></model>";
            break;
        }
        if (kind != 3) {
            writeFile(dir + "/" + fname, content);
        }
        desc += std::to_string(kind);
        bool importUnits = rng.chance(0.5);
        bool importComp = !importUnits || rng.chance(0.5);
        root += "  <import xlink:href=\"" + fname + "\">";
        if (importUnits) {
            root += "<units name=\"iu" + std::to_string(i) + "\" units_ref=\"uu\"/>";
            desc += "u";
        }
        if (importComp) {
            root += "<component name=\"ic" + std::to_string(i) + "\" component_ref=\"cc\"/>";
            desc += "c";
        }
        root += "</import>\n";
    }
    root += "</model>\n";
    bool strict = rng.chance(0.5);
    desc += strict ? "S" : "P";
    std::string replay = "dir listing kinds=" + desc + "\n" + root;
    auto parser = Parser::create(true);
    auto model = parser->parseModel(root);
    monitorLogger(*parser, "Parser::parseModel", replay);
    if (model == nullptr) {
        caseInfo("", false);
        return;
    }
    auto importer = Importer::create(strict);
    stage("resolveImports:" + desc);
    bool ok = importer->resolveImports(model, dir + "/");
    monitorLogger(*importer, "Importer::resolveImports", replay);
    monitorExplained(!ok, *importer, "Importer::resolveImports", replay);
    stat(ok ? "resolve_ok" : "resolve_failed");
    stat("importer_issues", static_cast<int64_t>(importer->issueCount()));
    stage("flattenModel:" + desc);
    auto flat = importer->flattenModel(model);
    monitorLogger(*importer, "Importer::flattenModel", replay);
    monitorExplained(flat == nullptr, *importer, "Importer::flattenModel", replay);
    // a second resolution on the same importer starts from an empty issue list (C12) and stays coherent
    auto model2 = parser->parseModel(root);
    stage("resolveImports-again:" + desc);
    bool ok2 = importer->resolveImports(model2, dir + "/");
    monitorLogger(*importer, "Importer::resolveImports(again)", replay);
    monitorExplained(!ok2, *importer, "Importer::resolveImports(again)", replay);
    // null argument
    ModelPtr nullModel;
    auto fl2 = importer->flattenModel(nullModel);
    monitorLogger(*importer, "Importer::flattenModel(null)", replay);
    monitorExplained(fl2 == nullptr, *importer, "Importer::flattenModel(null)", replay);
    seen("import_scenario", desc);
    caseInfo("imp" + desc, n >= 2, "import scenario kinds=" + desc + " ok=" + std::to_string(ok) + " issues=" + std::to_string(importer->issueCount()));
}

// ---- D: annotator failures ----
static void annotatorScenario(Ctx &ctx)
{
    Rng &rng = ctx.rng;
    GenOptions go;
    go.weirdIds = rng.chance(0.5);
    go.mathProbability = 0.1;
    IrModel ir = generateModel(rng, go);
    auto m = buildApi(ir);
    std::string replay = dumpIr(ir);
    auto ann = Annotator::create();
    // no model yet
    auto it0 = ann->item("x");
    monitorLogger(*ann, "Annotator::item(no model)", replay);
    monitorExplained(it0 == nullptr || it0->type() == CellmlElementType::UNDEFINED, *ann, "Annotator::item(no model)", replay);
    bool a0 = ann->assignAllIds();
    monitorLogger(*ann, "Annotator::assignAllIds(no model)", replay);
    monitorExplained(!a0, *ann, "Annotator::assignAllIds(no model)", replay);
    bool a1 = ann->assignIds(CellmlElementType::VARIABLE);
    monitorExplained(!a1, *ann, "Annotator::assignIds(no model)", replay);
    std::string s0 = ann->assignId(m);
    monitorLogger(*ann, "Annotator::assignId(no model)", replay);
    monitorExplained(s0.empty(), *ann, "Annotator::assignId(model, no stored model)", replay);
    ModelPtr nullModel;
    {
        auto fresh = Annotator::create(); // a fresh instance, so that issues of earlier calls cannot pass for an explanation
        bool a2 = fresh->assignAllIds(nullModel);
        monitorLogger(*fresh, "Annotator::assignAllIds(null)", replay);
        monitorExplained(!a2, *fresh, "Annotator::assignAllIds(null)", replay);
    }

    ann->setModel(m);
    // unknown id
    auto it1 = ann->item("definitely_not_an_id");
    monitorLogger(*ann, "Annotator::item(unknown)", replay);
    monitorExplained(it1 == nullptr || it1->type() == CellmlElementType::UNDEFINED, *ann, "Annotator::item(unknown id)", replay);
    // duplicated id
    auto dups = ann->duplicateIds();
    if (!dups.empty()) {
        auto it2 = ann->item(dups[0]);
        monitorLogger(*ann, "Annotator::item(duplicate)", replay);
        monitorExplained(it2 == nullptr || it2->type() == CellmlElementType::UNDEFINED, *ann, "Annotator::item(duplicated id)", replay);
        auto it3 = ann->item(dups[0], 99);
        monitorExplained(it3 == nullptr || it3->type() == CellmlElementType::UNDEFINED, *ann, "Annotator::item(duplicated id, index out of range)", replay);
    }
    // typed lookup with the wrong type
    auto ids = ann->ids();
    for (const auto &id : ids) {
        if (ann->itemCount(id) != 1) {
            continue;
        }
        auto it = ann->item(id);
        if (it != nullptr && it->type() == CellmlElementType::VARIABLE) {
            auto c = ann->component(id);
            monitorLogger(*ann, "Annotator::component(id of a variable)", replay);
            monitorExplained(c == nullptr, *ann, "Annotator::component(id of a variable)", replay);
            auto u = ann->units(id);
            monitorExplained(u == nullptr, *ann, "Annotator::units(id of a variable)", replay);
            break;
        }
    }
    // items that are not members of the stored model
    auto strangerV = Variable::create("stranger");
    std::string s1 = ann->assignId(strangerV);
    monitorLogger(*ann, "Annotator::assignId(foreign variable)", replay);
    monitorExplained(s1.empty(), *ann, "Annotator::assignId(variable not in the stored model)", replay);
    auto strangerC = Component::create("strangerC");
    std::string s2 = ann->assignId(strangerC);
    monitorExplained(s2.empty(), *ann, "Annotator::assignId(component not in the stored model)", replay);
    auto strangerU = Units::create("strangerU");
    std::string s3 = ann->assignId(strangerU);
    monitorExplained(s3.empty(), *ann, "Annotator::assignId(units not in the stored model)", replay);
    VariablePtr nullVar;
    std::string s4 = ann->assignId(nullVar);
    monitorLogger(*ann, "Annotator::assignId(null variable)", replay);
    monitorExplained(s4.empty(), *ann, "Annotator::assignId(null variable)", replay);
    AnyCellmlElementPtr nullItem;
    // (a null AnyCellmlElementPtr is C09's business: not called here)
    // wrong type for the entity
    std::string s5 = ann->assignId(m, CellmlElementType::VARIABLE);
    monitorLogger(*ann, "Annotator::assignId(model, VARIABLE)", replay);
    monitorExplained(s5.empty(), *ann, "Annotator::assignId(model, type VARIABLE)", replay);
    // (an annotator whose model has been destroyed is C09's business: every method that refreshes the cache then
    //  dereferences the dead model, which would end this scenario early)
    stat("annotator_scenarios");
    caseInfo("ann" + ir.structuralHash(), true, "annotator failure scenarios on a generated model; dups=" + std::to_string(dups.size()));
}

// ---- E: analyser verdicts ----
static void analyserScenario(Ctx &ctx)
{
    Rng &rng = ctx.rng;
    static const std::vector<std::string> bodies = {
        // over-constrained
        "<apply><eq/><ci>x</ci><cn cellml:units=\"dimensionless\">1</cn></apply><apply><eq/><ci>x</ci><cn cellml:units=\"dimensionless\">2</cn></apply>",
        // under-constrained
        "<apply><eq/><ci>x</ci><ci>y</ci></apply>",
        // unsuitably constrained: one over, one under
        "<apply><eq/><ci>x</ci><cn cellml:units=\"dimensionless\">1</cn></apply><apply><eq/><ci>x</ci><cn cellml:units=\"dimensionless\">2</cn></apply><apply><eq/><ci>y</ci><ci>z</ci></apply>",
        // invalid: not an equality
        "<apply><plus/><ci>x</ci><ci>y</ci></apply>",
        // invalid: two VOIs
        "<apply><eq/><apply><diff/><bvar><ci>t</ci></bvar><ci>x</ci></apply><cn cellml:units=\"dimensionless\">1</cn></apply><apply><eq/><apply><diff/><bvar><ci>z</ci></bvar><ci>y</ci></apply><cn cellml:units=\"dimensionless\">1</cn></apply>",
        // invalid: state not initialised
        "<apply><eq/><apply><diff/><bvar><ci>t</ci></bvar><ci>x</ci></apply><cn cellml:units=\"dimensionless\">1</cn></apply>",
        // valid algebraic
        "<apply><eq/><ci>x</ci><cn cellml:units=\"dimensionless\">1</cn></apply><apply><eq/><ci>y</ci><ci>x</ci></apply><apply><eq/><ci>z</ci><ci>y</ci></apply><apply><eq/><ci>t</ci><ci>z</ci></apply>",
        // second order ODE
        "<apply><eq/><apply><diff/><bvar><ci>t</ci><degree><cn cellml:units=\"dimensionless\">2</cn></degree></bvar><ci>x</ci></apply><cn cellml:units=\"dimensionless\">1</cn></apply>"};
    int k = static_cast<int>(rng.below(bodies.size()));
    std::string init = rng.chance(0.3) ? " initial_value=\"1\"" : "";
    std::string text = "<?xml version=\"1.0\"?><model xmlns=\"http://www.cellml.org/cellml/2.0#\" xmlns:cellml=\"http://www.cellml.org/cellml/2.0#\" name=\"m\"><component name=\"c\">"
                       "<variable name=\"x\" units=\"dimensionless\"" + init + "/><variable name=\"y\" units=\"dimensionless\"/><variable name=\"z\" units=\"dimensionless\"/><variable name=\"t\" units=\"dimensionless\"/>"
                       "<math xmlns=\"http://www.w3.org/1998/Math/MathML\">" + bodies[static_cast<size_t>(k)] + "</math></component></model>";
    PipelineOptions po;
    po.strict = true;
    po.replay = text;
    po.markStages = true;
    auto r = runPipeline(text, po);
    seen("analyser_type", r.analyserType);
    // null model
    auto an = Analyser::create();
    an->analyseModel(nullptr);
    monitorLogger(*an, "Analyser::analyseModel(null)", text);
    auto am = an->model();
    monitorExplained(am == nullptr || !am->isValid(), *an, "Analyser::analyseModel(null)", text);
    stat("analyser_scenarios");
    caseInfo("ana" + std::to_string(k) + init, true, "analyser body " + std::to_string(k) + " -> " + r.analyserType);
}

void vh_run_case(Ctx &ctx)
{
    const auto &c = corpus();
    int64_t i = ctx.index;
    if (i < kSweepCases) {
        sweepEnumerations();
        return;
    }
    i -= kSweepCases;
    if (i < static_cast<int64_t>(c.size())) {
        std::string input = readFile(c[static_cast<size_t>(i)]);
        for (int mode = 0; mode < 2; ++mode) {
            PipelineOptions po;
            po.strict = mode == 0;
            po.baseDir = dirOf(c[static_cast<size_t>(i)]);
            po.replay = "file " + c[static_cast<size_t>(i)];
            po.unitsPairs = false;
            po.cloneEquals = false;
            runPipeline(input, po);
        }
        caseInfo(hex64(fnv1a(input)), true, "corpus file " + c[static_cast<size_t>(i)].substr(c[static_cast<size_t>(i)].rfind('/') + 1));
        return;
    }
    int family = static_cast<int>(i % 8);
    if (family <= 2) {
        importScenario(ctx);
    } else if (family == 3) {
        annotatorScenario(ctx);
    } else if (family == 4) {
        analyserScenario(ctx);
    } else {
        // mutated corpus / generated invalid models through the pipeline
        Rng &rng = ctx.rng;
        std::string desc;
        std::string input;
        std::string base;
        if (rng.chance(0.5)) {
            const std::string &f = rng.pick(c);
            input = mutateStructured(readFile(f), rng, rng.range(1, 4), desc);
            base = dirOf(f);
        } else {
            GenOptions go;
            IrModel ir = generateModel(rng, go);
            input = mutateStructured(writeCellml2(ir, rng), rng, rng.range(1, 5), desc);
            base = "";
        }
        PipelineOptions po;
        po.strict = rng.chance(0.5);
        po.baseDir = base;
        po.replay = "mutations=" + desc + "\n" + input;
        po.unitsPairs = false;
        po.cloneEquals = false;
        auto r = runPipeline(input, po);
        caseInfo(hex64(fnv1a(input)), r.parsed, "mutant [" + truncateForLog(desc, 150) + "] reach=" + r.stagesReached);
    }
}
