// Prints a digest of many public results for one CellML file (used to compare the base and the patched library).
#include <libcellml>
#include <fstream>
#include <sstream>
#include <iostream>
using namespace libcellml;
static void issues(const char *who, const LoggerPtr &l) {
    std::cout << who << ":" << l->issueCount() << "\n";
    for (size_t i = 0; i < l->issueCount(); ++i) std::cout << "  " << int(l->issue(i)->level()) << "|" << int(l->issue(i)->referenceRule()) << "|" << l->issue(i)->description() << "\n";
}
int main(int argc, char **argv) {
    std::cout << std::unitbuf;
    std::string path = argv[1];
    std::string dir = path.substr(0, path.find_last_of('/') + 1);
    std::ifstream f(path); std::stringstream ss; ss << f.rdbuf();
    for (int strict = 1; strict >= 0; --strict) {
        auto parser = Parser::create(strict != 0);
        auto m = parser->parseModel(ss.str());
        std::cout << "== strict " << strict << "\n";
        issues("parser", parser);
        if (m == nullptr) continue;
        std::cout << "hasImports " << m->hasImports() << " unresolved " << m->hasUnresolvedImports() << " defined " << m->isDefined() << "\n";
        for (size_t i = 0; i < m->unitsCount(); ++i) {
            auto u = m->units(i);
            std::cout << "u " << u->name() << " def " << u->isDefined() << " res " << u->isResolved() << " req " << u->requiresImports() << " base " << u->isBaseUnit() << "\n";
            for (size_t j = 0; j < m->unitsCount(); ++j) {
                auto w = m->units(j);
                std::cout << "  vs " << w->name() << " comp " << Units::compatible(u, w) << " equiv " << Units::equivalent(u, w) << " sf " << Units::scalingFactor(u, w) << " sfn " << Units::scalingFactor(u, w, false) << "\n";
            }
        }
        for (size_t i = 0; i < m->componentCount(); ++i) { auto c = m->component(i); std::cout << "c " << c->name() << " def " << c->isDefined() << " res " << c->isResolved() << " req " << c->requiresImports() << "\n"; }
        auto v = Validator::create(); v->validateModel(m); issues("validator", v);
        auto imp = Importer::create(strict != 0);
        std::cout << "resolve " << imp->resolveImports(m, dir) << "\n"; issues("importer", imp);
        std::cout << "after: hasImports " << m->hasImports() << " unresolved " << m->hasUnresolvedImports() << " defined " << m->isDefined() << "\n";
        auto v2 = Validator::create(); v2->validateModel(m); issues("validator2", v2);
        auto flat = imp->flattenModel(m); issues("flatten", imp);
        auto pr = Printer::create();
        auto target = flat ? flat : m;
        if (flat) std::cout << pr->printModel(flat) << "\n";
        auto a = Analyser::create(); a->analyseModel(target); issues("analyser", a);
        std::cout << "type " << AnalyserModel::typeAsString(a->model()->type()) << "\n";
        auto g = Generator::create(); g->setModel(a->model());
        std::cout << g->implementationCode() << "\n";
    }
    return 0;
}
