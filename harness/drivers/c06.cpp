// C06: flattening yields an import-free model with the same meaning.
// The same semantic system is rendered as an import hierarchy of several files (subtrees of the component tree moved
// into library files, recursively; units defined in every file or imported from a units library; units referenced only
// from cn elements); the root is parsed, resolved and flattened; the flat model must have no imports, validate with zero
// issues and - analysed, generated (C and Python) and run - give the reference values of the semantic model; the model
// passed in and the importer's library models must be left unchanged.
#include "semjudge.h"
#include "vh.h"

#include <algorithm>
#include <sys/stat.h>

using namespace vh;

int64_t vh_case_count(const std::string &tier, uint64_t)
{
    return tier == "thorough" ? 8000 : 600;
}

struct FileSet
{
    std::vector<std::pair<std::string, IrModel>> files; // name -> model; files[0] is the root
    int importedSubtrees = 0;
    int depth = 0;
    bool unitsLib = false;
    bool cnOnlyUnits = false;
};

// structural class of a before/after difference reported by firstDiff()
static std::string changeClass(const std::string &diff)
{
    size_t a = diff.find("A[");
    size_t b = diff.find("] B[");
    if (a == std::string::npos || b == std::string::npos) {
        return "other";
    }
    std::string la = diff.substr(a + 2, b - a - 2);
    std::string lb = diff.substr(b + 4);
    auto unitsOf = [](const std::string &l) {
        size_t p = l.find(" units=\"");
        if (p == std::string::npos) {
            return std::string();
        }
        size_t e = l.find('"', p + 8);
        return l.substr(p + 8, e - p - 8);
    };
    if (la.find("variable \"") != std::string::npos && lb.find("variable \"") != std::string::npos) {
        std::string ua = unitsOf(la);
        std::string ub = unitsOf(lb);
        if (!ua.empty() && ub.size() > ua.size() && ub.compare(0, ua.size(), ua) == 0 && ub[ua.size()] == '_') {
            return "variable-units-renamed";
        }
        return "variable";
    }
    std::string kw = trim(la).substr(0, trim(la).find(' '));
    return kw.empty() ? "other" : kw;
}

static std::vector<int> subtree(const IrModel &ir, int root)
{
    std::vector<int> out = {root};
    for (size_t i = 0; i < out.size(); ++i) {
        for (int k : ir.comps[static_cast<size_t>(out[i])].children) {
            out.push_back(k);
        }
    }
    return out;
}

// Builds the file for `members` (indices into flat.comps; tops = those whose parent is outside the file) and recursively
// moves some subtrees into further files.
static void emitFile(const IrModel &flat, const std::string &fileName, const std::vector<int> &tops, const std::map<int, std::string> &rename, Rng &rng, double importProb, int depth, FileSet &fs, bool useUnitsLib)
{
    size_t slot = fs.files.size();
    fs.files.emplace_back(fileName, IrModel());
    fs.depth = std::max(fs.depth, depth);
    IrModel f;
    f.name = "model_" + std::to_string(slot);
    // which members are present in this file, which are replaced by imports
    std::vector<int> present;
    std::map<int, int> importOf; // flat comp index -> import index in f
    std::function<void(int, bool)> visit = [&](int c, bool isTop) {
        bool canImport = depth < 3 && !(depth == 0 && false);
        if (!isTop && canImport && rng.chance(importProb)) {
            // move the subtree at c into its own file
            std::string child = "lib_d" + std::to_string(depth + 1) + "_c" + std::to_string(c) + ".cellml";
            IrImport im;
            im.url = child;
            f.imports.push_back(im);
            importOf[c] = static_cast<int>(f.imports.size()) - 1;
            present.push_back(c);
            std::map<int, std::string> rn;
            rn[c] = "src_" + flat.comps[static_cast<size_t>(c)].name;
            ++fs.importedSubtrees;
            emitFile(flat, child, {c}, rn, rng, importProb * 0.6, depth + 1, fs, false);
            return;
        }
        present.push_back(c);
        for (int k : flat.comps[static_cast<size_t>(c)].children) {
            visit(k, false);
        }
    };
    for (int t : tops) {
        if (depth == 0 && rng.chance(importProb)) {
            // a top-level component of the root imported as a whole
            std::string child = "lib_d1_c" + std::to_string(t) + ".cellml";
            IrImport im;
            im.url = child;
            f.imports.push_back(im);
            importOf[t] = static_cast<int>(f.imports.size()) - 1;
            present.push_back(t);
            std::map<int, std::string> rn;
            rn[t] = "src_" + flat.comps[static_cast<size_t>(t)].name;
            ++fs.importedSubtrees;
            emitFile(flat, child, {t}, rn, rng, importProb * 0.6, depth + 1, fs, false);
        } else {
            visit(t, true);
        }
    }
    // components of this file
    std::map<int, int> localIndex;
    for (int c : present) {
        localIndex[c] = static_cast<int>(f.comps.size());
        IrComponent nc;
        const auto &src = flat.comps[static_cast<size_t>(c)];
        auto rn = rename.find(c);
        nc.name = rn != rename.end() ? rn->second : src.name;
        if (importOf.count(c) != 0U) {
            nc.import = importOf[c];
            nc.importRef = "src_" + src.name;
        } else {
            nc.vars = src.vars;
            nc.math = src.math;
        }
        f.comps.push_back(nc);
    }
    for (int c : present) {
        int p = flat.comps[static_cast<size_t>(c)].parent;
        if (p >= 0 && localIndex.count(p) != 0U) {
            f.comps[static_cast<size_t>(localIndex[c])].parent = localIndex[p];
            f.comps[static_cast<size_t>(localIndex[p])].children.push_back(localIndex[c]);
        }
    }
    // connections between present components; placeholders on imported sides
    for (const auto &cn : flat.conns) {
        if (localIndex.count(cn.c1) == 0U || localIndex.count(cn.c2) == 0U) {
            continue;
        }
        // a connection wholly inside an imported subtree belongs to that subtree's file: here both ends are present
        // only if each is either local or the ROOT of an imported subtree
        IrConnection nc;
        nc.c1 = localIndex[cn.c1];
        nc.c2 = localIndex[cn.c2];
        nc.maps = cn.maps;
        for (const auto &mp : cn.maps) {
            for (int side = 0; side < 2; ++side) {
                int li = side == 0 ? nc.c1 : nc.c2;
                const std::string &vn = side == 0 ? mp.v1 : mp.v2;
                auto &comp = f.comps[static_cast<size_t>(li)];
                if (comp.import >= 0) {
                    bool have = false;
                    for (const auto &v : comp.vars) {
                        have = have || v.name == vn;
                    }
                    if (!have) {
                        IrVariable ph;
                        ph.name = vn;
                        comp.vars.push_back(ph);
                    }
                }
            }
        }
        f.conns.push_back(nc);
    }
    // units: every file defines the user units its local variables / cn elements use; the root may import them instead
    std::set<std::string> needed;
    for (const auto &c : f.comps) {
        if (c.import >= 0) {
            continue;
        }
        for (const auto &v : c.vars) {
            needed.insert(v.units);
        }
        std::function<void(const ExprP &)> cnUnits = [&](const ExprP &e) {
            if (e == nullptr) {
                return;
            }
            if (e->op == Op::CN) {
                needed.insert(e->cnUnits);
            }
            for (const auto &k : e->kids) {
                cnUnits(k);
            }
        };
        for (const auto &mm : c.math) {
            for (const auto &e : mm) {
                cnUnits(e);
            }
        }
    }
    // sometimes also define units nobody here needs (name clashes on flattening)
    for (const auto &u : flat.units) {
        if (rng.chance(0.3)) {
            needed.insert(u.name);
        }
    }
    // close `needed` under "is defined through"
    for (int round = 0; round < 4; ++round) {
        for (const auto &u : flat.units) {
            if (needed.count(u.name) != 0U) {
                for (const auto &k : u.units) {
                    needed.insert(k.ref);
                }
            }
        }
    }
    bool importUnits = useUnitsLib && depth == 0;
    int unitsImport = -1;
    for (const auto &u : flat.units) {
        if (needed.count(u.name) == 0U) {
            continue;
        }
        IrUnits nu = u;
        if (importUnits && rng.chance(0.6)) {
            if (unitsImport < 0) {
                IrImport im;
                im.url = "units_lib.cellml";
                f.imports.push_back(im);
                unitsImport = static_cast<int>(f.imports.size()) - 1;
            }
            nu.units.clear();
            nu.import = unitsImport;
            nu.importRef = u.name;
            fs.unitsLib = true;
        }
        f.units.push_back(nu);
    }
    // interfaces are those required in the ASSEMBLED model (a library component's variables must already offer the
    // interface its importers connect through); they were computed on the flat rendering and copied with the variables
    fs.files[slot].second = f;
}

static FileSet split(const IrModel &flat, Rng &rng)
{
    FileSet fs;
    std::vector<int> tops;
    for (size_t i = 0; i < flat.comps.size(); ++i) {
        if (flat.comps[i].parent < 0) {
            tops.push_back(static_cast<int>(i));
        }
    }
    bool useUnitsLib = rng.chance(0.4) && !flat.units.empty();
    emitFile(flat, "root.cellml", tops, {}, rng, rng.pick(std::vector<double>{0.3, 0.6, 0.9}), 0, fs, useUnitsLib);
    if (fs.unitsLib) {
        IrModel ul;
        ul.name = "units_library";
        ul.units = flat.units;
        fs.files.emplace_back("units_lib.cellml", ul);
    }
    return fs;
}

void vh_run_case(Ctx &ctx)
{
    Rng &rng = ctx.rng;
    SemOptions so;
    so.maxComponents = rng.range(2, 6);
    so.constants = rng.range(1, 4);
    so.computedConstants = rng.range(0, 3);
    so.ode = rng.chance(0.75);
    so.states = rng.range(1, 3);
    so.algebraics = rng.range(0, 4);
    so.nla = rng.chance(0.2);
    so.nlaDense = true;
    so.scaledUnits = rng.chance(0.7);
    so.exprDepth = rng.range(1, 2);
    so.initByConstant = false; // (a C03 known finding would mask everything downstream)
    SemModel m = generateSemModel(rng, so);
    IrModel flatIr = semToIr(m);
    // units referenced only from cn elements: give some literals a user unit of the model
    bool cnOnly = false;
    if (!flatIr.units.empty() && rng.chance(0.5)) {
        for (auto &c : flatIr.comps) {
            for (auto &mm : c.math) {
                for (auto &e : mm) {
                    std::function<void(const ExprP &)> tag = [&](const ExprP &x) {
                        if (x->op == Op::CN && rng.chance(0.3)) {
                            x->cnUnits = rng.pick(flatIr.units).name;
                            cnOnly = true;
                        }
                        for (const auto &k : x->kids) {
                            tag(k);
                        }
                    };
                    e = cloneExpr(e);
                    tag(e);
                }
            }
        }
    }
    // units defined through other user units (the flattener has to bring the whole chain along)
    bool chains = false;
    if (!flatIr.units.empty() && rng.chance(0.5)) {
        size_t n = flatIr.units.size();
        for (size_t i = 0; i < n; ++i) {
            if (!rng.chance(0.6)) {
                continue;
            }
            IrUnits base;
            base.name = flatIr.units[i].name + "_base";
            IrUnit k;
            k.ref = flatIr.units[i].units[0].ref;
            base.units.push_back(k);
            flatIr.units[i].units[0].ref = base.name; // prefix / multiplier stay on an exponent-1 child
            flatIr.units.push_back(base);
            chains = true;
        }
    }
    FileSet fs = split(flatIr, rng);
    fs.cnOnlyUnits = cnOnly;
    std::string dir = scratchDir() + "/c06_" + std::to_string(ctx.index);
    mkdir(dir.c_str(), 0777);
    std::string replay;
    for (const auto &f : fs.files) {
        std::string text = writeCellml2(f.second, WriteStyle());
        writeFile(dir + "/" + f.first, text);
        replay += "<!-- ===== file " + f.first + " ===== -->\n" + text + "\n";
    }
    std::string shape = "files=" + std::to_string(fs.files.size()) + " imported-subtrees=" + std::to_string(fs.importedSubtrees) + " depth=" + std::to_string(fs.depth) + (fs.unitsLib ? " units-lib" : "") + (cnOnly ? " cn-units" : "");
    std::string tagFeatures = std::string(fs.unitsLib ? "+units-lib" : "") + (chains ? "+units-chains" : "") + (cnOnly ? "+cn-units" : "") + (fs.depth >= 2 ? "+nested-imports" : "");
    seen("hierarchy_shape", "files" + std::to_string(std::min<size_t>(fs.files.size(), 6)) + "-depth" + std::to_string(fs.depth) + tagFeatures);

    auto parser = Parser::create(true);
    auto root = parser->parseModel(readFile(dir + "/root.cellml"));
    if (root == nullptr || parser->issueCount() != 0) {
        viol("C06", "harness:root-not-parsed", issueSummary(*parser), replay);
        caseInfo("", false);
        return;
    }
    // every source file validates on its own (precondition of the validity claim)
    bool sourcesValid = true;
    for (const auto &f : fs.files) {
        auto pm = Parser::create(true)->parseModel(readFile(dir + "/" + f.first));
        auto v = Validator::create();
        v->validateModel(pm);
        if (v->issueCount() != 0) {
            sourcesValid = false;
            note("source file " + f.first + " does not validate: " + issueSummary(*v, 3));
        }
    }
    if (!root->hasImports()) {
        // nothing was imported in this draw: still a legitimate (trivial) flatten
        stat("trivial_hierarchies");
    }
    auto importer = Importer::create(true);
    stage("resolveImports " + shape);
    bool ok = importer->resolveImports(root, dir + "/");
    monitorLogger(*importer, "Importer::resolveImports", replay);
    if (!ok || root->hasUnresolvedImports()) {
        // resolution of a resolvable hierarchy is C07's property
        viol("C07", std::string("resolvable-hierarchy-not-resolved") + tagFeatures, issueSummary(*importer), replay);
        stat("not_resolved");
        caseInfo("", false);
        return;
    }
    DumpOptions deep;
    deep.importedModels = true;
    std::string rootBefore = dumpModel(root, deep);
    std::vector<std::string> libBefore;
    for (size_t i = 0; i < importer->libraryCount(); ++i) {
        libBefore.push_back(dumpModel(importer->library(i), deep));
    }
    stage("flattenModel " + shape);
    auto flat = importer->flattenModel(root);
    monitorLogger(*importer, "Importer::flattenModel", replay);
    stat("flatten_calls");
    if (flat == nullptr) {
        monitorExplained(true, *importer, "Importer::flattenModel", replay);
        viol("C06", "flatten-null-for-resolved-hierarchy" + tagFeatures, issueSummary(*importer), replay);
        caseInfo("F" + hex64(fnv1a(shape)), true, shape + " -> null");
        return;
    }
    if (dumpModel(root, deep) != rootBefore) {
        viol("C06", "flatten-changed-input-model:" + changeClass(firstDiff(rootBefore, dumpModel(root, deep))) + tagFeatures, firstDiff(rootBefore, dumpModel(root, deep)), replay);
    }
    for (size_t i = 0; i < importer->libraryCount() && i < libBefore.size(); ++i) {
        if (dumpModel(importer->library(i), deep) != libBefore[i]) {
            viol("C06", "flatten-changed-library-model:" + changeClass(firstDiff(libBefore[i], dumpModel(importer->library(i), deep))) + tagFeatures, importer->key(i) + ": " + firstDiff(libBefore[i], dumpModel(importer->library(i), deep)), replay);
        }
    }
    if (flat->hasImports()) {
        viol("C06", "flat-model-has-imports" + tagFeatures, "", replay);
    }
    auto validator = Validator::create();
    validator->validateModel(flat);
    monitorLogger(*validator, "Validator::validateModel(flat)", replay);
    std::string flatText = Printer::create()->printModel(flat);
    if (sourcesValid && validator->issueCount() != 0) {
        viol("C06", "flat-model-invalid:" + ruleName(validator->issue(0)->referenceRule()) + tagFeatures, issueSummary(*validator) + "\nflattened:\n" + truncateForLog(flatText, 3000), replay);
        caseInfo("F" + hex64(fnv1a(shape)), true, shape + " -> invalid flat model");
        return;
    }
    stat("flat_models_valid");
    // every component of the flat rendering is present in the flattened model, under its (instance) name
    std::set<std::string> flatNames;
    for (const auto &c : allComponents(flat)) {
        flatNames.insert(c->name());
    }
    for (const auto &c : flatIr.comps) {
        if (flatNames.count(c.name) == 0U) {
            viol("C06", "component-missing-after-flatten" + tagFeatures, c.name, replay + "\nflattened:\n" + truncateForLog(flatText, 3000));
        }
    }
    // same values
    std::vector<SemPoint> points;
    points.push_back(initialPoint(m));
    for (int p = 1; p < 3 && m.voi >= 0; ++p) {
        SemPoint pt = initialPoint(m);
        pt.voi = p == 1 ? 0.7 : 2.3;
        for (auto &s : pt.stateValues) {
            s = s * (p == 1 ? 1.3 : 0.6) + (p == 1 ? 0.21 : -0.17);
        }
        points.push_back(pt);
    }
    std::vector<std::string> labels(m.q.size());
    for (size_t i = 0; i < m.q.size(); ++i) {
        labels[i] = std::string(qkindName(m.q[i].kind)) + tagFeatures;
    }
    Judged jd;
    judgeModel(ctx, "C06", m, flat, replay + "\n<!-- ===== flattened ===== -->\n" + flatText, labels, points, "flattened" + tagFeatures + " " + shape, jd);
    stat("values_compared", jd.compared);
    stat("imported_subtrees", fs.importedSubtrees);
    caseInfo("F" + hex64(fnv1a(replay)), fs.importedSubtrees > 0, shape + " q=" + std::to_string(m.q.size()));
}
