#!/usr/bin/env python3
"""Runs checks against a seeded change:  tools/seedtest.py <seeded name> [check ids...] [--tier quick|thorough]

Applies /verif/seeded/<name>/patch.diff to /repo itself (git apply), runs the named checks (default: the property
the change was written for) with --no-evidence, records exit codes and new violation keys in
/verif/seeded/<name>/result.json and restores /repo (git checkout -- .) whatever happens."""
import json
import os
import subprocess
import sys
import time

VERIF = os.path.dirname(os.path.dirname(os.path.abspath(__file__)))


def main():
    args = [a for a in sys.argv[1:] if not a.startswith("--")]
    tier = "quick"
    if "--tier" in sys.argv:
        tier = sys.argv[sys.argv.index("--tier") + 1]
        args = [a for a in args if a != tier]
    name = args[0]
    d = os.path.join(VERIF, "seeded", name)
    meta = json.load(open(os.path.join(d, "meta.json")))
    checks = args[1:] or [meta["property"]]
    dirty = subprocess.run(["git", "-C", "/repo", "status", "--porcelain", "--untracked-files=no"], stdout=subprocess.PIPE).stdout.decode().strip()
    if dirty:
        print("refusing: /repo has uncommitted changes to tracked files:\n" + dirty)
        return 2
    results = {}
    try:
        subprocess.run(["git", "-C", "/repo", "apply", os.path.join(d, "patch.diff")], check=True)
        for c in checks:
            t0 = time.time()
            env = dict(os.environ)
            env["VERIF_BRIEF"] = "1"
            r = subprocess.run([os.path.join(VERIF, "check"), c, "--tier", tier, "--no-evidence"], cwd=VERIF, env=env,
                               stdout=subprocess.PIPE, stderr=subprocess.STDOUT)
            out = r.stdout.decode(errors="replace")
            keys = [l.strip()[5:] for l in out.splitlines() if l.strip().startswith("key: ")]
            results[c] = {"exit": r.returncode, "tier": tier, "violation_keys": keys[:25], "n_violation_keys": len(keys),
                          "wall_s": round(time.time() - t0, 1), "summary": out.strip().splitlines()[-1] if out.strip() else ""}
            print("%s on seeded %s: exit %d, %d new violation keys (%.0fs)" % (c, name, r.returncode, len(keys), time.time() - t0))
            for k in keys[:6]:
                print("    " + k)
    finally:
        subprocess.run(["git", "-C", "/repo", "checkout", "--", "."])
    path = os.path.join(d, "result.json")
    old = {}
    if os.path.exists(path):
        old = json.load(open(path))
    old.update(results)
    json.dump(old, open(path, "w"), indent=1)
    return 0


if __name__ == "__main__":
    sys.exit(main())
