// C10: equals() is an equivalence relation that sees every covered attribute.
// Oracle by construction: B is rebuilt from the IR (never via clone()) as a copy, a child-order permutation, or A with
// exactly one covered mutation.
#include "gen.h"
#include "vh.h"

#include <algorithm>
#include <cmath>

using namespace vh;

int64_t vh_case_count(const std::string &tier, uint64_t)
{
    return tier == "thorough" ? 300000 : 20000;
}

// ---- mutations ----
struct Mutation
{
    std::string name;       // catalogue name
    std::string kind;       // entity kind mutated: model|component|variable|units|unit|reset|importsource
    int comp = -1;          // component index (for component/variable/reset)
    int idx = -1;           // variable / reset / units index
    bool ok = false;
};

static std::string bump(const std::string &numText)
{
    double v = strtod(numText.c_str(), nullptr);
    double w = v + 4.0; // always different from v by far more than an ulp
    char buf[64];
    snprintf(buf, sizeof buf, "%.17g", w);
    return buf;
}

static void renameVariable(IrModel &m, int ci, const std::string &oldName, const std::string &newName)
{
    auto &c = m.comps[static_cast<size_t>(ci)];
    for (auto &v : c.vars) {
        if (v.name == oldName) {
            v.name = newName;
        }
        if (v.init == oldName) {
            v.init = newName; // keep "initialised by variable" pointing at the same variable
        }
    }
    for (auto &r : c.resets) {
        if (r.var == oldName) {
            r.var = newName;
        }
        if (r.testVar == oldName) {
            r.testVar = newName;
        }
    }
    for (auto &cn : m.conns) {
        for (auto &mp : cn.maps) {
            if (cn.c1 == ci && mp.v1 == oldName) {
                mp.v1 = newName;
            }
            if (cn.c2 == ci && mp.v2 == oldName) {
                mp.v2 = newName;
            }
        }
    }
}

static std::vector<int> localComps(const IrModel &m)
{
    std::vector<int> out;
    for (size_t i = 0; i < m.comps.size(); ++i) {
        if (m.comps[i].import < 0) {
            out.push_back(static_cast<int>(i));
        }
    }
    return out;
}

static Mutation mutate(IrModel &m, Rng &rng)
{
    static const std::vector<std::string> names = {
        "model.id", "model.name", "model.encid", "component.id", "component.name", "component.encid", "component.math", "component.import-url",
        "component.import-ref", "component.add-child", "component.remove-leaf", "variable.id", "variable.name", "variable.units", "variable.init",
        "variable.iface", "variable.add", "variable.remove", "reset.id", "reset.order", "reset.var", "reset.testvar", "reset.testvalue",
        "reset.resetvalue", "reset.tvid", "reset.rvid", "reset.add", "reset.remove", "units.id", "units.name", "units.import-ref", "units.add",
        "units.remove", "unit.ref", "unit.prefix", "unit.exp", "unit.mult", "unit.id", "unit.add", "unit.remove", "importsource.id",
        "component.wrap-in-new-parent", "component.dangling-import-ref", "units.dangling-import-ref"};
    for (int attempt = 0; attempt < 60; ++attempt) {
        Mutation mu;
        mu.name = rng.pick(names);
        mu.kind = mu.name.substr(0, mu.name.find('.'));
        const std::string &n = mu.name;
        auto lc = localComps(m);
        if (n == "model.id") {
            m.id += "X";
        } else if (n == "model.name") {
            m.name += "X";
        } else if (n == "model.encid") {
            m.encId += "X";
        } else if (mu.kind == "component") {
            if (m.comps.empty()) {
                continue;
            }
            int ci = static_cast<int>(rng.below(m.comps.size()));
            auto &c = m.comps[static_cast<size_t>(ci)];
            mu.comp = ci;
            if (n == "component.id") {
                c.id += "X";
            } else if (n == "component.name") {
                c.name += "X";
            } else if (n == "component.encid") {
                c.encId += "X";
            } else if (n == "component.math") {
                if (c.import >= 0) {
                    continue;
                }
                std::vector<std::string> vn;
                for (const auto &v : c.vars) {
                    vn.push_back(v.name);
                }
                if (!c.math.empty() && rng.chance(0.5)) {
                    if (rng.chance(0.5)) {
                        c.math.pop_back();
                    } else {
                        c.math.back().push_back(mkOp(Op::EQ, {mkCn("1"), mkCn("2")}));
                    }
                } else {
                    c.math.push_back({mkOp(Op::EQ, {mkCn("3"), mkCn("4")})});
                }
            } else if (n == "component.import-url") {
                if (c.import < 0) {
                    continue;
                }
                // give this component a source of its own with another url
                IrImport im = m.imports[static_cast<size_t>(c.import)];
                im.url += "x";
                m.imports.push_back(im);
                c.import = static_cast<int>(m.imports.size()) - 1;
            } else if (n == "component.import-ref") {
                if (c.import < 0) {
                    continue;
                }
                c.importRef += "X";
            } else if (n == "component.dangling-import-ref") {
                // an import reference on a component that is not an import (e.g. left behind by setImportSource(nullptr))
                if (c.import >= 0) {
                    continue;
                }
                c.importRef += "dangling";
            } else if (n == "component.wrap-in-new-parent") {
                // c (with its subtree) becomes the only child of a new component that takes c's place: the number of
                // children of c's old container is unchanged, c itself is found one level deeper
                IrComponent w;
                w.name = "wrapper_of_" + c.name;
                w.parent = c.parent;
                int wi = static_cast<int>(m.comps.size());
                int oldParent = c.parent;
                m.comps.push_back(w);
                auto &cc = m.comps[static_cast<size_t>(ci)]; // (push_back may have reallocated)
                cc.parent = wi;
                m.comps[static_cast<size_t>(wi)].children.push_back(ci);
                if (oldParent >= 0) {
                    for (auto &k : m.comps[static_cast<size_t>(oldParent)].children) {
                        if (k == ci) {
                            k = wi;
                        }
                    }
                }
                // connections of c to its former siblings/parent are no longer representable: equality ignores them
                m.conns.erase(std::remove_if(m.conns.begin(), m.conns.end(), [&](const IrConnection &cn) { return cn.c1 == ci || cn.c2 == ci; }), m.conns.end());
                mu.comp = oldParent;
                mu.kind = oldParent >= 0 ? "component" : "model";
            } else if (n == "component.add-child") {
                IrComponent k;
                k.name = "added_child";
                k.parent = ci;
                m.comps.push_back(k);
                m.comps[static_cast<size_t>(ci)].children.push_back(static_cast<int>(m.comps.size()) - 1);
            } else if (n == "component.remove-leaf") {
                // remove the LAST component if it is a leaf (keeps indices stable)
                int last = static_cast<int>(m.comps.size()) - 1;
                if (last < 1 || !m.comps[static_cast<size_t>(last)].children.empty()) {
                    continue;
                }
                int par = m.comps[static_cast<size_t>(last)].parent;
                if (par >= 0) {
                    auto &ch = m.comps[static_cast<size_t>(par)].children;
                    ch.erase(std::remove(ch.begin(), ch.end(), last), ch.end());
                }
                m.conns.erase(std::remove_if(m.conns.begin(), m.conns.end(), [&](const IrConnection &cn) { return cn.c1 == last || cn.c2 == last; }), m.conns.end());
                m.comps.pop_back();
                mu.comp = par; // the container that lost a child (-1 = model)
                mu.kind = par >= 0 ? "component" : "model";
            }
        } else if (mu.kind == "variable") {
            if (lc.empty()) {
                continue;
            }
            int ci = rng.pick(lc);
            auto &c = m.comps[static_cast<size_t>(ci)];
            mu.comp = ci;
            if (n == "variable.add") {
                IrVariable v;
                v.name = "added_var";
                v.units = "second";
                c.vars.push_back(v);
                mu.kind = "component";
            } else {
                if (c.vars.empty()) {
                    continue;
                }
                int vi = static_cast<int>(rng.below(c.vars.size()));
                mu.idx = vi;
                auto &v = c.vars[static_cast<size_t>(vi)];
                if (n == "variable.id") {
                    v.id += "X";
                } else if (n == "variable.name") {
                    renameVariable(m, ci, v.name, v.name + "X");
                } else if (n == "variable.units") {
                    v.units = v.units == "ampere" ? "candela" : "ampere";
                } else if (n == "variable.init") {
                    v.init = v.init.empty() ? "42" : "";
                } else if (n == "variable.iface") {
                    v.iface = v.iface == "public" ? "private" : "public";
                } else if (n == "variable.remove") {
                    // only the last variable, and only if unreferenced, to keep the rest identical
                    vi = static_cast<int>(c.vars.size()) - 1;
                    std::string nm = c.vars.back().name;
                    bool used = false;
                    for (const auto &r : c.resets) {
                        used = used || r.var == nm || r.testVar == nm;
                    }
                    for (const auto &cn : m.conns) {
                        for (const auto &mp : cn.maps) {
                            used = used || (cn.c1 == ci && mp.v1 == nm) || (cn.c2 == ci && mp.v2 == nm);
                        }
                    }
                    for (const auto &o : c.vars) {
                        used = used || o.init == nm;
                    }
                    if (used) {
                        continue;
                    }
                    c.vars.pop_back();
                    mu.kind = "component";
                    mu.idx = -1;
                }
            }
        } else if (mu.kind == "reset") {
            if (lc.empty()) {
                continue;
            }
            int ci = rng.pick(lc);
            auto &c = m.comps[static_cast<size_t>(ci)];
            mu.comp = ci;
            if (n == "reset.add") {
                if (c.vars.empty()) {
                    continue;
                }
                IrReset r;
                r.order = 1000;
                r.var = c.vars[0].name;
                r.testVar = c.vars[0].name;
                r.testValue = mkCn("1");
                r.resetValue = mkCn("2");
                c.resets.push_back(r);
                mu.kind = "component";
            } else {
                if (c.resets.empty()) {
                    continue;
                }
                if (n == "reset.remove") {
                    c.resets.pop_back();
                    mu.kind = "component";
                } else {
                    int ri = static_cast<int>(rng.below(c.resets.size()));
                    mu.idx = ri;
                    auto &r = c.resets[static_cast<size_t>(ri)];
                    if (n == "reset.id") {
                        r.id += "X";
                    } else if (n == "reset.order") {
                        r.order += 500;
                    } else if (n == "reset.var" || n == "reset.testvar") {
                        std::string &slot = n == "reset.var" ? r.var : r.testVar;
                        std::string other;
                        for (const auto &v : c.vars) {
                            if (v.name != slot) {
                                other = v.name;
                            }
                        }
                        if (other.empty()) {
                            continue;
                        }
                        slot = other;
                    } else if (n == "reset.testvalue") {
                        r.testValue = mkOp(Op::PLUS, {r.testValue, mkCn("1")});
                    } else if (n == "reset.resetvalue") {
                        r.resetValue = mkOp(Op::PLUS, {r.resetValue, mkCn("1")});
                    } else if (n == "reset.tvid") {
                        r.tvId += "X";
                    } else if (n == "reset.rvid") {
                        r.rvId += "X";
                    }
                }
            }
        } else if (mu.kind == "units" || mu.kind == "unit") {
            if (n == "units.add") {
                IrUnits u;
                u.name = "added_units";
                m.units.push_back(u);
                mu.kind = "model";
            } else {
                if (m.units.empty()) {
                    continue;
                }
                if (n == "units.remove") {
                    // only if the last units is unreferenced
                    std::string nm = m.units.back().name;
                    bool used = false;
                    for (const auto &u : m.units) {
                        for (const auto &k : u.units) {
                            used = used || k.ref == nm;
                        }
                    }
                    for (const auto &c : m.comps) {
                        for (const auto &v : c.vars) {
                            used = used || v.units == nm;
                        }
                    }
                    if (used) {
                        continue;
                    }
                    m.units.pop_back();
                    mu.kind = "model";
                } else {
                    int ui = static_cast<int>(rng.below(m.units.size()));
                    mu.idx = ui;
                    auto &u = m.units[static_cast<size_t>(ui)];
                    if (n == "units.id") {
                        u.id += "X";
                    } else if (n == "units.name") {
                        // rename only if nothing refers to it (variables hold units by name)
                        bool used = false;
                        for (const auto &o : m.units) {
                            for (const auto &k : o.units) {
                                used = used || k.ref == u.name;
                            }
                        }
                        for (const auto &c : m.comps) {
                            for (const auto &v : c.vars) {
                                used = used || v.units == u.name;
                            }
                        }
                        if (used) {
                            continue;
                        }
                        u.name += "X";
                    } else if (n == "units.dangling-import-ref") {
                        if (u.import >= 0) {
                            continue;
                        }
                        u.importRef += "dangling";
                    } else if (n == "units.import-ref") {
                        if (u.import < 0) {
                            continue;
                        }
                        u.importRef += "X";
                    } else if (n == "unit.add") {
                        if (u.import >= 0) {
                            continue;
                        }
                        IrUnit k;
                        k.ref = "candela";
                        u.units.push_back(k);
                        mu.kind = "units";
                    } else {
                        if (u.units.empty()) {
                            continue;
                        }
                        if (n == "unit.remove") {
                            u.units.pop_back();
                            mu.kind = "units";
                        } else {
                            auto &k = u.units[rng.below(u.units.size())];
                            if (n == "unit.ref") {
                                k.ref = k.ref == "ampere" ? "candela" : "ampere";
                            } else if (n == "unit.prefix") {
                                k.prefix = (k.prefix.empty() || k.prefix == "0") ? "kilo" : ((k.prefix == "mega" || k.prefix == "6") ? "milli" : "mega");
                            } else if (n == "unit.exp") {
                                k.exp = k.hasExp ? bump(k.exp) : "3";
                                k.hasExp = true;
                            } else if (n == "unit.mult") {
                                k.mult = k.hasMult ? bump(k.mult) : "7";
                                k.hasMult = true;
                            } else if (n == "unit.id") {
                                k.id += "X";
                            }
                            mu.kind = "units";
                        }
                    }
                }
            }
        } else if (n == "importsource.id") {
            // an import source used by exactly... any used import: give it another id
            std::vector<int> used;
            for (size_t i = 0; i < m.imports.size(); ++i) {
                for (const auto &c : m.comps) {
                    if (c.import == static_cast<int>(i)) {
                        used.push_back(static_cast<int>(i));
                    }
                }
                for (const auto &u : m.units) {
                    if (u.import == static_cast<int>(i)) {
                        used.push_back(static_cast<int>(i));
                    }
                }
            }
            if (used.empty()) {
                continue;
            }
            mu.idx = rng.pick(used);
            m.imports[static_cast<size_t>(mu.idx)].id += "X";
        }
        mu.ok = true;
        return mu;
    }
    return Mutation();
}

// ---- comparisons ----
struct Cmp
{
    std::string replay;
    int checks = 0;
};

static void expectEq(Cmp &c, const EntityPtr &a, const EntityPtr &b, bool expect, const std::string &kind, const std::string &why)
{
    if (a == nullptr || b == nullptr) {
        return;
    }
    ++c.checks;
    bool ab = a->equals(b);
    bool ba = b->equals(a);
    if (ab != ba) {
        viol("C10", "equals-asym:" + kind + ":" + why, "a.equals(b)=" + std::to_string(ab) + " b.equals(a)=" + std::to_string(ba) + " expected " + std::to_string(expect), c.replay);
        return;
    }
    if (ab != expect) {
        viol("C10", std::string(expect ? "equals-false-on-" : "equals-missed:") + kind + ":" + why, "both directions returned " + std::to_string(ab) + ", expected " + std::to_string(expect), c.replay);
    }
}

static std::vector<ComponentPtr> compsByIr(const ModelPtr &m, const IrModel &ir)
{
    std::vector<ComponentPtr> out;
    for (const auto &c : ir.comps) {
        out.push_back(m->component(c.name, true));
    }
    return out;
}

void vh_run_case(Ctx &ctx)
{
    Rng &rng = ctx.rng;
    GenOptions go;
    go.maxComponents = 5;
    go.mathProbability = 0.4;
    IrModel ir = generateModel(rng, go);
    // structurally identical siblings: duplicate a leaf units definition and a variable-free component shape sometimes
    int mode = rng.range(0, 9);
    bool twins = mode >= 5 && rng.chance(0.12);
    int twinParent = -1;
    if (twins) {
        // structurally identical siblings: two identical leaf components in one container
        twinParent = rng.chance(0.5) ? -1 : static_cast<int>(rng.below(ir.comps.size()));
        for (int k = 0; k < 2; ++k) {
            IrComponent t;
            t.name = "twin";
            t.parent = twinParent;
            ir.comps.push_back(t);
            if (twinParent >= 0) {
                ir.comps[static_cast<size_t>(twinParent)].children.push_back(static_cast<int>(ir.comps.size()) - 1);
            }
        }
    }
    // a child that occurs twice (an exact copy appended to its list: {x, y} -> {x, y, y}); the mutation then alters
    // the copy only ({x, y, z}): a matcher that lets one child of the other side serve twice calls the two equal
    int dupKind = -1; // 0 variable, 1 reset, 2 units of the model
    int dupComp = -1;
    if (!twins && mode >= 5 && rng.chance(0.15)) {
        std::vector<std::pair<int, int>> cands;
        for (size_t ci = 0; ci < ir.comps.size(); ++ci) {
            if (ir.comps[ci].import >= 0) {
                continue;
            }
            if (!ir.comps[ci].vars.empty()) {
                cands.emplace_back(0, static_cast<int>(ci));
            }
            if (!ir.comps[ci].resets.empty()) {
                cands.emplace_back(1, static_cast<int>(ci));
            }
        }
        for (const auto &u : ir.units) {
            if (u.import < 0) {
                cands.emplace_back(2, -1);
                break;
            }
        }
        if (!cands.empty()) {
            auto pick = rng.pick(cands);
            dupKind = pick.first;
            dupComp = pick.second;
            if (dupKind == 0) {
                auto &vs = ir.comps[static_cast<size_t>(dupComp)].vars;
                vs.push_back(vs[rng.below(vs.size())]);
            } else if (dupKind == 1) {
                auto &rs = ir.comps[static_cast<size_t>(dupComp)].resets;
                rs.push_back(rs[rng.below(rs.size())]);
            } else {
                std::vector<size_t> local;
                for (size_t ui = 0; ui < ir.units.size(); ++ui) {
                    if (ir.units[ui].import < 0) {
                        local.push_back(ui);
                    }
                }
                ir.units.push_back(ir.units[rng.pick(local)]);
            }
        }
    }
    ModelPtr A = buildApi(ir);
    Cmp cmp;
    cmp.replay = "IR of A:\n" + dumpIr(ir);

    // reflexivity at every level
    expectEq(cmp, A, A, true, "model", "reflexive");
    for (const auto &c : allComponents(A)) {
        expectEq(cmp, c, c, true, "component", "reflexive");
        for (size_t i = 0; i < c->variableCount(); ++i) {
            expectEq(cmp, c->variable(i), c->variable(i), true, "variable", "reflexive");
        }
        for (size_t i = 0; i < c->resetCount(); ++i) {
            expectEq(cmp, c->reset(i), c->reset(i), true, "reset", "reflexive");
        }
    }
    for (size_t i = 0; i < A->unitsCount(); ++i) {
        expectEq(cmp, A->units(i), A->units(i), true, "units", "reflexive");
    }

    std::string sample;
    if (mode <= 1) {
        // copy
        ModelPtr B = buildApi(ir);
        expectEq(cmp, A, B, true, "model", "copy");
        auto ca = compsByIr(A, ir);
        auto cb = compsByIr(B, ir);
        for (size_t i = 0; i < ca.size(); ++i) {
            expectEq(cmp, ca[i], cb[i], true, "component", "copy");
            if (ca[i] == nullptr || cb[i] == nullptr) {
                continue;
            }
            for (size_t k = 0; k < ca[i]->variableCount(); ++k) {
                expectEq(cmp, ca[i]->variable(k), cb[i]->variable(k), true, "variable", "copy");
            }
            for (size_t k = 0; k < ca[i]->resetCount(); ++k) {
                expectEq(cmp, ca[i]->reset(k), cb[i]->reset(k), true, "reset", "copy");
            }
            if (ca[i]->isImport()) {
                expectEq(cmp, ca[i]->importSource(), cb[i]->importSource(), true, "importsource", "copy");
            }
        }
        for (size_t i = 0; i < A->unitsCount(); ++i) {
            expectEq(cmp, A->units(i), B->units(i), true, "units", "copy");
        }
        sample = "copy";
        stat("copies");
    } else if (mode <= 4) {
        // permutation (+ transitivity through a second permutation)
        IrModel pir = permuteIr(ir, rng);
        ModelPtr B = buildApi(pir);
        cmp.replay += "\nIR of B (permutation):\n" + dumpIr(pir, [] { DumpOptions o; o.orderSensitive = true; return o; }());
        expectEq(cmp, A, B, true, "model", "permutation");
        for (const auto &c : ir.comps) {
            expectEq(cmp, A->component(c.name, true), B->component(c.name, true), true, "component", "permutation");
        }
        for (const auto &u : ir.units) {
            expectEq(cmp, A->units(u.name), B->units(u.name), true, "units", "permutation");
        }
        IrModel pir2 = permuteIr(pir, rng);
        ModelPtr C = buildApi(pir2);
        bool ab = A->equals(B);
        bool bc = B->equals(C);
        bool ac = A->equals(C);
        ++cmp.checks;
        if (ab && bc && !ac) {
            viol("C10", "equals-intransitive:model:permutations", "a=b, b=c but a!=c", cmp.replay);
        }
        sample = "permutation";
        stat("permutations");
    } else {
        IrModel mir = ir;
        Mutation mu;
        if (twins) {
            // alter ONE of the two identical siblings
            auto &t = mir.comps.back();
            int how = rng.range(0, 2);
            if (how == 0) {
                t.id = "altered";
            } else if (how == 1) {
                IrVariable v;
                v.name = "extra";
                v.units = "second";
                t.vars.push_back(v);
            } else {
                t.math.push_back({mkOp(Op::EQ, {mkCn("1"), mkCn("2")})});
            }
            mu.name = "identical-siblings.alter-one";
            mu.kind = twinParent >= 0 ? "component" : "model";
            mu.comp = twinParent;
            mu.ok = true;
        } else if (dupKind >= 0) {
            // alter the appended copy only
            int how = rng.range(0, 1);
            if (dupKind == 0) {
                auto &v = mir.comps[static_cast<size_t>(dupComp)].vars.back();
                if (how == 0) {
                    v.id = v.id + "_altered";
                } else {
                    v.init = v.init == "42" ? "43" : "42";
                }
            } else if (dupKind == 1) {
                auto &r = mir.comps[static_cast<size_t>(dupComp)].resets.back();
                if (how == 0) {
                    r.id = r.id + "_altered";
                } else {
                    r.hasOrder = true;
                    r.order += 7;
                }
            } else {
                auto &u = mir.units.back();
                if (how == 0) {
                    u.id = u.id + "_altered";
                } else {
                    IrUnit k;
                    k.ref = "candela";
                    u.units.push_back(k);
                }
            }
            mu.name = std::string("duplicated-child.alter-copy:") + (dupKind == 0 ? "variable" : (dupKind == 1 ? "reset" : "units"));
            mu.kind = dupKind == 2 ? "model" : "component";
            mu.comp = dupComp;
            mu.ok = true;
        } else {
            mu = mutate(mir, rng);
        }
        if (!mu.ok) {
            caseInfo(ir.structuralHash(), false);
            return;
        }
        ModelPtr B = buildApi(mir);
        cmp.replay += "\nmutation: " + mu.name + " comp=" + std::to_string(mu.comp) + " idx=" + std::to_string(mu.idx) + "\nIR of B:\n" + dumpIr(mir);
        seen("mutation", mu.name);
        stat("mutations");
        expectEq(cmp, A, B, false, "model", mu.name);
        // the mutated entity and its ancestors
        if (mu.comp >= 0 && mu.comp < static_cast<int>(ir.comps.size()) && mu.name != "component.name") {
            int ci = mu.comp;
            bool first = true;
            while (ci >= 0) {
                auto ca = A->component(ir.comps[static_cast<size_t>(ci)].name, true);
                auto cb = B->component(mir.comps[static_cast<size_t>(ci)].name, true);
                expectEq(cmp, ca, cb, false, first ? "component" : "ancestor-component", mu.name);
                if (first && ca != nullptr && cb != nullptr && mu.idx >= 0) {
                    if (mu.kind == "variable" && static_cast<size_t>(mu.idx) < ca->variableCount() && static_cast<size_t>(mu.idx) < cb->variableCount()) {
                        expectEq(cmp, ca->variable(static_cast<size_t>(mu.idx)), cb->variable(static_cast<size_t>(mu.idx)), false, "variable", mu.name);
                    }
                    if (mu.kind == "reset" && static_cast<size_t>(mu.idx) < ca->resetCount() && static_cast<size_t>(mu.idx) < cb->resetCount()) {
                        expectEq(cmp, ca->reset(static_cast<size_t>(mu.idx)), cb->reset(static_cast<size_t>(mu.idx)), false, "reset", mu.name);
                    }
                }
                first = false;
                ci = ir.comps[static_cast<size_t>(ci)].parent;
            }
        }
        if ((mu.kind == "units" || mu.kind == "unit") && mu.idx >= 0 && static_cast<size_t>(mu.idx) < A->unitsCount() && static_cast<size_t>(mu.idx) < B->unitsCount()) {
            expectEq(cmp, A->units(static_cast<size_t>(mu.idx)), B->units(static_cast<size_t>(mu.idx)), false, "units", mu.name);
        }
        // mutation seen through a permutation, and transitivity: A = P (permutation of A), B != A  =>  P != B
        IrModel pir = permuteIr(mir, rng);
        ModelPtr C = buildApi(pir);
        expectEq(cmp, A, C, false, "model", mu.name + "+permutation");
        ModelPtr P = buildApi(permuteIr(ir, rng));
        if (A->equals(P) && P->equals(A)) {
            ++cmp.checks;
            if (P->equals(B) || B->equals(P)) {
                viol("C10", "equals-intransitive:model:" + mu.name, "a=p, a!=b expected p!=b", cmp.replay);
            }
        }
        sample = "mutation " + mu.name;
    }
    stat("equals_pairs_checked", cmp.checks);
    caseInfo(ir.structuralHash() + sample, ir.featureCount() >= 2, sample + " units=" + std::to_string(ir.units.size()) + " comps=" + std::to_string(ir.comps.size()));
}
