#include "gen.h"

#include <algorithm>
#include <cmath>
#include <cstdlib>
#include <functional>
#include <set>

namespace vh {

const std::vector<std::string> kStandardUnits = {
    "ampere", "becquerel", "candela", "coulomb", "dimensionless", "farad", "gram", "gray", "henry", "hertz", "joule", "katal", "kelvin",
    "kilogram", "litre", "lumen", "lux", "metre", "mole", "newton", "ohm", "pascal", "radian", "second", "siemens", "sievert", "steradian",
    "tesla", "volt", "watt", "weber"};

const std::vector<std::pair<std::string, int>> kPrefixes = {
    {"yotta", 24}, {"zetta", 21}, {"exa", 18}, {"peta", 15}, {"tera", 12}, {"giga", 9}, {"mega", 6}, {"kilo", 3}, {"hecto", 2}, {"deca", 1},
    {"deci", -1}, {"centi", -2}, {"milli", -3}, {"micro", -6}, {"nano", -9}, {"pico", -12}, {"femto", -15}, {"atto", -18}, {"zepto", -21}, {"yocto", -24}};

const char *opName(Op op)
{
    switch (op) {
    case Op::CI: return "ci";
    case Op::CN: return "cn";
    case Op::TRUE_: return "true";
    case Op::FALSE_: return "false";
    case Op::E: return "exponentiale";
    case Op::PI: return "pi";
    case Op::INF: return "infinity";
    case Op::NAN_: return "notanumber";
    case Op::EQ: return "eq";
    case Op::NEQ: return "neq";
    case Op::LT: return "lt";
    case Op::LEQ: return "leq";
    case Op::GT: return "gt";
    case Op::GEQ: return "geq";
    case Op::AND: return "and";
    case Op::OR: return "or";
    case Op::XOR: return "xor";
    case Op::NOT: return "not";
    case Op::PLUS: return "plus";
    case Op::MINUS: return "minus";
    case Op::TIMES: return "times";
    case Op::DIVIDE: return "divide";
    case Op::POWER: return "power";
    case Op::ROOT: return "root";
    case Op::ABS: return "abs";
    case Op::EXP: return "exp";
    case Op::LN: return "ln";
    case Op::LOG: return "log";
    case Op::CEILING: return "ceiling";
    case Op::FLOOR: return "floor";
    case Op::MIN: return "min";
    case Op::MAX: return "max";
    case Op::REM: return "rem";
    case Op::SIN: return "sin";
    case Op::COS: return "cos";
    case Op::TAN: return "tan";
    case Op::SEC: return "sec";
    case Op::CSC: return "csc";
    case Op::COT: return "cot";
    case Op::SINH: return "sinh";
    case Op::COSH: return "cosh";
    case Op::TANH: return "tanh";
    case Op::SECH: return "sech";
    case Op::CSCH: return "csch";
    case Op::COTH: return "coth";
    case Op::ASIN: return "arcsin";
    case Op::ACOS: return "arccos";
    case Op::ATAN: return "arctan";
    case Op::ASEC: return "arcsec";
    case Op::ACSC: return "arccsc";
    case Op::ACOT: return "arccot";
    case Op::ASINH: return "arcsinh";
    case Op::ACOSH: return "arccosh";
    case Op::ATANH: return "arctanh";
    case Op::ASECH: return "arcsech";
    case Op::ACSCH: return "arccsch";
    case Op::ACOTH: return "arccoth";
    case Op::PIECEWISE: return "piecewise";
    case Op::DIFF: return "diff";
    }
    return "?";
}

ExprP mkCn(const std::string &text, const std::string &units, const std::string &exp)
{
    auto e = std::make_shared<Expr>();
    e->op = Op::CN;
    e->cnText = text;
    e->cnUnits = units;
    e->cnExp = exp;
    return e;
}

ExprP mkCnD(double v, const std::string &units)
{
    char buf[64];
    snprintf(buf, sizeof buf, "%.17g", v);
    std::string s = buf;
    // CellML basic reals have no exponent: split into e-notation when printf chose one.
    size_t p = s.find_first_of("eE");
    if (p != std::string::npos) {
        std::string ex = s.substr(p + 1);
        if (!ex.empty() && ex[0] == '+') {
            ex = ex.substr(1);
        }
        return mkCn(s.substr(0, p), units, ex);
    }
    return mkCn(s, units);
}

ExprP mkCi(const std::string &var, int quantity)
{
    auto e = std::make_shared<Expr>();
    e->op = Op::CI;
    e->var = var;
    e->quantity = quantity;
    return e;
}

ExprP mkOp(Op op, std::vector<ExprP> kids)
{
    auto e = std::make_shared<Expr>();
    e->op = op;
    e->kids = std::move(kids);
    return e;
}

ExprP mkDiff(const std::string &state, const std::string &voi)
{
    auto e = std::make_shared<Expr>();
    e->op = Op::DIFF;
    e->var = state;
    e->bvar = voi;
    return e;
}

ExprP cloneExpr(const ExprP &e)
{
    if (e == nullptr) {
        return nullptr;
    }
    auto c = std::make_shared<Expr>(*e);
    for (auto &k : c->kids) {
        k = cloneExpr(k);
    }
    return c;
}

std::string exprToString(const ExprP &e)
{
    if (e == nullptr) {
        return "<null>";
    }
    switch (e->op) {
    case Op::CI:
        return e->var.empty() ? "q" + std::to_string(e->quantity) : e->var;
    case Op::CN:
        return e->cnText + (e->cnExp.empty() ? "" : "e" + e->cnExp);
    case Op::DIFF:
        return "d" + e->var + "/d" + e->bvar;
    default:
        break;
    }
    std::string s = opName(e->op);
    if (e->hasQualifier) {
        s += "^";
    }
    if (e->kids.empty()) {
        return s;
    }
    s += "(";
    for (size_t i = 0; i < e->kids.size(); ++i) {
        if (i != 0U) {
            s += ",";
        }
        s += exprToString(e->kids[i]);
    }
    s += ")";
    return s;
}

static std::string tagName(const MathStyle &st, const std::string &n)
{
    return st.mathPrefix.empty() ? n : st.mathPrefix + ":" + n;
}

std::string exprToMathML(const ExprP &e, const MathStyle &st)
{
    auto T = [&](const std::string &n) { return tagName(st, n); };
    switch (e->op) {
    case Op::CI:
        return "<" + T("ci") + ">" + e->var + "</" + T("ci") + ">";
    case Op::CN: {
        std::string s = "<" + T("cn") + " " + st.cellmlPrefix + ":units=\"" + e->cnUnits + "\"";
        if (!e->cnExp.empty()) {
            s += " type=\"e-notation\">" + e->cnText + "<" + T("sep") + "/>" + e->cnExp;
        } else {
            s += ">" + e->cnText;
        }
        return s + "</" + T("cn") + ">";
    }
    case Op::TRUE_:
    case Op::FALSE_:
    case Op::E:
    case Op::PI:
    case Op::INF:
    case Op::NAN_:
        return "<" + T(opName(e->op)) + "/>";
    case Op::DIFF:
        return "<" + T("apply") + "><" + T("diff") + "/><" + T("bvar") + "><" + T("ci") + ">" + e->bvar + "</" + T("ci") + "></" + T("bvar") + "><" + T("ci") + ">" + e->var + "</" + T("ci") + "></" + T("apply") + ">";
    case Op::PIECEWISE: {
        std::string s = "<" + T("piecewise") + ">";
        size_t n = e->kids.size();
        size_t pairs = e->hasOtherwise ? (n - 1) / 2 : n / 2;
        for (size_t i = 0; i < pairs; ++i) {
            s += "<" + T("piece") + ">" + exprToMathML(e->kids[2 * i], st) + exprToMathML(e->kids[2 * i + 1], st) + "</" + T("piece") + ">";
        }
        if (e->hasOtherwise) {
            s += "<" + T("otherwise") + ">" + exprToMathML(e->kids[n - 1], st) + "</" + T("otherwise") + ">";
        }
        return s + "</" + T("piecewise") + ">";
    }
    default:
        break;
    }
    std::string s = "<" + T("apply") + "><" + T(opName(e->op)) + "/>";
    size_t start = 0;
    if (e->hasQualifier && (e->op == Op::ROOT || e->op == Op::LOG)) {
        std::string qn = e->op == Op::ROOT ? "degree" : "logbase";
        s += "<" + T(qn) + ">" + exprToMathML(e->kids[0], st) + "</" + T(qn) + ">";
        start = 1;
    }
    for (size_t i = start; i < e->kids.size(); ++i) {
        s += exprToMathML(e->kids[i], st);
    }
    return s + "</" + T("apply") + ">";
}

std::string mathElement(const std::vector<ExprP> &equations, const MathStyle &st)
{
    std::string s = "<" + tagName(st, "math");
    if (st.mathPrefix.empty()) {
        s += " xmlns=\"http://www.w3.org/1998/Math/MathML\"";
    } else {
        s += " xmlns:" + st.mathPrefix + "=\"http://www.w3.org/1998/Math/MathML\"";
    }
    if (st.declareCellmlOnMath) {
        s += " xmlns:" + st.cellmlPrefix + "=\"http://www.cellml.org/cellml/2.0#\"";
    }
    s += ">";
    for (const auto &e : equations) {
        s += exprToMathML(e, st);
    }
    return s + "</" + tagName(st, "math") + ">";
}

// ---------------- IrModel helpers ----------------
bool IrModel::hasEncapsulation() const
{
    for (const auto &c : comps) {
        if (c.parent >= 0) {
            return true;
        }
    }
    return false;
}

int IrModel::findComp(const std::string &n) const
{
    for (size_t i = 0; i < comps.size(); ++i) {
        if (comps[i].name == n) {
            return static_cast<int>(i);
        }
    }
    return -1;
}

int IrModel::findUnits(const std::string &n) const
{
    for (size_t i = 0; i < units.size(); ++i) {
        if (units[i].name == n) {
            return static_cast<int>(i);
        }
    }
    return -1;
}

IrVariable *IrModel::findVar(int comp, const std::string &n)
{
    for (auto &v : comps[static_cast<size_t>(comp)].vars) {
        if (v.name == n) {
            return &v;
        }
    }
    return nullptr;
}

std::string IrModel::structuralHash() const
{
    std::string s = "U" + std::to_string(units.size());
    for (const auto &u : units) {
        s += "(" + std::to_string(u.units.size()) + (u.import >= 0 ? "i" : "");
        for (const auto &k : u.units) {
            s += (k.prefix.empty() ? "-" : "p");
            s += (k.hasExp ? "e" + k.exp : "-");
            s += (k.hasMult ? "m" : "-");
        }
        s += ")";
    }
    s += "C";
    for (const auto &c : comps) {
        s += "(" + std::to_string(c.parent) + ":" + std::to_string(c.vars.size()) + ":" + std::to_string(c.resets.size()) + ":" + std::to_string(c.math.size()) + (c.import >= 0 ? "i" : "");
        for (const auto &v : c.vars) {
            s += v.iface.empty() ? "n" : v.iface.substr(0, 3);
            s += v.init.empty() ? "-" : "I";
        }
        for (const auto &m : c.math) {
            for (const auto &e : m) {
                s += exprToString(e).substr(0, 40);
            }
        }
        s += ")";
    }
    s += "X";
    for (const auto &c : conns) {
        s += std::to_string(c.c1) + "-" + std::to_string(c.c2) + ":" + std::to_string(c.maps.size()) + ";";
    }
    return hex64(fnv1a(s));
}

int IrModel::featureCount() const
{
    int f = 0;
    f += units.empty() ? 0 : 1;
    f += conns.empty() ? 0 : 1;
    f += hasEncapsulation() ? 1 : 0;
    f += imports.empty() ? 0 : 1;
    bool r = false;
    bool m = false;
    for (const auto &c : comps) {
        r = r || !c.resets.empty();
        m = m || !c.math.empty();
    }
    f += r ? 1 : 0;
    f += m ? 1 : 0;
    return f;
}

bool reachable(const IrModel &m, int c1, int c2)
{
    if (c1 == c2) {
        return false;
    }
    const auto &a = m.comps[static_cast<size_t>(c1)];
    const auto &b = m.comps[static_cast<size_t>(c2)];
    return a.parent == c2 || b.parent == c1 || a.parent == b.parent;
}

std::string requiredInterface(const IrModel &m, int comp, const std::string &var)
{
    bool pub = false;
    bool priv = false;
    for (const auto &cn : m.conns) {
        for (const auto &mp : cn.maps) {
            int other = -1;
            if (cn.c1 == comp && mp.v1 == var) {
                other = cn.c2;
            } else if (cn.c2 == comp && mp.v2 == var) {
                other = cn.c1;
            }
            if (other < 0) {
                continue;
            }
            if (m.comps[static_cast<size_t>(other)].parent == comp) {
                priv = true;
            } else {
                pub = true;
            }
        }
    }
    if (pub && priv) {
        return "public_and_private";
    }
    if (pub) {
        return "public";
    }
    if (priv) {
        return "private";
    }
    return "";
}

// ---------------- random generation ----------------
namespace {

struct NameGen
{
    Rng &rng;
    int counter = 0;
    std::set<std::string> used;
    explicit NameGen(Rng &r)
        : rng(r)
    {
    }
    std::string ident(const std::string &stem)
    {
        static const std::string tail = "abcdefghijklmnopqrstuvwxyzABCDEFGHIJKLMNOPQRSTUVWXYZ0123456789_";
        std::string s = stem;
        int n = rng.range(0, 3);
        for (int i = 0; i < n; ++i) {
            s += tail[rng.below(tail.size())];
        }
        s += std::to_string(counter++);
        if (rng.chance(0.1)) {
            s = "_" + s;
        }
        // random tail + counter can spell the same name twice ("u" "1" 4 and "u" "" 14): keep names unique
        while (!used.insert(s).second) {
            s += "x";
        }
        return s;
    }
    std::string id()
    {
        return "id_" + std::to_string(counter++);
    }
};

const std::vector<std::string> kExponents = {"1", "2", "3", "-1", "-2", "-3", "0.5", "-0.5", "1.5", "2.0", "1e0", "-1.0", "0.333333333333", "-1.23456789"};
const std::vector<std::string> kMultipliers = {"1", "2", "10", "0.001", "1000", "3.5", "1e3", "60", "0.5", "1.0e-6", "0.45359237", "1609.344", "1.66053906717e-24", "3.14159265358979"};
const std::vector<std::string> kReals = {"0", "1", "-1", "0.5", "2.5", "-3.25", "100", "1e3", "1.5e-3", "-2E2", "3.", ".5", "-.5", "007", "12345.678", "1e+2", "6.02e23", "1.0"};

std::string maybeId(Rng &rng, NameGen &ng, const GenOptions &opt)
{
    if (!opt.ids) {
        return "";
    }
    return rng.chance(0.5) ? ng.id() : "";
}

} // namespace

ExprP randomExpr(Rng &rng, const std::vector<std::string> &vars, const std::vector<std::string> &units, int depth)
{
    auto leaf = [&]() -> ExprP {
        int k = rng.range(0, 9);
        if (k < 5 && !vars.empty()) {
            return mkCi(rng.pick(vars));
        }
        if (k < 8 || vars.empty()) {
            std::string u = units.empty() ? "dimensionless" : rng.pick(units);
            if (rng.chance(0.2)) {
                return mkCn(rng.pick(std::vector<std::string>{"1.5", "2", "-3", "0.25"}), u, rng.pick(std::vector<std::string>{"2", "-3", "+1", "0"}));
            }
            std::string t = rng.pick(kReals);
            // basic reals cannot carry an exponent in <cn>
            if (t.find_first_of("eE") != std::string::npos) {
                t = "4.75";
            }
            return mkCn(t, u);
        }
        static const std::vector<Op> consts = {Op::TRUE_, Op::FALSE_, Op::E, Op::PI, Op::INF, Op::NAN_};
        return mkOp(rng.pick(consts), {});
    };
    if (depth <= 0) {
        return leaf();
    }
    auto sub = [&]() { return randomExpr(rng, vars, units, depth - 1 - (rng.chance(0.3) ? 1 : 0)); };
    static const std::vector<Op> unary = {Op::NOT, Op::ABS, Op::EXP, Op::LN, Op::CEILING, Op::FLOOR, Op::SIN, Op::COS, Op::TAN, Op::SEC, Op::CSC, Op::COT, Op::SINH, Op::COSH, Op::TANH, Op::SECH, Op::CSCH, Op::COTH, Op::ASIN, Op::ACOS, Op::ATAN, Op::ASEC, Op::ACSC, Op::ACOT, Op::ASINH, Op::ACOSH, Op::ATANH, Op::ASECH, Op::ACSCH, Op::ACOTH};
    static const std::vector<Op> binary = {Op::EQ, Op::NEQ, Op::LT, Op::LEQ, Op::GT, Op::GEQ, Op::DIVIDE, Op::POWER, Op::REM};
    static const std::vector<Op> nary = {Op::AND, Op::OR, Op::XOR, Op::PLUS, Op::TIMES, Op::MIN, Op::MAX};
    int k = rng.range(0, 11);
    if (k <= 2) {
        return mkOp(rng.pick(unary), {sub()});
    }
    if (k <= 4) {
        return mkOp(rng.pick(binary), {sub(), sub()});
    }
    if (k <= 6) {
        std::vector<ExprP> kids;
        int n = rng.range(2, 4);
        for (int i = 0; i < n; ++i) {
            kids.push_back(sub());
        }
        return mkOp(rng.pick(nary), kids);
    }
    if (k == 7) {
        return rng.chance(0.5) ? mkOp(Op::MINUS, {sub()}) : mkOp(Op::MINUS, {sub(), sub()});
    }
    if (k == 8) {
        auto e = mkOp(Op::ROOT, {});
        if (rng.chance(0.5)) {
            e->hasQualifier = true;
            e->kids = {sub(), sub()};
        } else {
            e->kids = {sub()};
        }
        return e;
    }
    if (k == 9) {
        auto e = mkOp(Op::LOG, {});
        if (rng.chance(0.5)) {
            e->hasQualifier = true;
            e->kids = {sub(), sub()};
        } else {
            e->kids = {sub()};
        }
        return e;
    }
    if (k == 10) {
        auto e = mkOp(Op::PIECEWISE, {});
        int pieces = rng.range(1, 3);
        for (int i = 0; i < pieces; ++i) {
            e->kids.push_back(sub());
            e->kids.push_back(sub());
        }
        if (rng.chance(0.7)) {
            e->hasOtherwise = true;
            e->kids.push_back(sub());
        }
        return e;
    }
    return mkOp(Op::PLUS, {sub()});
}

IrModel generateModel(Rng &rng, const GenOptions &opt)
{
    IrModel m;
    NameGen ng(rng);
    m.name = ng.ident("model");
    m.id = maybeId(rng, ng, opt);

    // ---- imports
    int nImports = (opt.imports && rng.chance(0.4)) ? rng.range(1, 2) : 0;
    for (int i = 0; i < nImports; ++i) {
        IrImport im;
        im.url = rng.pick(std::vector<std::string>{"lib.cellml", "sub/other_model.xml", "units_lib.cellml", "http://example.org/m.cellml", "a_b-c.d.cellml"});
        im.id = maybeId(rng, ng, opt);
        m.imports.push_back(im);
    }

    // ---- units
    // Families of mutually compatible units: family 0 is built on a base; members are scaled variants.
    struct Family
    {
        std::vector<std::string> members;
    };
    std::vector<Family> families;
    int nUnits = rng.range(0, opt.maxUnits);
    std::vector<std::string> definedUnits; // user units defined so far (non-imported)
    // "Expanded twin": the same dimension written differently.  An existing units U with a child that references a
    // user-defined units V (itself defined through children) is re-expressed with V's children in place of that
    // child, exponents multiplied: U = V^2 x s^-1, V = W x m  ->  U' = W^2 x m^2 x s^-1.  U' joins U's family, so
    // connected variables may use U on one side and U' on the other (dimensionally equal, nesting depth differs).
    // Only exponents that are multiples of 0.5 are multiplied (the products are exact).
    auto halfInteger = [](const IrUnit &k, double &e) {
        e = k.hasExp ? strtod(k.exp.c_str(), nullptr) : 1.0;
        return std::fabs(e * 2.0 - std::round(e * 2.0)) < 1e-12 && std::fabs(e) < 64.0;
    };
    auto expandedTwin = [&](IrUnits &u) {
        std::vector<std::pair<size_t, size_t>> spots; // (index of U in m.units, index of the child to expand)
        for (size_t ui = 0; ui < m.units.size(); ++ui) {
            const auto &U = m.units[ui];
            if (U.import >= 0) {
                continue;
            }
            for (size_t ci = 0; ci < U.units.size(); ++ci) {
                int vi = m.findUnits(U.units[ci].ref);
                double e = 0.0;
                if (vi < 0 || m.units[static_cast<size_t>(vi)].import >= 0 || m.units[static_cast<size_t>(vi)].units.empty() || !halfInteger(U.units[ci], e)) {
                    continue;
                }
                bool ok = true;
                for (const auto &vk : m.units[static_cast<size_t>(vi)].units) {
                    double e2 = 0.0;
                    ok = ok && halfInteger(vk, e2);
                }
                if (ok) {
                    spots.emplace_back(ui, ci);
                }
            }
        }
        if (spots.empty()) {
            return false;
        }
        auto spot = rng.pick(spots);
        const IrUnits U = m.units[spot.first];
        const IrUnits V = m.units[static_cast<size_t>(m.findUnits(U.units[spot.second].ref))];
        double e1 = 0.0;
        halfInteger(U.units[spot.second], e1);
        for (size_t ci = 0; ci < U.units.size(); ++ci) {
            if (ci != spot.second) {
                IrUnit k = U.units[ci];
                k.id = maybeId(rng, ng, opt);
                u.units.push_back(k);
                continue;
            }
            for (const auto &vk : V.units) {
                double e2 = 0.0;
                halfInteger(vk, e2);
                IrUnit k;
                k.ref = vk.ref;
                char buf[64];
                snprintf(buf, sizeof buf, "%.17g", e1 * e2);
                k.hasExp = true;
                k.exp = buf;
                k.id = maybeId(rng, ng, opt);
                u.units.push_back(k);
            }
        }
        for (auto &fam : families) {
            if (std::find(fam.members.begin(), fam.members.end(), U.name) != fam.members.end()) {
                fam.members.push_back(u.name);
                return true;
            }
        }
        families.push_back({{U.name, u.name}});
        return true;
    };
    for (int i = 0; i < nUnits; ++i) {
        IrUnits u;
        u.name = ng.ident("u");
        u.id = maybeId(rng, ng, opt);
        int kind = rng.range(0, 9);
        if (kind == 0) {
            // user base unit
            families.push_back({{u.name}});
        } else if (kind == 1 && !m.imports.empty()) {
            u.import = static_cast<int>(rng.below(m.imports.size()));
            u.importRef = ng.ident("ref_u");
            families.push_back({{u.name}});
        } else if (kind == 5 && expandedTwin(u)) {
            // (twin built; it joined the family of the units it re-expresses)
        } else if (kind <= 4 && !families.empty()) {
            // scaled variant of an existing unit (same family)
            auto &fam = families[rng.below(families.size())];
            IrUnit k;
            k.ref = rng.pick(fam.members);
            int pk = rng.range(0, 3);
            if (pk == 0) {
                k.prefix = rng.pick(kPrefixes).first;
            } else if (pk == 1) {
                k.prefix = std::to_string(rng.range(-6, 6));
            }
            if (rng.chance(0.4)) {
                k.hasMult = true;
                k.mult = rng.pick(kMultipliers);
            }
            if (rng.chance(0.2)) {
                k.hasExp = true;
                k.exp = rng.pick(std::vector<std::string>{"1", "1.0", "1e0"});
            }
            k.id = maybeId(rng, ng, opt);
            u.units.push_back(k);
            fam.members.push_back(u.name);
        } else {
            int nk = rng.range(1, 3);
            for (int j = 0; j < nk; ++j) {
                IrUnit k;
                if (!definedUnits.empty() && rng.chance(0.4)) {
                    k.ref = rng.pick(definedUnits);
                } else {
                    k.ref = rng.pick(kStandardUnits);
                }
                if (rng.chance(0.5)) {
                    k.hasExp = true;
                    k.exp = rng.pick(kExponents);
                }
                bool exp1 = !k.hasExp || strtod(k.exp.c_str(), nullptr) == 1.0;
                if (exp1 || opt.nonUnitExponentPrefix) {
                    int pk = rng.range(0, 4);
                    if (pk == 0) {
                        k.prefix = rng.pick(kPrefixes).first;
                    } else if (pk == 1) {
                        k.prefix = std::to_string(rng.range(-9, 9));
                    }
                    if (rng.chance(0.3)) {
                        k.hasMult = true;
                        k.mult = rng.pick(kMultipliers);
                    }
                }
                k.id = maybeId(rng, ng, opt);
                u.units.push_back(k);
            }
            families.push_back({{u.name}});
        }
        if (u.import < 0) {
            definedUnits.push_back(u.name);
        }
        m.units.push_back(u);
    }
    // standard-unit families usable by variables
    families.push_back({{"second"}});
    families.push_back({{"dimensionless"}});
    families.push_back({{"volt"}});
    families.push_back({{"metre"}});

    // ---- components
    int nComps = rng.range(1, opt.maxComponents);
    for (int i = 0; i < nComps; ++i) {
        IrComponent c;
        c.name = ng.ident("c");
        c.id = maybeId(rng, ng, opt);
        if (opt.encapsulation && i > 0 && rng.chance(0.5)) {
            c.parent = static_cast<int>(rng.below(static_cast<uint64_t>(i)));
        }
        if (!m.imports.empty() && rng.chance(0.2)) {
            c.import = static_cast<int>(rng.below(m.imports.size()));
            c.importRef = ng.ident("ref_c");
        }
        m.comps.push_back(c);
    }
    for (size_t i = 0; i < m.comps.size(); ++i) {
        if (m.comps[i].parent >= 0) {
            m.comps[static_cast<size_t>(m.comps[i].parent)].children.push_back(static_cast<int>(i));
        }
    }
    for (auto &c : m.comps) {
        if (c.parent >= 0 || !c.children.empty()) {
            c.encId = maybeId(rng, ng, opt);
        }
    }
    if (m.hasEncapsulation()) {
        m.encId = maybeId(rng, ng, opt);
    }

    // ---- variables
    std::vector<std::vector<int>> varFamily(m.comps.size()); // family index per variable
    for (size_t ci = 0; ci < m.comps.size(); ++ci) {
        auto &c = m.comps[ci];
        if (c.import >= 0) {
            continue; // placeholders are added by connections
        }
        int nv = rng.range(1, opt.maxVarsPerComponent);
        for (int j = 0; j < nv; ++j) {
            IrVariable v;
            v.name = ng.ident("v");
            v.id = maybeId(rng, ng, opt);
            int fam = static_cast<int>(rng.below(families.size()));
            v.units = rng.pick(families[static_cast<size_t>(fam)].members);
            if (rng.chance(0.5)) {
                v.init = rng.pick(kReals);
            }
            c.vars.push_back(v);
            varFamily[ci].push_back(fam);
        }
        if (opt.initByVariable && c.vars.size() >= 2 && rng.chance(0.3)) {
            c.vars[0].init = c.vars[1].name;
        }
    }

    // ---- connections
    if (opt.connections && m.comps.size() >= 2) {
        int tries = rng.range(0, 6);
        for (int t = 0; t < tries; ++t) {
            int a = static_cast<int>(rng.below(m.comps.size()));
            int b = static_cast<int>(rng.below(m.comps.size()));
            if (!reachable(m, a, b)) {
                continue;
            }
            if (m.comps[static_cast<size_t>(a)].import >= 0 && m.comps[static_cast<size_t>(b)].import >= 0) {
                continue;
            }
            bool dup = false;
            for (const auto &cn : m.conns) {
                if ((cn.c1 == a && cn.c2 == b) || (cn.c1 == b && cn.c2 == a)) {
                    dup = true;
                }
            }
            if (dup) {
                continue;
            }
            IrConnection cn;
            cn.c1 = a;
            cn.c2 = b;
            cn.id = maybeId(rng, ng, opt);
            auto &ca = m.comps[static_cast<size_t>(a)];
            auto &cb = m.comps[static_cast<size_t>(b)];
            int nm = rng.range(1, 3);
            for (int k = 0; k < nm; ++k) {
                IrMap mp;
                if (ca.import >= 0) {
                    // placeholder variable on the imported side
                    if (cb.vars.empty()) {
                        break;
                    }
                    mp.v2 = rng.pick(cb.vars).name;
                    // one placeholder may stand in several map_variables (of this or of another connection)
                    bool reused = false;
                    if (!ca.vars.empty() && rng.chance(0.4)) {
                        mp.v1 = rng.pick(ca.vars).name;
                        reused = true;
                        for (const auto &other : cn.maps) {
                            reused = reused && !(other.v1 == mp.v1 && other.v2 == mp.v2);
                        }
                    }
                    if (!reused) {
                        mp.v1 = ng.ident("ph");
                        IrVariable ph;
                        ph.name = mp.v1;
                        ca.vars.push_back(ph);
                    }
                } else if (cb.import >= 0) {
                    if (ca.vars.empty()) {
                        break;
                    }
                    mp.v1 = rng.pick(ca.vars).name;
                    bool reused = false;
                    if (!cb.vars.empty() && rng.chance(0.4)) {
                        mp.v2 = rng.pick(cb.vars).name;
                        reused = true;
                        for (const auto &other : cn.maps) {
                            reused = reused && !(other.v1 == mp.v1 && other.v2 == mp.v2);
                        }
                    }
                    if (!reused) {
                        mp.v2 = ng.ident("ph");
                        IrVariable ph;
                        ph.name = mp.v2;
                        cb.vars.push_back(ph);
                    }
                } else {
                    // pick a variable of a, and a variable of b of the same family (make one if needed)
                    size_t ia = rng.below(ca.vars.size());
                    int fam = varFamily[static_cast<size_t>(a)][ia];
                    int ib = -1;
                    for (size_t q = 0; q < cb.vars.size(); ++q) {
                        if (varFamily[static_cast<size_t>(b)][q] == fam) {
                            ib = static_cast<int>(q);
                            if (rng.chance(0.5)) {
                                break;
                            }
                        }
                    }
                    if (ib < 0) {
                        IrVariable v;
                        v.name = ng.ident("w");
                        v.id = maybeId(rng, ng, opt);
                        const auto &mem = families[static_cast<size_t>(fam)].members;
                        v.units = opt.scaledConnections ? rng.pick(mem) : ca.vars[ia].units;
                        cb.vars.push_back(v);
                        varFamily[static_cast<size_t>(b)].push_back(fam);
                        ib = static_cast<int>(cb.vars.size()) - 1;
                    } else if (!opt.scaledConnections) {
                        cb.vars[static_cast<size_t>(ib)].units = ca.vars[ia].units;
                    }
                    mp.v1 = ca.vars[ia].name;
                    mp.v2 = cb.vars[static_cast<size_t>(ib)].name;
                }
                bool dupMap = false;
                for (const auto &o : cn.maps) {
                    if (o.v1 == mp.v1 && o.v2 == mp.v2) {
                        dupMap = true;
                    }
                }
                if (dupMap) {
                    continue;
                }
                mp.id = maybeId(rng, ng, opt);
                cn.maps.push_back(mp);
            }
            if (!cn.maps.empty()) {
                m.conns.push_back(cn);
            }
        }
    }
    // when scaled connections are off, connected variables must share units transitively: do a few propagation rounds
    if (!opt.scaledConnections) {
        for (int round = 0; round < 8; ++round) {
            for (const auto &cn : m.conns) {
                for (const auto &mp : cn.maps) {
                    auto *v1 = m.findVar(cn.c1, mp.v1);
                    auto *v2 = m.findVar(cn.c2, mp.v2);
                    if (v1 != nullptr && v2 != nullptr && !v1->units.empty() && !v2->units.empty()) {
                        v2->units = v1->units;
                    }
                }
            }
        }
    }
    // interfaces
    for (size_t ci = 0; ci < m.comps.size(); ++ci) {
        for (auto &v : m.comps[ci].vars) {
            if (m.comps[ci].import >= 0) {
                continue;
            }
            std::string req = requiredInterface(m, static_cast<int>(ci), v.name);
            if (req.empty()) {
                int k = rng.range(0, 9);
                v.iface = k < 6 ? "" : (k == 6 ? "none" : (k == 7 ? "public" : (k == 8 ? "private" : "public_and_private")));
            } else {
                v.iface = (req != "public_and_private" && rng.chance(0.25)) ? "public_and_private" : req;
            }
        }
    }

    // ---- math
    for (size_t ci = 0; ci < m.comps.size(); ++ci) {
        auto &c = m.comps[ci];
        if (c.import >= 0 || c.vars.empty() || !rng.chance(opt.mathProbability)) {
            continue;
        }
        std::vector<std::string> vn;
        for (const auto &v : c.vars) {
            vn.push_back(v.name);
        }
        std::vector<std::string> un = {"dimensionless", "second", "volt"};
        for (const auto &u : m.units) {
            un.push_back(u.name);
        }
        int nm = rng.range(1, 2);
        for (int k = 0; k < nm; ++k) {
            std::vector<ExprP> eqs;
            int ne = rng.range(1, 3);
            for (int q = 0; q < ne; ++q) {
                ExprP lhs = (vn.size() >= 2 && rng.chance(0.25)) ? mkDiff(vn[0], vn[1]) : mkCi(rng.pick(vn));
                eqs.push_back(mkOp(Op::EQ, {lhs, randomExpr(rng, vn, un, rng.range(0, 3))}));
            }
            c.math.push_back(eqs);
        }
    }

    // ---- resets
    if (opt.resets) {
        int order = rng.range(-5, 5);
        for (size_t ci = 0; ci < m.comps.size(); ++ci) {
            auto &c = m.comps[ci];
            if (c.import >= 0 || c.vars.empty() || !rng.chance(0.3)) {
                continue;
            }
            std::vector<std::string> vn;
            for (const auto &v : c.vars) {
                vn.push_back(v.name);
            }
            int nr = rng.range(1, 2);
            for (int k = 0; k < nr; ++k) {
                IrReset r;
                r.id = maybeId(rng, ng, opt);
                r.order = order;
                order += rng.range(1, 3);
                r.var = rng.pick(vn);
                r.testVar = rng.pick(vn);
                r.testValue = randomExpr(rng, vn, {"dimensionless", "second"}, rng.range(0, 2));
                r.resetValue = randomExpr(rng, vn, {"dimensionless", "second"}, rng.range(0, 2));
                r.tvId = maybeId(rng, ng, opt);
                r.rvId = maybeId(rng, ng, opt);
                c.resets.push_back(r);
            }
        }
    }

    if (opt.hostileText) {
        // exactly one free-text attribute receives one hostile (but legal XML character data) string
        static const std::vector<std::pair<std::string, std::string>> nasty = {
            {"amp", "a&b"}, {"lt", "x<y"}, {"gt", "p>q"}, {"quot", "say \"hi\""}, {"apos", "it's"}, {"nonascii", "caf\xc3\xa9"},
            {"nonascii", "\xe5\x90\x8d\xe5\x89\x8d"}, {"amp", "a&amp;b"}, {"mixed", "1 < 2 & 3 > 2"}, {"space", "  padded  "},
            {"cdataend", "]]>"}, {"lt", "<!-- c -->"}, {"amp", "&#38;"}};
        std::vector<std::pair<std::string, std::string *>> slots;
        for (auto &im : m.imports) {
            bool used = false;
            for (const auto &u : m.units) {
                used = used || (u.import >= 0 && &m.imports[static_cast<size_t>(u.import)] == &im);
            }
            for (const auto &c : m.comps) {
                used = used || (c.import >= 0 && &m.imports[static_cast<size_t>(c.import)] == &im);
            }
            if (used) {
                slots.emplace_back("import.href", &im.url);
                slots.emplace_back("import.id", &im.id);
            }
        }
        slots.emplace_back("model.id", &m.id);
        for (size_t ci = 0; ci < m.comps.size(); ++ci) {
            auto &c = m.comps[ci];
            slots.emplace_back("component.id", &c.id);
            if (c.import >= 0) {
                continue;
            }
            for (auto &v : c.vars) {
                slots.emplace_back("variable.id", &v.id);
                slots.emplace_back("variable.initial_value", &v.init);
                if (requiredInterface(m, static_cast<int>(ci), v.name).empty()) {
                    slots.emplace_back("variable.interface", &v.iface);
                }
            }
            for (auto &r : c.resets) {
                slots.emplace_back("reset.id", &r.id);
                slots.emplace_back("test_value.id", &r.tvId);
                slots.emplace_back("reset_value.id", &r.rvId);
            }
        }
        for (auto &u : m.units) {
            slots.emplace_back("units.id", &u.id);
            if (u.import >= 0) {
                continue;
            }
            for (auto &k : u.units) {
                slots.emplace_back("unit.id", &k.id);
            }
        }
        for (auto &cn : m.conns) {
            slots.emplace_back("connection.id", &cn.id);
            for (auto &mp : cn.maps) {
                slots.emplace_back("map_variables.id", &mp.id);
            }
        }
        auto &slot = slots[rng.below(slots.size())];
        const auto &n = rng.pick(nasty);
        *slot.second = n.second;
        m.hostile = slot.first + ":" + n.first;
    }

    if (opt.weirdIds) {
        std::vector<std::string *> slots;
        slots.push_back(&m.id);
        if (m.hasEncapsulation()) {
            slots.push_back(&m.encId);
        }
        for (auto &im : m.imports) {
            slots.push_back(&im.id);
        }
        for (auto &u : m.units) {
            slots.push_back(&u.id);
            for (auto &k : u.units) {
                slots.push_back(&k.id);
            }
        }
        for (auto &c : m.comps) {
            slots.push_back(&c.id);
            if (c.parent >= 0 || !c.children.empty()) {
                slots.push_back(&c.encId);
            }
            if (c.import < 0) {
                for (auto &v : c.vars) {
                    slots.push_back(&v.id);
                }
            }
            for (auto &r : c.resets) {
                slots.push_back(&r.id);
                slots.push_back(&r.tvId);
                slots.push_back(&r.rvId);
            }
        }
        for (auto &cn : m.conns) {
            slots.push_back(&cn.id);
            for (auto &mp : cn.maps) {
                slots.push_back(&mp.id);
            }
        }
        static const std::vector<std::string> shaped = {"b4da55", "b4da56", "b4da57", "b4da58", "b4da59", "b4da5a", "b4da5b", "b4da60", "b4da64", "B4DA55", "b4da5", "dup", "dup", "x", "id_1"};
        for (auto *s : slots) {
            int k = rng.range(0, 9);
            if (k < 4) {
                *s = "";
            } else if (k < 8) {
                *s = rng.pick(shaped);
            }
        }
    }
    return m;
}

// ---------------- writers ----------------
WriteStyle randomStyle(Rng &rng)
{
    WriteStyle s;
    s.prefixAll = rng.chance(0.2);
    s.shuffleAttrs = rng.chance(0.5);
    s.pretty = rng.chance(0.7);
    s.mathPrefix = false; // prefixed MathML fails the (namespace-unaware) DTD validation: debatable, never generated as "valid"
    s.cellmlPrefixOnRoot = rng.chance(0.5);
    return s;
}

namespace {

struct XmlW
{
    const WriteStyle &st;
    Rng *rng;
    std::string out;
    int depth = 0;
    std::string pfx; // element prefix incl. ':' or ""
    XmlW(const WriteStyle &s, Rng *r)
        : st(s)
        , rng(r)
    {
    }
    void nl()
    {
        if (st.pretty) {
            out += "\n";
            out.append(static_cast<size_t>(depth) * 2, ' ');
        }
    }
    std::string attrs(std::vector<std::pair<std::string, std::string>> a)
    {
        if (st.shuffleAttrs && rng != nullptr) {
            rng->shuffle(a);
        }
        std::string s;
        for (const auto &kv : a) {
            s += " " + kv.first + "=\"" + xmlEscape(kv.second) + "\"";
        }
        return s;
    }
    void open(const std::string &name, const std::vector<std::pair<std::string, std::string>> &a, bool selfClose = false, const std::string &rawAttrs = "")
    {
        nl();
        out += "<" + pfx + name + rawAttrs + attrs(a) + (selfClose ? "/>" : ">");
        if (!selfClose) {
            ++depth;
        }
    }
    void close(const std::string &name)
    {
        --depth;
        nl();
        out += "</" + pfx + name + ">";
    }
    void raw(const std::string &s)
    {
        nl();
        out += s;
    }
};

using Attrs = std::vector<std::pair<std::string, std::string>>;

void addIf(Attrs &a, const std::string &k, const std::string &v)
{
    if (!v.empty()) {
        a.emplace_back(k, v);
    }
}

void writeEncapsulation2(XmlW &w, const IrModel &m, int ci)
{
    const auto &c = m.comps[static_cast<size_t>(ci)];
    Attrs a = {{"component", c.name}};
    addIf(a, "id", c.encId);
    if (c.children.empty()) {
        w.open("component_ref", a, true);
    } else {
        w.open("component_ref", a);
        for (int k : c.children) {
            writeEncapsulation2(w, m, k);
        }
        w.close("component_ref");
    }
}

} // namespace


static std::string writeCellml2Impl(const IrModel &m, const WriteStyle &st, Rng *rng)
{
    XmlW w(st, rng);
    w.out = "<?xml version=\"1.0\" encoding=\"UTF-8\"?>";
    std::string rootNs;
    if (st.prefixAll) {
        w.pfx = "cellml:";
        rootNs = " xmlns:cellml=\"http://www.cellml.org/cellml/2.0#\"";
    } else {
        rootNs = " xmlns=\"http://www.cellml.org/cellml/2.0#\"";
        if (st.cellmlPrefixOnRoot) {
            rootNs += " xmlns:cellml=\"http://www.cellml.org/cellml/2.0#\"";
        }
    }
    bool usedImport = false;
    for (const auto &u : m.units) {
        usedImport = usedImport || u.import >= 0;
    }
    for (const auto &c : m.comps) {
        usedImport = usedImport || c.import >= 0;
    }
    if (usedImport) {
        rootNs += " xmlns:xlink=\"http://www.w3.org/1999/xlink\"";
    }
    MathStyle ms;
    ms.mathPrefix = st.mathPrefix ? "mml" : "";
    ms.declareCellmlOnMath = !(st.prefixAll || st.cellmlPrefixOnRoot);
    MathStyle msReset = ms;
    msReset.declareCellmlOnMath = true; // see DESIGN: ancestor-declared prefixes in reset math are a separate scenario

    Attrs ra = {{"name", m.name}};
    addIf(ra, "id", m.id);
    w.open("model", ra, false, rootNs);
    for (size_t ii = 0; ii < m.imports.size(); ++ii) {
        bool used = false;
        for (const auto &u : m.units) {
            used = used || u.import == static_cast<int>(ii);
        }
        for (const auto &c : m.comps) {
            used = used || c.import == static_cast<int>(ii);
        }
        if (!used) {
            continue;
        }
        Attrs ia = {{"xlink:href", m.imports[ii].url}};
        addIf(ia, "id", m.imports[ii].id);
        w.open("import", ia);
        for (const auto &u : m.units) {
            if (u.import == static_cast<int>(ii)) {
                Attrs a = {{"name", u.name}, {"units_ref", u.importRef}};
                addIf(a, "id", u.id);
                w.open("units", a, true);
            }
        }
        for (const auto &c : m.comps) {
            if (c.import == static_cast<int>(ii)) {
                Attrs a = {{"name", c.name}, {"component_ref", c.importRef}};
                addIf(a, "id", c.id);
                w.open("component", a, true);
            }
        }
        w.close("import");
    }
    for (const auto &u : m.units) {
        if (u.import >= 0) {
            continue;
        }
        Attrs a = {{"name", u.name}};
        addIf(a, "id", u.id);
        if (u.units.empty()) {
            w.open("units", a, true);
            continue;
        }
        w.open("units", a);
        for (const auto &k : u.units) {
            Attrs ka = {{"units", k.ref}};
            addIf(ka, "prefix", k.prefix);
            if (k.hasExp) {
                ka.emplace_back("exponent", k.exp);
            }
            if (k.hasMult) {
                ka.emplace_back("multiplier", k.mult);
            }
            addIf(ka, "id", k.id);
            w.open("unit", ka, true);
        }
        w.close("units");
    }
    for (const auto &c : m.comps) {
        if (c.import >= 0) {
            continue;
        }
        Attrs a = {{"name", c.name}};
        addIf(a, "id", c.id);
        if (c.vars.empty() && c.resets.empty() && c.math.empty()) {
            w.open("component", a, true);
            continue;
        }
        w.open("component", a);
        for (const auto &v : c.vars) {
            Attrs va = {{"name", v.name}, {"units", v.units}};
            addIf(va, "initial_value", v.init);
            addIf(va, "interface", v.iface);
            addIf(va, "id", v.id);
            w.open("variable", va, true);
        }
        for (const auto &r : c.resets) {
            Attrs rattr = {{"variable", r.var}, {"test_variable", r.testVar}};
            if (r.hasOrder) {
                rattr.emplace_back("order", std::to_string(r.order));
            }
            addIf(rattr, "id", r.id);
            w.open("reset", rattr);
            Attrs ta;
            addIf(ta, "id", r.tvId);
            w.open("test_value", ta);
            w.raw(mathElement({r.testValue}, msReset));
            w.close("test_value");
            Attrs rva;
            addIf(rva, "id", r.rvId);
            w.open("reset_value", rva);
            w.raw(mathElement({r.resetValue}, msReset));
            w.close("reset_value");
            w.close("reset");
        }
        for (const auto &mm : c.math) {
            w.raw(mathElement(mm, ms));
        }
        w.close("component");
    }
    for (const auto &cn : m.conns) {
        Attrs a = {{"component_1", m.comps[static_cast<size_t>(cn.c1)].name}, {"component_2", m.comps[static_cast<size_t>(cn.c2)].name}};
        addIf(a, "id", cn.id);
        w.open("connection", a);
        for (const auto &mp : cn.maps) {
            Attrs ma = {{"variable_1", mp.v1}, {"variable_2", mp.v2}};
            addIf(ma, "id", mp.id);
            w.open("map_variables", ma, true);
        }
        w.close("connection");
    }
    if (m.hasEncapsulation()) {
        Attrs a;
        addIf(a, "id", m.encId);
        w.open("encapsulation", a);
        for (size_t i = 0; i < m.comps.size(); ++i) {
            if (m.comps[i].parent < 0 && !m.comps[i].children.empty()) {
                writeEncapsulation2(w, m, static_cast<int>(i));
            }
        }
        w.close("encapsulation");
    }
    w.close("model");
    w.out += "\n";
    return w.out;
}

std::string writeCellml2(const IrModel &m, const WriteStyle &st)
{
    return writeCellml2Impl(m, st, nullptr);
}

std::string writeCellml2(const IrModel &m, Rng &rng)
{
    WriteStyle st = randomStyle(rng);
    return writeCellml2Impl(m, st, &rng);
}

// ---- CellML 1.0 / 1.1 ----
static void writeEncapsulation1x(XmlW &w, const IrModel &m, int ci)
{
    const auto &c = m.comps[static_cast<size_t>(ci)];
    Attrs a = {{"component", c.name}};
    addIf(a, "cmeta:id", c.encId);
    if (c.children.empty()) {
        w.open("component_ref", a, true);
    } else {
        w.open("component_ref", a);
        for (int k : c.children) {
            writeEncapsulation1x(w, m, k);
        }
        w.close("component_ref");
    }
}

static std::string nonSi(const std::string &u, Rng &rng)
{
    if (u == "litre" && rng.chance(0.5)) {
        return "liter";
    }
    if (u == "metre" && rng.chance(0.5)) {
        return "meter";
    }
    return u;
}

std::string writeCellml1x(const IrModel &m, const std::string &version, Rng &rng, bool useNone)
{
    WriteStyle st;
    st.pretty = rng.chance(0.7);
    st.shuffleAttrs = rng.chance(0.5);
    XmlW w(st, &rng);
    std::string ns = "http://www.cellml.org/cellml/" + version + "#";
    w.out = "<?xml version=\"1.0\" encoding=\"UTF-8\"?>";
    bool prefixed = rng.chance(0.15);
    std::string rootNs;
    if (prefixed) {
        w.pfx = "c1:";
        rootNs = " xmlns:c1=\"" + ns + "\"";
    } else {
        rootNs = " xmlns=\"" + ns + "\"";
    }
    rootNs += " xmlns:cellml=\"" + ns + "\" xmlns:cmeta=\"http://www.cellml.org/metadata/1.0#\" xmlns:xlink=\"http://www.w3.org/1999/xlink\"";
    // math: cellml:units in the 1.x namespace
    auto math1x = [&](const std::vector<ExprP> &eqs) {
        MathStyle ms;
        ms.declareCellmlOnMath = false;
        std::string s = mathElement(eqs, ms);
        if (rng.chance(0.5)) {
            // declare the 1.x namespace on the math element itself as well
            size_t p = s.find('>');
            s.insert(p, " xmlns:cellml=\"" + ns + "\"");
        }
        return s;
    };
    Attrs ra = {{"name", m.name}};
    addIf(ra, "cmeta:id", m.id);
    w.open("model", ra, false, rootNs);

    bool allowImports = version == "1.1";
    if (allowImports) {
        for (size_t ii = 0; ii < m.imports.size(); ++ii) {
            bool used = false;
            for (const auto &u : m.units) {
                used = used || u.import == static_cast<int>(ii);
            }
            for (const auto &c : m.comps) {
                used = used || c.import == static_cast<int>(ii);
            }
            if (!used) {
                continue;
            }
            Attrs ia = {{"xlink:href", m.imports[ii].url}};
            addIf(ia, "cmeta:id", m.imports[ii].id);
            w.open("import", ia);
            for (const auto &u : m.units) {
                if (u.import == static_cast<int>(ii)) {
                    Attrs a = {{"name", u.name}, {"units_ref", u.importRef}};
                    addIf(a, "cmeta:id", u.id);
                    w.open("units", a, true);
                }
            }
            for (const auto &c : m.comps) {
                if (c.import == static_cast<int>(ii)) {
                    Attrs a = {{"name", c.name}, {"component_ref", c.importRef}};
                    addIf(a, "cmeta:id", c.id);
                    w.open("component", a, true);
                }
            }
            w.close("import");
        }
    }
    // decide which units go inside a component (1.x allows component-level units)
    std::vector<int> unitsHome(m.units.size(), -1);
    for (size_t i = 0; i < m.units.size(); ++i) {
        if (m.units[i].import < 0 && rng.chance(0.3)) {
            std::vector<int> cands;
            for (size_t c = 0; c < m.comps.size(); ++c) {
                if (m.comps[c].import < 0) {
                    cands.push_back(static_cast<int>(c));
                }
            }
            if (!cands.empty()) {
                unitsHome[i] = rng.pick(cands);
            }
        }
    }
    auto writeUnits = [&](const IrUnits &u) {
        Attrs a = {{"name", u.name}};
        addIf(a, "cmeta:id", u.id);
        if (u.units.empty()) {
            a.emplace_back("base_units", "yes");
            w.open("units", a, true);
            return;
        }
        w.open("units", a);
        for (const auto &k : u.units) {
            Attrs ka = {{"units", nonSi(k.ref, rng)}};
            addIf(ka, "prefix", k.prefix);
            if (k.hasExp) {
                ka.emplace_back("exponent", k.exp);
            }
            if (k.hasMult) {
                ka.emplace_back("multiplier", k.mult);
            }
            addIf(ka, "cmeta:id", k.id);
            w.open("unit", ka, true);
        }
        w.close("units");
    };
    for (size_t i = 0; i < m.units.size(); ++i) {
        if (m.units[i].import < 0 && unitsHome[i] < 0) {
            writeUnits(m.units[i]);
        }
    }
    for (size_t ci = 0; ci < m.comps.size(); ++ci) {
        const auto &c = m.comps[ci];
        if (c.import >= 0) {
            continue;
        }
        Attrs a = {{"name", c.name}};
        addIf(a, "cmeta:id", c.id);
        w.open("component", a);
        for (size_t i = 0; i < m.units.size(); ++i) {
            if (unitsHome[i] == static_cast<int>(ci)) {
                writeUnits(m.units[i]);
            }
        }
        for (const auto &v : c.vars) {
            Attrs va = {{"name", v.name}, {"units", nonSi(v.units, rng)}};
            addIf(va, "initial_value", v.init);
            bool pub = v.iface == "public" || v.iface == "public_and_private";
            bool priv = v.iface == "private" || v.iface == "public_and_private";
            if (pub) {
                va.emplace_back("public_interface", rng.chance(0.5) ? "in" : "out");
            } else if (useNone && rng.chance(0.5)) {
                va.emplace_back("public_interface", "none");
            }
            if (priv) {
                va.emplace_back("private_interface", rng.chance(0.5) ? "in" : "out");
            } else if (useNone && rng.chance(0.5)) {
                va.emplace_back("private_interface", "none");
            }
            addIf(va, "cmeta:id", v.id);
            w.open("variable", va, true);
        }
        for (const auto &mm : c.math) {
            w.raw(math1x(mm));
        }
        w.close("component");
    }
    if (m.hasEncapsulation()) {
        Attrs a;
        addIf(a, "cmeta:id", m.encId);
        w.open("group", a);
        // CellML 1.x does not order the children of a group: the relationship_ref elements may come before, between or
        // after the component_ref hierarchies, and a group may carry a (named) containment relationship as well
        std::vector<int> tops;
        for (size_t i = 0; i < m.comps.size(); ++i) {
            if (m.comps[i].parent < 0 && !m.comps[i].children.empty()) {
                tops.push_back(static_cast<int>(i));
            }
        }
        size_t relAt = rng.chance(0.5) ? 0 : rng.below(tops.size() + 1);
        bool containmentToo = rng.chance(0.2);
        bool containmentFirst = rng.chance(0.5);
        for (size_t k = 0; k <= tops.size(); ++k) {
            if (k == relAt) {
                if (containmentToo && containmentFirst) {
                    w.open("relationship_ref", {{"relationship", "containment"}, {"name", "physical"}}, true);
                }
                w.open("relationship_ref", {{"relationship", "encapsulation"}}, true);
                if (containmentToo && !containmentFirst) {
                    w.open("relationship_ref", {{"relationship", "containment"}, {"name", "physical"}}, true);
                }
            }
            if (k < tops.size()) {
                writeEncapsulation1x(w, m, tops[k]);
            }
        }
        w.close("group");
    }
    for (const auto &cn : m.conns) {
        // CellML 2.0's connection element merges 1.x's connection and map_components; the id travels on map_components
        // (that is where libCellML reads it from).
        w.open("connection", {});
        Attrs mca = {{"component_1", m.comps[static_cast<size_t>(cn.c1)].name}, {"component_2", m.comps[static_cast<size_t>(cn.c2)].name}};
        addIf(mca, "cmeta:id", cn.id);
        w.open("map_components", mca, true);
        for (const auto &mp : cn.maps) {
            Attrs ma = {{"variable_1", mp.v1}, {"variable_2", mp.v2}};
            addIf(ma, "cmeta:id", mp.id);
            w.open("map_variables", ma, true);
        }
        w.close("connection");
    }
    w.close("model");
    w.out += "\n";
    return w.out;
}

// ---- object API ----
ModelPtr buildApi(const IrModel &m)
{
    auto model = Model::create(m.name);
    if (!m.id.empty()) {
        model->setId(m.id);
    }
    if (!m.encId.empty()) {
        model->setEncapsulationId(m.encId);
    }
    std::vector<ImportSourcePtr> srcs;
    for (const auto &im : m.imports) {
        auto s = ImportSource::create();
        s->setUrl(im.url);
        if (!im.id.empty()) {
            s->setId(im.id);
        }
        srcs.push_back(s);
    }
    for (const auto &u : m.units) {
        auto units = Units::create(u.name);
        if (!u.id.empty()) {
            units->setId(u.id);
        }
        if (u.import >= 0) {
            units->setSourceUnits(srcs[static_cast<size_t>(u.import)], u.importRef);
        } else if (!u.importRef.empty()) {
            units->setImportReference(u.importRef); // a reference left on a units that is not (or no longer) an import
        }
        for (const auto &k : u.units) {
            double e = k.hasExp ? strtod(k.exp.c_str(), nullptr) : 1.0;
            double mu = k.hasMult ? strtod(k.mult.c_str(), nullptr) : 1.0;
            units->addUnit(k.ref, k.prefix, e, mu, k.id);
        }
        model->addUnits(units);
    }
    std::vector<ComponentPtr> comps;
    for (const auto &c : m.comps) {
        auto comp = Component::create(c.name);
        if (!c.id.empty()) {
            comp->setId(c.id);
        }
        if (!c.encId.empty()) {
            comp->setEncapsulationId(c.encId);
        }
        if (c.import >= 0) {
            comp->setSourceComponent(srcs[static_cast<size_t>(c.import)], c.importRef);
        } else if (!c.importRef.empty()) {
            comp->setImportReference(c.importRef);
        }
        for (const auto &v : c.vars) {
            auto var = Variable::create(v.name);
            if (!v.id.empty()) {
                var->setId(v.id);
            }
            if (!v.units.empty()) {
                auto mu = model->units(v.units);
                if (mu != nullptr) {
                    var->setUnits(mu);
                } else {
                    var->setUnits(v.units);
                }
            }
            if (!v.init.empty()) {
                var->setInitialValue(v.init);
            }
            if (!v.iface.empty()) {
                var->setInterfaceType(v.iface);
            }
            comp->addVariable(var);
        }
        MathStyle ms;
        std::string math;
        for (const auto &mm : c.math) {
            math += mathElement(mm, ms);
        }
        if (!math.empty()) {
            comp->setMath(math);
        }
        for (const auto &r : c.resets) {
            auto reset = Reset::create();
            if (r.hasOrder) {
                reset->setOrder(r.order);
            }
            if (!r.id.empty()) {
                reset->setId(r.id);
            }
            reset->setVariable(comp->variable(r.var));
            reset->setTestVariable(comp->variable(r.testVar));
            reset->setTestValue(mathElement({r.testValue}, ms));
            reset->setResetValue(mathElement({r.resetValue}, ms));
            if (!r.tvId.empty()) {
                reset->setTestValueId(r.tvId);
            }
            if (!r.rvId.empty()) {
                reset->setResetValueId(r.rvId);
            }
            comp->addReset(reset);
        }
        comps.push_back(comp);
    }
    for (size_t i = 0; i < m.comps.size(); ++i) {
        if (m.comps[i].parent < 0) {
            model->addComponent(comps[i]);
        }
    }
    // children in IR order
    for (size_t i = 0; i < m.comps.size(); ++i) {
        for (int k : m.comps[i].children) {
            comps[i]->addComponent(comps[static_cast<size_t>(k)]);
        }
    }
    for (const auto &cn : m.conns) {
        for (const auto &mp : cn.maps) {
            auto v1 = comps[static_cast<size_t>(cn.c1)]->variable(mp.v1);
            auto v2 = comps[static_cast<size_t>(cn.c2)]->variable(mp.v2);
            if (v1 != nullptr && v2 != nullptr) {
                Variable::addEquivalence(v1, v2, mp.id, cn.id);
            }
        }
    }
    return model;
}

// ---- reference dump of the IR, in the format of vh::dumpModel ----
namespace {

std::string irQ(const std::string &s)
{
    return "\"" + s + "\"";
}

std::string irIndent(const std::string &s)
{
    std::string o = "  ";
    for (char c : s) {
        o += c;
        if (c == '\n') {
            o += "  ";
        }
    }
    return o;
}

std::string irNormPrefix(const std::string &p)
{
    if (p.empty()) {
        return "0";
    }
    for (const auto &kv : kPrefixes) {
        if (kv.first == p) {
            return std::to_string(kv.second);
        }
    }
    return std::to_string(atoi(p.c_str()));
}

std::string irCompPath(const IrModel &m, int ci)
{
    std::vector<std::string> parts;
    while (ci >= 0) {
        parts.push_back(m.comps[static_cast<size_t>(ci)].name);
        ci = m.comps[static_cast<size_t>(ci)].parent;
    }
    std::reverse(parts.begin(), parts.end());
    std::string s;
    for (size_t i = 0; i < parts.size(); ++i) {
        if (i != 0U) {
            s += "/";
        }
        s += parts[i];
    }
    return s;
}

std::string irImportInfo(const IrModel &m, int import, const std::string &ref, const DumpOptions &o)
{
    if (!o.imports) {
        return "";
    }
    if (import < 0) {
        return ref.empty() ? "" : " importref-without-source=" + irQ(ref);
    }
    std::string s = " import{url=" + irQ(m.imports[static_cast<size_t>(import)].url) + " ref=" + irQ(ref);
    if (o.ids) {
        s += " srcid=" + irQ(m.imports[static_cast<size_t>(import)].id);
    }
    return s + "}";
}

std::string irDumpComponent(const IrModel &m, int ci, const DumpOptions &o)
{
    const auto &c = m.comps[static_cast<size_t>(ci)];
    std::string s = "component " + irQ(c.name);
    if (o.ids) {
        s += " id=" + irQ(c.id) + " encid=" + irQ(c.encId);
    }
    s += irImportInfo(m, c.import, c.importRef, o);
    MathStyle ms;
    if (o.math) {
        std::string math;
        for (const auto &mm : c.math) {
            math += mathElement(mm, ms);
        }
        s += "\n  math=" + canonXml(math);
    }
    std::vector<std::string> vars;
    for (const auto &v : c.vars) {
        std::string l = "variable " + irQ(v.name);
        if (o.ids) {
            l += " id=" + irQ(v.id);
        }
        l += " units=" + (v.units.empty() ? std::string("<none>") : irQ(v.units));
        l += " init=" + irQ(v.init) + " iface=" + irQ(v.iface);
        vars.push_back(l);
    }
    if (!o.orderSensitive) {
        std::sort(vars.begin(), vars.end());
    }
    for (const auto &v : vars) {
        s += "\n  " + v;
    }
    std::vector<std::string> rs;
    for (const auto &r : c.resets) {
        std::string l = "reset";
        if (o.ids) {
            l += " id=" + irQ(r.id);
        }
        l += std::string(" orderSet=") + (r.hasOrder ? "1" : "0");
        if (r.hasOrder) {
            l += " order=" + std::to_string(r.order);
        }
        std::string path = irCompPath(m, ci);
        l += " var=" + irQ(path + "." + r.var) + " testvar=" + irQ(path + "." + r.testVar);
        if (o.ids) {
            l += " tvid=" + irQ(r.tvId) + " rvid=" + irQ(r.rvId);
        }
        if (o.math) {
            l += "\n  test=" + canonXml(mathElement({r.testValue}, ms));
            l += "\n  value=" + canonXml(mathElement({r.resetValue}, ms));
        }
        rs.push_back(l);
    }
    if (!o.orderSensitive) {
        std::sort(rs.begin(), rs.end());
    }
    for (const auto &r : rs) {
        s += "\n" + irIndent(r);
    }
    std::vector<std::string> kids;
    for (int k : c.children) {
        kids.push_back(irDumpComponent(m, k, o));
    }
    if (!o.orderSensitive) {
        std::sort(kids.begin(), kids.end());
    }
    for (const auto &k : kids) {
        s += "\n" + irIndent(k);
    }
    return s;
}

} // namespace

std::string dumpIr(const IrModel &m, const DumpOptions &o)
{
    std::string s = "model " + irQ(m.name);
    if (o.ids) {
        s += " id=" + irQ(m.id) + " encid=" + irQ(m.encId);
    }
    std::vector<std::string> us;
    for (const auto &u : m.units) {
        std::string l = "units " + irQ(u.name);
        if (o.ids) {
            l += " id=" + irQ(u.id);
        }
        l += irImportInfo(m, u.import, u.importRef, o);
        std::vector<std::string> kids;
        for (const auto &k : u.units) {
            double e = k.hasExp ? strtod(k.exp.c_str(), nullptr) : 1.0;
            double mu = k.hasMult ? strtod(k.mult.c_str(), nullptr) : 1.0;
            std::string kl = "unit ref=" + irQ(k.ref) + " prefix=" + irNormPrefix(k.prefix) + " exp=" + fmtDouble(e, o.digits) + " mult=" + fmtDouble(mu, o.digits);
            if (o.ids) {
                kl += " id=" + irQ(k.id);
            }
            kids.push_back(kl);
        }
        if (!o.orderSensitive) {
            std::sort(kids.begin(), kids.end());
        }
        for (const auto &k : kids) {
            l += "\n  " + k;
        }
        us.push_back(l);
    }
    if (!o.orderSensitive) {
        std::sort(us.begin(), us.end());
    }
    for (const auto &u : us) {
        s += "\n" + irIndent(u);
    }
    std::vector<std::string> cs;
    for (size_t i = 0; i < m.comps.size(); ++i) {
        if (m.comps[i].parent < 0) {
            cs.push_back(irDumpComponent(m, static_cast<int>(i), o));
        }
    }
    if (!o.orderSensitive) {
        std::sort(cs.begin(), cs.end());
    }
    for (const auto &c : cs) {
        s += "\n" + irIndent(c);
    }
    if (o.equivalences) {
        std::set<std::string> eq;
        for (const auto &cn : m.conns) {
            for (const auto &mp : cn.maps) {
                std::string a = irCompPath(m, cn.c1) + "." + mp.v1;
                std::string b = irCompPath(m, cn.c2) + "." + mp.v2;
                std::string line = "equiv " + (a < b ? a + " ~ " + b : b + " ~ " + a);
                if (o.ids) {
                    line += " mapid=" + irQ(mp.id) + " connid=" + irQ(cn.id);
                }
                eq.insert(line);
            }
        }
        for (const auto &l : eq) {
            s += "\n  " + l;
        }
    }
    return s;
}

// ---- permutation of an IR (child order only; content identical) ----
IrModel permuteIr(const IrModel &src, Rng &rng)
{
    IrModel m = src;
    size_t n = m.comps.size();
    std::vector<int> perm(n);
    for (size_t i = 0; i < n; ++i) {
        perm[i] = static_cast<int>(i);
    }
    rng.shuffle(perm); // new position p holds old component perm[p]
    std::vector<int> where(n);
    for (size_t p = 0; p < n; ++p) {
        where[static_cast<size_t>(perm[p])] = static_cast<int>(p);
    }
    std::vector<IrComponent> nc(n);
    for (size_t p = 0; p < n; ++p) {
        nc[p] = src.comps[static_cast<size_t>(perm[p])];
        if (nc[p].parent >= 0) {
            nc[p].parent = where[static_cast<size_t>(nc[p].parent)];
        }
        for (auto &k : nc[p].children) {
            k = where[static_cast<size_t>(k)];
        }
        rng.shuffle(nc[p].children);
        rng.shuffle(nc[p].vars);
        rng.shuffle(nc[p].resets);
    }
    m.comps = nc;
    for (auto &cn : m.conns) {
        cn.c1 = where[static_cast<size_t>(cn.c1)];
        cn.c2 = where[static_cast<size_t>(cn.c2)];
        rng.shuffle(cn.maps);
    }
    rng.shuffle(m.conns);
    rng.shuffle(m.units);
    for (auto &u : m.units) {
        rng.shuffle(u.units);
    }
    return m;
}


} // namespace vh
