// C05: analysis classifies every model and variable correctly and consistently.
// Oracle: ground truth of the semantic generator (role of every quantity, model type), structural invariants of a valid
// AnalyserModel read through public accessors, under-/over-/unsuitably constrained variants obtained by deleting and
// duplicating defining equations, and metamorphic variants (permutation of every child list, consistent renaming).
#include "sem.h"
#include "vh.h"

#include <algorithm>

using namespace vh;

int64_t vh_case_count(const std::string &tier, uint64_t)
{
    return tier == "thorough" ? 6000 : 500;
}

struct Classification
{
    bool valid = false;
    std::string type;
    std::map<int, std::string> role;      // quantity -> analyser variable type (incl. voi/state)
    std::string issues;
    size_t errors = 0;
};

static std::string compNameOf(const SemModel &m, int c)
{
    return m.compName.size() == static_cast<size_t>(m.ncomp) ? m.compName[static_cast<size_t>(c)] : "comp" + std::to_string(c);
}

static int quantityOfVariable(const SemModel &m, const VariablePtr &v)
{
    auto c = std::dynamic_pointer_cast<Component>(v->parent());
    std::string cn = c != nullptr ? c->name() : "";
    for (size_t qi = 0; qi < m.q.size(); ++qi) {
        for (const auto &in : m.q[qi].inst) {
            if (in.name == v->name() && compNameOf(m, in.comp) == cn) {
                return static_cast<int>(qi);
            }
        }
    }
    return -1;
}

static void leafQuantities(const ExprP &e, std::set<int> &out)
{
    if (e == nullptr) {
        return;
    }
    if (e->op == Op::CI && e->quantity >= 0) {
        out.insert(e->quantity);
    }
    for (const auto &k : e->kids) {
        leafQuantities(k, out);
    }
}

// everything the analysis says about a model, as text (variables by path, so that two analyses are comparable)
static std::string analysisDigest(const AnalyserPtr &analyser)
{
    auto am = analyser->model();
    if (am == nullptr) {
        return "null";
    }
    std::string d = "type=" + AnalyserModel::typeAsString(am->type()) + " errors=" + std::to_string(analyser->errorCount()) + " issues=" + std::to_string(analyser->issueCount()) + "\n";
    if (!am->isValid()) {
        for (size_t i = 0; i < analyser->issueCount(); ++i) {
            d += "issue " + analyser->issue(i)->description() + "\n";
        }
        return d;
    }
    if (am->voi() != nullptr) {
        d += "voi " + variablePath(am->voi()->variable()) + "\n";
    }
    for (const auto &v : am->states()) {
        d += "state " + std::to_string(v->index()) + " " + variablePath(v->variable()) + " eqs=" + std::to_string(v->equationCount()) + "\n";
    }
    for (const auto &v : am->variables()) {
        d += "variable " + std::to_string(v->index()) + " " + variablePath(v->variable()) + " " + AnalyserVariable::typeAsString(v->type()) + " eqs=" + std::to_string(v->equationCount()) + "\n";
    }
    for (const auto &e : am->equations()) {
        d += "equation " + AnalyserEquation::typeAsString(e->type()) + " deps=" + std::to_string(e->dependencyCount()) + " nla=" + std::to_string(e->nlaSystemIndex() == static_cast<size_t>(-1) ? -1L : static_cast<long>(e->nlaSystemIndex())) + " computes";
        for (const auto &v : e->variables()) {
            d += " " + variablePath(v->variable());
        }
        d += "\n";
    }
    return d;
}

// analyse one rendering of the model; checks structural invariants when valid
static Classification analyse(const SemModel &m, const IrModel &ir, Rng &rng, const std::string &variant, bool judgeInvariants)
{
    Classification cl;
    std::string text = writeCellml2(ir, rng);
    auto parser = Parser::create(true);
    auto model = parser->parseModel(text);
    if (model == nullptr || parser->issueCount() != 0) {
        viol("C05", "harness:model-not-parsed:" + variant, issueSummary(*parser), text);
        return cl;
    }
    stage("analyse " + variant);
    auto analyser = Analyser::create();
    analyser->analyseModel(model);
    monitorLogger(*analyser, "Analyser::analyseModel", text);
    auto am = analyser->model();
    cl.type = am != nullptr ? AnalyserModel::typeAsString(am->type()) : "null";
    cl.valid = am != nullptr && am->isValid();
    cl.errors = analyser->errorCount();
    cl.issues = issueSummary(*analyser, 5);
    if (am == nullptr) {
        return cl;
    }
    // "consistently": analysing the SAME model object again, with the same analyser and with a new one, says the same
    if (judgeInvariants) {
        std::string d1 = analysisDigest(analyser);
        analyser->analyseModel(model);
        monitorLogger(*analyser, "Analyser::analyseModel(again)", text);
        std::string d2 = analysisDigest(analyser);
        auto fresh = Analyser::create();
        fresh->analyseModel(model);
        std::string d3 = analysisDigest(fresh);
        stat("reanalyses_compared");
        if (d2 != d1) {
            viol("C05", "consistency:second-analysis-with-the-same-analyser-differs:" + variant, firstDiff(d1, d2), text);
        }
        if (d3 != d1) {
            viol("C05", "consistency:analysis-with-a-new-analyser-differs:" + variant, firstDiff(d1, d3), text);
        }
        am = analyser->model();
    }
    {
        auto t = am->type();
        bool bad = t == AnalyserModel::Type::INVALID || t == AnalyserModel::Type::UNDERCONSTRAINED || t == AnalyserModel::Type::OVERCONSTRAINED || t == AnalyserModel::Type::UNSUITABLY_CONSTRAINED;
        monitorExplained(bad, *analyser, "Analyser::analyseModel(" + cl.type + ")", text);
    }
    if (!cl.valid) {
        return cl;
    }
    // roles
    std::vector<AnalyserVariablePtr> all;
    if (am->voi() != nullptr) {
        all.push_back(am->voi());
    }
    for (const auto &s : am->states()) {
        all.push_back(s);
    }
    for (const auto &v : am->variables()) {
        all.push_back(v);
    }
    std::map<int, int> seenCount;
    for (const auto &av : all) {
        int qi = quantityOfVariable(m, av->variable());
        if (qi < 0) {
            viol("C05", "invariant:analyser-variable-not-in-model:" + variant, av->variable()->name(), text);
            continue;
        }
        ++seenCount[qi];
        cl.role[qi] = AnalyserVariable::typeAsString(av->type());
    }
    if (!judgeInvariants) {
        return cl;
    }
    stat("valid_models_checked");
    // 1. every class of connected variables appears exactly once
    for (size_t qi = 0; qi < m.q.size(); ++qi) {
        int n = seenCount.count(static_cast<int>(qi)) != 0U ? seenCount[static_cast<int>(qi)] : 0;
        stat("classes_checked");
        if (n != 1) {
            viol("C05", std::string("invariant:class-appears-") + (n == 0 ? "never" : "twice") + ":" + qkindName(m.q[qi].kind) + ":" + variant, m.q[qi].inst[0].name + " appears " + std::to_string(n) + " times among voi/states/variables", text);
        }
    }
    // 2. dense, unique indices
    for (size_t i = 0; i < am->stateCount(); ++i) {
        if (am->state(i) == nullptr || am->state(i)->index() != i || am->state(i)->type() != AnalyserVariable::Type::STATE) {
            viol("C05", "invariant:state-index:" + variant, "state(" + std::to_string(i) + ")", text);
        }
    }
    for (size_t i = 0; i < am->variableCount(); ++i) {
        if (am->variable(i) == nullptr || am->variable(i)->index() != i) {
            viol("C05", "invariant:variable-index:" + variant, "variable(" + std::to_string(i) + ")", text);
        }
    }
    if (am->state(am->stateCount()) != nullptr || am->variable(am->variableCount()) != nullptr || am->equation(am->equationCount()) != nullptr) {
        viol("C05", "invariant:accessor-past-end-not-null:" + variant, "", text);
    }
    // 3. every state and computed variable is computed by exactly one equation or by the equations of one NLA system
    std::map<const AnalyserEquation *, size_t> eqIndex;
    for (size_t i = 0; i < am->equationCount(); ++i) {
        eqIndex[am->equation(i).get()] = i;
    }
    for (const auto &av : all) {
        auto t = av->type();
        bool computed = t == AnalyserVariable::Type::STATE || t == AnalyserVariable::Type::COMPUTED_CONSTANT || t == AnalyserVariable::Type::ALGEBRAIC;
        if (!computed) {
            continue;
        }
        stat("computed_variables_checked");
        auto eqs = av->equations();
        if (eqs.empty()) {
            viol("C05", "invariant:computed-variable-without-equation:" + AnalyserVariable::typeAsString(t) + ":" + variant, av->variable()->name(), text);
            continue;
        }
        bool allNla = true;
        std::set<size_t> systems;
        for (const auto &e : eqs) {
            if (e == nullptr || eqIndex.count(e.get()) == 0U) {
                viol("C05", "invariant:variable-equation-not-in-model:" + variant, av->variable()->name(), text);
                continue;
            }
            allNla = allNla && e->type() == AnalyserEquation::Type::NLA;
            systems.insert(e->nlaSystemIndex());
            // the equation lists this variable among the variables it computes
            bool lists = false;
            for (const auto &ev : e->variables()) {
                lists = lists || ev == av;
            }
            if (!lists) {
                viol("C05", "invariant:equation-does-not-list-its-variable:" + AnalyserEquation::typeAsString(e->type()) + ":" + variant, av->variable()->name(), text);
            }
        }
        if (eqs.size() > 1 && (!allNla || systems.size() != 1)) {
            viol("C05", "invariant:variable-computed-by-several-equations:" + variant, av->variable()->name() + " has " + std::to_string(eqs.size()) + " equations", text);
        }
    }
    // 3b. NLA bookkeeping is consistent: the siblings of an NLA equation are exactly the other equations carrying the same
    //     system index, and equations of different systems compute disjoint sets of variables
    {
        std::map<size_t, std::set<const AnalyserEquation *>> bySystem;
        for (size_t i = 0; i < am->equationCount(); ++i) {
            auto e = am->equation(i);
            if (e->type() == AnalyserEquation::Type::NLA) {
                bySystem[e->nlaSystemIndex()].insert(e.get());
            }
        }
        for (size_t i = 0; i < am->equationCount(); ++i) {
            auto e = am->equation(i);
            if (e->type() != AnalyserEquation::Type::NLA) {
                continue;
            }
            stat("nla_equations_checked");
            std::set<const AnalyserEquation *> sib;
            for (const auto &x : e->nlaSiblings()) {
                sib.insert(x.get());
            }
            auto expect = bySystem[e->nlaSystemIndex()];
            expect.erase(e.get());
            if (sib != expect) {
                viol("C05", "invariant:nla-siblings-disagree-with-system-index:" + variant, "equation " + std::to_string(i) + " system " + std::to_string(e->nlaSystemIndex()) + " has " + std::to_string(sib.size()) + " siblings, " + std::to_string(expect.size()) + " other equations carry its index", text);
            }
        }
        seen("nla_system_count", std::to_string(bySystem.size()));
    }
    // 4. dependencies: an equation depends on the equations computing the computed (non-state) variables it reads
    std::map<int, AnalyserVariablePtr> avOf;
    for (const auto &av : all) {
        int qi = quantityOfVariable(m, av->variable());
        if (qi >= 0) {
            avOf[qi] = av;
        }
    }
    for (size_t qi = 0; qi < m.q.size(); ++qi) {
        const auto &q = m.q[qi];
        if (q.def == nullptr || avOf.count(static_cast<int>(qi)) == 0U) {
            continue;
        }
        auto eqs = avOf[static_cast<int>(qi)]->equations();
        if (eqs.size() != 1 || eqs[0] == nullptr) {
            continue;
        }
        std::set<int> reads;
        leafQuantities(q.def, reads);
        auto deps = eqs[0]->dependencies();
        for (int r : reads) {
            const auto &rq = m.q[static_cast<size_t>(r)];
            if (rq.kind != QKind::COMPUTED_CONSTANT && rq.kind != QKind::ALGEBRAIC) {
                continue;
            }
            if (avOf.count(r) == 0U) {
                continue;
            }
            stat("dependencies_checked");
            auto req = avOf[r]->equations();
            bool found = false;
            for (const auto &d : deps) {
                for (const auto &x : req) {
                    found = found || d == x;
                }
            }
            if (!found && r != static_cast<int>(qi)) {
                viol("C05", std::string("invariant:missing-dependency:") + qkindName(q.kind) + "-reads-" + qkindName(rq.kind) + ":" + variant,
                     "equation of " + q.inst[0].name + " reads " + rq.inst[0].name + " but does not depend on the equation computing it", text);
            }
        }
    }
    // 5. directly solved equations admit a topological order (dependency graph acyclic outside NLA systems)
    {
        std::vector<int> state(am->equationCount(), 0);
        bool cyclic = false;
        std::function<void(size_t)> dfs = [&](size_t i) {
            state[i] = 1;
            for (const auto &d : am->equation(i)->dependencies()) {
                if (d == nullptr || eqIndex.count(d.get()) == 0U) {
                    continue;
                }
                size_t j = eqIndex[d.get()];
                if (am->equation(i)->type() == AnalyserEquation::Type::NLA && am->equation(j)->type() == AnalyserEquation::Type::NLA) {
                    continue;
                }
                // reading a state does not require its rate: an ODE equation computes the RATE of its variable, the state's
                // value comes from the integrator, so an edge into an ODE equation is not an ordering constraint
                if (am->equation(j)->type() == AnalyserEquation::Type::ODE) {
                    continue;
                }
                if (state[j] == 1) {
                    cyclic = true;
                } else if (state[j] == 0) {
                    dfs(j);
                }
            }
            state[i] = 2;
        };
        for (size_t i = 0; i < am->equationCount(); ++i) {
            if (state[i] == 0) {
                dfs(i);
            }
        }
        if (cyclic) {
            viol("C05", "invariant:cyclic-dependencies:" + variant, "", text);
        }
    }
    return cl;
}

static std::string expectedRole(const Quantity &q)
{
    switch (q.kind) {
    case QKind::CONSTANT: return "constant";
    case QKind::COMPUTED_CONSTANT: return "computed_constant";
    case QKind::VOI: return "variable_of_integration";
    case QKind::STATE: return "state";
    case QKind::ALGEBRAIC:
    case QKind::NLA_UNKNOWN: return "algebraic";
    case QKind::EXTERNAL: return "external";
    }
    return "?";
}

static SemModel renameAll(const SemModel &src, Rng &rng)
{
    SemModel m = src;
    m.compName.clear();
    for (int c = 0; c < m.ncomp; ++c) {
        m.compName.push_back("renamed_" + std::string(1, static_cast<char>('A' + rng.below(26))) + std::to_string(c * 7 + 3));
    }
    int n = 0;
    // new names unrelated to roles and sorted differently from the originals
    for (auto &q : m.q) {
        for (auto &in : q.inst) {
            in.name = std::string(1, static_cast<char>('z' - (n % 26))) + "_" + std::to_string(1000 - n);
            ++n;
        }
    }
    return m;
}

void vh_run_case(Ctx &ctx)
{
    Rng &rng = ctx.rng;
    SemOptions so;
    so.maxComponents = rng.range(1, 5);
    so.constants = rng.range(1, 4);
    so.computedConstants = rng.range(0, 3);
    so.ode = rng.chance(0.75);
    so.states = rng.range(1, 3);
    so.algebraics = rng.range(0, 4);
    so.nla = rng.chance(0.3);
    so.scaledUnits = rng.chance(0.5);
    so.exprDepth = rng.range(1, 2);
    so.nlaGuess = rng.chance(0.5);
    so.nlaDense = rng.chance(0.4);
    so.nlaSystems = rng.chance(0.35) ? 2 : 1;
    so.nlaInterleave = so.nlaSystems == 2 && rng.chance(0.4);
    so.compoundUnits = rng.chance(0.3);
    SemModel m = generateSemModel(rng, so);
    std::string wantType = m.voi >= 0 ? (m.nla.empty() ? "ode" : "dae") : (m.nla.empty() ? "algebraic" : "nla");
    IrModel ir = semToIr(m);
    std::string shape;
    for (const auto &q : m.q) {
        shape += qkindName(q.kind)[0];
        shape += std::to_string(q.inst.size());
    }
    std::string replayBase = "expected type " + wantType + "; quantities " + shape;

    // shape of the implicit system (attributes findings): none | n1 | coupled | triangular (some equation reads a single unknown)
    std::string nlaShape = "none";
    if (!m.nla.empty()) {
        const auto &sys = m.nla[0];
        nlaShape = sys.unknowns.size() == 1 ? "n1" : "coupled";
        if (sys.unknowns.size() > 1) {
            for (const auto &eq : sys.equations) {
                std::set<int> r;
                leafQuantities(eq.lhs, r);
                leafQuantities(eq.rhs, r);
                if (r.size() == 1) {
                    nlaShape = "triangular";
                }
            }
        }
    }
    if (!m.nla.empty()) {
        if (so.nlaDense && m.nla[0].unknowns.size() > 1) {
            nlaShape = "dense";
        }
        nlaShape += so.nlaGuess ? "+guess" : "+noguess";
        if (m.nla.size() > 1) {
            // shape of the sparsest system decides analysability; two systems are labelled as such
            for (size_t si = 1; si < m.nla.size(); ++si) {
                const auto &sy = m.nla[si];
                if (sy.unknowns.size() > 1 && !so.nlaDense) {
                    bool tri = false;
                    for (const auto &eq : sy.equations) {
                        std::set<int> r;
                        leafQuantities(eq.lhs, r);
                        leafQuantities(eq.rhs, r);
                        tri = tri || r.size() == 1;
                    }
                    if (tri && nlaShape.find("triangular") == std::string::npos) {
                        nlaShape = "triangular" + nlaShape.substr(nlaShape.find('+'));
                    } else if (nlaShape.rfind("n1", 0) == 0) {
                        nlaShape = "coupled" + nlaShape.substr(nlaShape.find('+'));
                    }
                } else if (sy.unknowns.size() > 1 && nlaShape.rfind("n1", 0) == 0) {
                    nlaShape = "dense" + nlaShape.substr(nlaShape.find('+'));
                }
            }
        }
    }
    seen("nla_shape", nlaShape);
    stat("nla_" + nlaShape);
    // ---- base model: classification against the ground truth + invariants
    Classification base = analyse(m, ir, rng, "base", true);
    stat("models_analysed");
    seen("model_type", base.type);
    if (base.valid && !m.nla.empty()) {
        stat("nla_ok_" + nlaShape);
    }
    if (!base.valid) {
        std::string rule = "none";
        viol("C05", "valid-model-not-analysable:" + base.type + "-expected-" + wantType + ":nla-" + nlaShape, base.issues, writeCellml2(ir, WriteStyle()));
    } else {
        if (base.type != wantType) {
            viol("C05", "model-type:" + base.type + "-expected-" + wantType, replayBase, writeCellml2(ir, WriteStyle()));
        }
        for (size_t qi = 0; qi < m.q.size(); ++qi) {
            stat("roles_checked");
            auto it = base.role.find(static_cast<int>(qi));
            std::string got = it != base.role.end() ? it->second : "<absent>";
            std::string want = expectedRole(m.q[qi]);
            seen("role", want);
            // the unknown of an implicit system that reads only constants is constant in time: either role is defensible
            bool nlaEither = m.q[qi].kind == QKind::NLA_UNKNOWN && (got == "algebraic" || got == "computed_constant");
            if (got != want && got != "<absent>" && !nlaEither) {
                std::string extra;
                if (m.q[qi].lhsOnRight) {
                    extra += "+lhs-on-right";
                }
                if (m.q[qi].kind == QKind::STATE && m.q[qi].initByQuantity >= 0) {
                    extra += "+init-by-constant";
                }
                viol("C05", "role:" + got + "-expected-" + want + extra, m.q[qi].inst[0].name + "; " + replayBase, writeCellml2(ir, WriteStyle()));
            }
        }
    }

    // ---- metamorphic variants: permutations and a consistent renaming
    int variants = ctx.thorough() ? 4 : 2;
    for (int v = 0; v < variants && base.valid; ++v) {
        bool rename = v % 2 == 1;
        SemModel mv = rename ? renameAll(m, rng) : m;
        IrModel irv = permuteIr(semToIr(mv), rng);
        for (auto &c : irv.comps) {
            for (auto &mm : c.math) {
                rng.shuffle(mm);
            }
        }
        std::string vn = rename ? "renamed+permuted" : "permuted";
        Classification cv = analyse(mv, irv, rng, vn, true);
        stat("metamorphic_variants");
        if (cv.type != base.type || cv.valid != base.valid) {
            viol("C05", "metamorphic:type-changed:" + vn + ":" + base.type + "->" + cv.type, cv.issues, writeCellml2(irv, WriteStyle()) + "\n<!-- base -->\n" + writeCellml2(ir, WriteStyle()));
            continue;
        }
        for (const auto &kv : base.role) {
            auto it = cv.role.find(kv.first);
            std::string got = it != cv.role.end() ? it->second : "<absent>";
            if (got != kv.second) {
                viol("C05", "metamorphic:role-changed:" + vn + ":" + kv.second + "->" + got, m.q[static_cast<size_t>(kv.first)].inst[0].name, writeCellml2(irv, WriteStyle()) + "\n<!-- base -->\n" + writeCellml2(ir, WriteStyle()));
            }
        }
    }

    // ---- constrained variants
    std::vector<int> computed;
    for (size_t qi = 0; qi < m.q.size(); ++qi) {
        if (m.q[qi].kind == QKind::COMPUTED_CONSTANT || m.q[qi].kind == QKind::ALGEBRAIC) {
            computed.push_back(static_cast<int>(qi));
        }
    }
    // readers[q] = computed quantities whose definition reads q
    std::map<int, std::set<int>> readers;
    for (size_t qi = 0; qi < m.q.size(); ++qi) {
        std::set<int> r;
        leafQuantities(m.q[qi].def, r);
        for (int x : r) {
            readers[x].insert(static_cast<int>(qi));
        }
    }
    // under-constrained victims: computed quantities that some other definition reads (so the unknown is needed)
    std::vector<int> needed;
    // over-constrained victims: computed quantities whose own definition reads no computed quantity
    std::vector<int> selfContained;
    for (int c : computed) {
        if (!readers[c].empty()) {
            needed.push_back(c);
        }
        std::set<int> r;
        leafQuantities(m.q[static_cast<size_t>(c)].def, r);
        bool plain = true;
        for (int x : r) {
            auto k = m.q[static_cast<size_t>(x)].kind;
            plain = plain && (k == QKind::CONSTANT || k == QKind::STATE || k == QKind::VOI);
        }
        if (plain) {
            selfContained.push_back(c);
        }
    }
    int kind = rng.range(0, 2); // 0 under, 1 over, 2 unsuitably
    bool feasible = m.nla.empty() && ((kind == 0 && !needed.empty()) || (kind == 1 && !selfContained.empty()) || (kind == 2 && !needed.empty() && !selfContained.empty()));
    if (feasible && base.valid) {
        int victim = kind == 1 ? rng.pick(selfContained) : rng.pick(needed);
        int dup = -1;
        if (kind == 2) {
            std::vector<int> cands;
            for (int c : selfContained) {
                if (c != victim) {
                    cands.push_back(c);
                }
            }
            if (cands.empty()) {
                kind = 0;
            } else {
                dup = rng.pick(cands);
            }
        }
        IrModel irc = ir;
        const auto &q = m.q[static_cast<size_t>(victim)];
        const auto &di = q.inst[static_cast<size_t>(q.defInst)];
        auto &eqs = irc.comps[static_cast<size_t>(di.comp)].math[0];
        // locate the defining equation: semToIr writes one equation per defined quantity, in quantity order, per component
        int at = 0;
        for (int qj = 0; qj < victim; ++qj) {
            const auto &qq = m.q[static_cast<size_t>(qj)];
            if (qq.def != nullptr && qq.inst[static_cast<size_t>(qq.defInst)].comp == di.comp) {
                ++at;
            }
        }
        if (at >= static_cast<int>(eqs.size())) {
            at = -1;
        }
        if (at >= 0) {
            std::string want;
            if (kind == 0 || kind == 2) {
                // delete the definition of `victim`
                eqs.erase(eqs.begin() + at);
                want = "underconstrained";
            }
            if (kind == 1 || kind == 2) {
                // define a self-contained computed quantity a second time with a different value
                int other = kind == 1 ? victim : dup;
                const auto &oq = m.q[static_cast<size_t>(other)];
                const auto &oi = oq.inst[static_cast<size_t>(oq.defInst)];
                auto &oeqs = irc.comps[static_cast<size_t>(oi.comp)].math[0];
                oeqs.push_back(mkOp(Op::EQ, {mkCi(oi.name), mkCnD(123.5)}));
                want = kind == 1 ? "overconstrained" : "unsuitably_constrained";
            }
            if (irc.comps[static_cast<size_t>(di.comp)].math[0].empty()) {
                irc.comps[static_cast<size_t>(di.comp)].math.clear();
            }
            std::string text = writeCellml2(irc, WriteStyle());
            auto model = Parser::create(true)->parseModel(text);
            if (model != nullptr) {
                stage("analyse constrained " + want);
                auto analyser = Analyser::create();
                analyser->analyseModel(model);
                monitorLogger(*analyser, "Analyser::analyseModel", text);
                auto am = analyser->model();
                std::string got = am != nullptr ? AnalyserModel::typeAsString(am->type()) : "null";
                stat("constrained_variants");
                seen("constrained_type", got);
                // Deleting the definition of a quantity that other definitions read leaves those unknown too: still
                // under-constrained.  A deleted quantity that nothing reads and that is not connected is merely unused.
                if (got != want) {
                    std::string detail = "victim " + q.inst[0].name + " (" + qkindName(q.kind) + "), expected " + want + ", analyser says " + got + "\n" + issueSummary(*analyser, 6);
                    viol("C05", "constrained:" + got + "-expected-" + want + ":" + qkindName(q.kind), detail, text);
                }
                if (analyser->errorCount() == 0) {
                    viol("C05", "constrained:no-error:" + want, "", text);
                }
                monitorExplained(true, *analyser, "Analyser::analyseModel(" + got + ")", text);
            }
        }
    }
    // ---- over-constrained through a duplicated ODE (second, constant rate for one state)
    {
        // only states whose rate reads no computed quantity (otherwise the extra ODE can be read as an equation for that
        // quantity and the ground truth is no longer clear-cut).  When the extra ODE comes first, the real one is the
        // surplus equation, and if it reads an initialised constant libcellml legitimately takes it as an (NLA) equation
        // for that constant with the initial value as a guess: then only rates over states and the variable of
        // integration have a clear-cut expectation.
        bool extraFirst = rng.chance(0.5);
        std::vector<int> sts;
        for (int sq : stateQuantities(m)) {
            std::set<int> r;
            leafQuantities(m.q[static_cast<size_t>(sq)].def, r);
            bool plain = true;
            for (int x : r) {
                auto k = m.q[static_cast<size_t>(x)].kind;
                plain = plain && ((k == QKind::CONSTANT && !extraFirst) || k == QKind::STATE || k == QKind::VOI);
            }
            if (plain) {
                sts.push_back(sq);
            }
        }
        if (!sts.empty() && base.valid && m.nla.empty() && ctx.index % 3 == 0) {
            int s = rng.pick(sts);
            const auto &q = m.q[static_cast<size_t>(s)];
            const auto &di = q.inst[static_cast<size_t>(q.defInst)];
            IrModel irc = ir;
            std::string tname = m.q[static_cast<size_t>(m.voi)].inst[0].name;
            for (const auto &in : m.q[static_cast<size_t>(m.voi)].inst) {
                if (in.comp == di.comp) {
                    tname = in.name;
                }
            }
            auto &eqs = irc.comps[static_cast<size_t>(di.comp)].math[0];
            auto extra = mkOp(Op::EQ, {mkDiff(di.name, tname), mkCnD(2.5)});
            if (!extraFirst) {
                eqs.push_back(extra);
            } else {
                eqs.insert(eqs.begin(), extra);
            }
            std::string text = writeCellml2(irc, WriteStyle());
            auto model = Parser::create(true)->parseModel(text);
            if (model != nullptr) {
                stage("analyse duplicated-ode");
                auto analyser = Analyser::create();
                analyser->analyseModel(model);
                monitorLogger(*analyser, "Analyser::analyseModel", text);
                auto am = analyser->model();
                std::string got = am != nullptr ? AnalyserModel::typeAsString(am->type()) : "null";
                stat("constrained_variants");
                stat("duplicated_ode_variants");
                if (got != "overconstrained") {
                    viol("C05", "constrained:" + got + "-expected-overconstrained:duplicated-ode", "state " + q.inst[0].name + " has two ODEs\n" + issueSummary(*analyser, 6), text);
                }
            }
        }
    }
    caseInfo("A" + hex64(fnv1a(shape + exprToString(m.q.back().def))), m.q.size() >= 4, replayBase + " comps=" + std::to_string(m.ncomp));
}
