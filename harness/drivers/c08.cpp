// C08: unit compatibility and scaling obey the algebra of units.
//
// One case = one pool of units definitions spread over a main model and two in-memory "library" models
// (main imports from lib1, lib1 imports from lib2; ImportSource::setModel, no files).  An independent
// reference model (units algebra, below) reduces every definition to (base-unit exponent map, log10 SI scale);
// the library's Units::compatible / scalingFactor / equivalent are judged against it and against the
// algebraic laws the property states; then the same pairs are put in front of the Validator (connected
// variables), the Analyser (`p = q` in one component) and the Generator (connected variables, generated C
// compiled with gcc and run) and those verdicts are compared with what the Units functions say.
//
// Direction of the factor (documented in units.h and confirmed by behaviour): scalingFactor(u1, u2) is the
// `factor` with "units2 = factor*units1", i.e. SI(u2)/SI(u1): scalingFactor(metre, millimetre) == 0.001.
// A value expressed in u2 is therefore converted to u1 by multiplying it with scalingFactor(u1, u2).
#include "vh.h"
#include "vhc.h"

#include <algorithm>
#include <cmath>
#include <cstdlib>
#include <cstring>
#include <functional>
#include <map>
#include <set>
#include <sstream>
#include <sys/stat.h>
#include <time.h>

using namespace vh;

namespace {

// ---------------------------------------------------------------------------------------------------------
// Reference tables: CellML 2.0 specification, table of built-in units (section 3.2 "Built-in units") and
// table of prefixes.  Cross-checked by hand against src/utilities.h (standardUnitsList, standardMultiplierList)
// and src/utilities.cpp (standardPrefixList): no disagreement found.
// ---------------------------------------------------------------------------------------------------------
struct StdDef
{
    double scale; // log10 of the SI factor
    std::vector<std::pair<std::string, double>> dim;
};

const std::map<std::string, StdDef> &stdTable()
{
    static const std::map<std::string, StdDef> t = {
        {"ampere", {0, {{"ampere", 1}}}},
        {"becquerel", {0, {{"second", -1}}}},
        {"candela", {0, {{"candela", 1}}}},
        {"coulomb", {0, {{"second", 1}, {"ampere", 1}}}},
        {"dimensionless", {0, {}}},
        {"farad", {0, {{"metre", -2}, {"kilogram", -1}, {"second", 4}, {"ampere", 2}}}},
        {"gram", {-3, {{"kilogram", 1}}}},
        {"gray", {0, {{"metre", 2}, {"second", -2}}}},
        {"henry", {0, {{"metre", 2}, {"kilogram", 1}, {"second", -2}, {"ampere", -2}}}},
        {"hertz", {0, {{"second", -1}}}},
        {"joule", {0, {{"metre", 2}, {"kilogram", 1}, {"second", -2}}}},
        {"katal", {0, {{"second", -1}, {"mole", 1}}}},
        {"kelvin", {0, {{"kelvin", 1}}}},
        {"kilogram", {0, {{"kilogram", 1}}}},
        {"litre", {-3, {{"metre", 3}}}},
        {"lumen", {0, {{"candela", 1}}}},
        {"lux", {0, {{"metre", -2}, {"candela", 1}}}},
        {"metre", {0, {{"metre", 1}}}},
        {"mole", {0, {{"mole", 1}}}},
        {"newton", {0, {{"metre", 1}, {"kilogram", 1}, {"second", -2}}}},
        {"ohm", {0, {{"metre", 2}, {"kilogram", 1}, {"second", -3}, {"ampere", -2}}}},
        {"pascal", {0, {{"metre", -1}, {"kilogram", 1}, {"second", -2}}}},
        {"radian", {0, {}}},
        {"second", {0, {{"second", 1}}}},
        {"siemens", {0, {{"metre", -2}, {"kilogram", -1}, {"second", 3}, {"ampere", 2}}}},
        {"sievert", {0, {{"metre", 2}, {"second", -2}}}},
        {"steradian", {0, {}}},
        {"tesla", {0, {{"kilogram", 1}, {"second", -2}, {"ampere", -1}}}},
        {"volt", {0, {{"metre", 2}, {"kilogram", 1}, {"second", -3}, {"ampere", -1}}}},
        {"watt", {0, {{"metre", 2}, {"kilogram", 1}, {"second", -3}}}},
        {"weber", {0, {{"metre", 2}, {"kilogram", 1}, {"second", -2}, {"ampere", -1}}}},
    };
    return t;
}

const std::vector<std::pair<std::string, int>> &prefixTable()
{
    static const std::vector<std::pair<std::string, int>> t = {
        {"yotta", 24}, {"zetta", 21}, {"exa", 18}, {"peta", 15}, {"tera", 12}, {"giga", 9}, {"mega", 6}, {"kilo", 3}, {"hecto", 2}, {"deca", 1},
        {"deci", -1}, {"centi", -2}, {"milli", -3}, {"micro", -6}, {"nano", -9}, {"pico", -12}, {"femto", -15}, {"atto", -18}, {"zepto", -21}, {"yocto", -24}};
    return t;
}

bool isStd(const std::string &n)
{
    return stdTable().count(n) != 0;
}

// ---------------------------------------------------------------------------------------------------------
// Pool IR
// ---------------------------------------------------------------------------------------------------------
struct Child
{
    std::string ref;
    std::string prefix; // text handed to the API: "", a prefix name or an integer
    int p = 0;          // its meaning
    double e = 1.0;
    double m = 1.0;
    int form = 0; // which addUnit overload: 0 string prefix, 1 int prefix, 2 Prefix enum (named only)
};

enum Kind
{
    K_BASE,
    K_DERIVED,
    K_IMPORT
};

struct UDef
{
    std::string name;
    Kind kind = K_DERIVED;
    std::vector<Child> kids;
    int impModel = -1;
    std::string impRef;
    int undef = 0; // 0: defined by construction; 1: references a missing name; 2: unresolved import; 3: import of a missing name; 4: built on an undefined units
    std::string how = "seed";
    std::string variantOf; // for perm / alias: the units it must behave like
};

struct PoolIR
{
    std::vector<UDef> mdl[3];
    std::vector<std::string> bare; // standard unit names used as stand-alone Units objects (what Variable::units() holds for units="gram")
    const UDef *find(int model, const std::string &name) const
    {
        for (const auto &u : mdl[model]) {
            if (u.name == name) {
                return &u;
            }
        }
        return nullptr;
    }
};

std::string num(double d)
{
    std::ostringstream s;
    s.precision(17);
    s << d;
    return s.str();
}

std::string describe(const UDef &u, int model)
{
    std::string s = "[m" + std::to_string(model) + "] " + u.name + " (" + u.how + ")";
    if (u.kind == K_BASE) {
        return s + " = <base>";
    }
    if (u.kind == K_IMPORT) {
        return s + " = import '" + u.impRef + "' from " + (u.undef == 2 ? std::string("<unresolved>") : "m" + std::to_string(u.impModel));
    }
    s += " =";
    for (const auto &k : u.kids) {
        s += " {" + k.ref;
        if (!k.prefix.empty()) {
            s += " prefix=" + k.prefix;
        }
        if (k.e != 1.0) {
            s += " exp=" + num(k.e);
        }
        if (k.m != 1.0) {
            s += " mult=" + num(k.m);
        }
        s += "}";
    }
    return s;
}

std::string describePool(const PoolIR &P)
{
    std::string s;
    for (int m = 0; m < 3; ++m) {
        for (const auto &u : P.mdl[m]) {
            s += describe(u, m) + "\n";
        }
    }
    s += "bare standard units:";
    for (const auto &b : P.bare) {
        s += " " + b;
    }
    return s + "\n";
}

// Only what a units depends on (for compact witnesses)
void closure(const PoolIR &P, int model, const std::string &name, std::set<std::pair<int, std::string>> &out)
{
    if (isStd(name) || !out.insert({model, name}).second) {
        return;
    }
    const UDef *u = P.find(model, name);
    if (u == nullptr) {
        return;
    }
    if (u->kind == K_IMPORT) {
        if (u->undef == 0) {
            closure(P, u->impModel, u->impRef, out);
        }
    } else {
        for (const auto &k : u->kids) {
            closure(P, model, k.ref, out);
        }
    }
}

std::string describeClosure(const PoolIR &P, const std::vector<std::string> &names)
{
    std::set<std::pair<int, std::string>> cl;
    for (const auto &n : names) {
        closure(P, 0, n, cl);
    }
    std::string s;
    for (int m = 0; m < 3; ++m) {
        for (const auto &u : P.mdl[m]) {
            if (cl.count({m, u.name}) != 0) {
                s += describe(u, m) + "\n";
            }
        }
    }
    return s;
}

// ---------------------------------------------------------------------------------------------------------
// Reference model: units algebra
// ---------------------------------------------------------------------------------------------------------
using Dim = std::map<std::string, double>;

struct Red
{
    bool defined = true;
    Dim dim;               // exponents are dyadic rationals with small numerators: exact in double
    long double scale = 0; // log10 of the SI factor
    int leaves = 0;        // terminal visits of the expansion
    int depth = 0;
    double absScale = 0; // bound on |log10| any of the implementations can accumulate
};

void cleanDim(Dim &d)
{
    for (auto it = d.begin(); it != d.end();) {
        if (it->second == 0.0) {
            it = d.erase(it);
        } else {
            ++it;
        }
    }
}

struct Reducer
{
    const PoolIR &P;
    std::map<std::pair<int, std::string>, Red> memo;
    explicit Reducer(const PoolIR &p)
        : P(p)
    {
    }

    Red stdRed(const std::string &n) const
    {
        Red r;
        const auto &sd = stdTable().at(n);
        for (const auto &kv : sd.dim) {
            r.dim[kv.first] += kv.second;
        }
        r.scale = sd.scale;
        r.leaves = 1;
        r.absScale = std::fabs(sd.scale);
        return r;
    }

    Red reduce(int model, const std::string &name)
    {
        if (isStd(name)) {
            return stdRed(name);
        }
        auto key = std::make_pair(model, name);
        auto it = memo.find(key);
        if (it != memo.end()) {
            return it->second;
        }
        Red r;
        const UDef *u = P.find(model, name);
        if (u == nullptr) {
            r.defined = false;
        } else if (u->kind == K_BASE) {
            r.dim[name] = 1.0;
            r.leaves = 1;
        } else if (u->kind == K_IMPORT) {
            if (u->undef != 0 || P.find(u->impModel, u->impRef) == nullptr) {
                r.defined = false;
            } else {
                Red t = reduce(u->impModel, u->impRef);
                r = t;
                r.depth = t.depth + 1;
                if (P.find(u->impModel, u->impRef)->kind == K_BASE) {
                    // a directly imported user base unit is its own base unit in the importing model (under the importing name)
                    r.dim.clear();
                    r.dim[name] = 1.0;
                }
            }
        } else {
            int d = 0;
            for (const auto &k : u->kids) {
                Red t = reduce(model, k.ref);
                if (!t.defined) {
                    r.defined = false;
                    continue;
                }
                for (const auto &kv : t.dim) {
                    r.dim[kv.first] += kv.second * k.e;
                }
                r.scale += static_cast<long double>(k.e) * (log10l(static_cast<long double>(k.m)) + static_cast<long double>(k.p) + t.scale);
                r.leaves += t.leaves;
                d = std::max(d, isStd(k.ref) ? 0 : t.depth);
                r.absScale += (std::fabs(std::log10(k.m)) + std::abs(k.p) + t.absScale) * std::max(1.0, std::fabs(k.e));
            }
            r.depth = d + 1;
        }
        cleanDim(r.dim);
        memo[key] = r;
        return r;
    }
};

// Structural features of a definition that decide which of the (differing) formulas in units.cpp, validator.cpp
// and analyser.cpp are exercised.  They are used for *keys* only, never for verdicts.
struct Feat
{
    bool inelig = false;   // a unit child with exponent != 1 carries a prefix or a multiplier  (property: SI-ratio claim not made)
    bool imp = false;      // an imported units is reached
    bool impexp = false;   // ... with an accumulated exponent != 1
    bool fan = false;      // a prefixed/multiplied reference to a user units whose expansion has more than one leaf
    bool outerexp = false; // a scaled standard-unit child (prefix, multiplier, gram, litre) below a reference with accumulated exponent != 1
    bool nested = false;   // references a user units at all
    bool revisit = false;  // depth-first, an import made by the main model is followed *after* an import made by a library was followed
    bool sawLibImport = false; // (walk state)
};

void walkFeat(const PoolIR &P, Reducer &R, int model, const std::string &name, double acc, Feat &F)
{
    if (isStd(name)) {
        return;
    }
    const UDef *u = P.find(model, name);
    if (u == nullptr || u->kind == K_BASE) {
        return;
    }
    if (u->kind == K_IMPORT) {
        F.imp = true;
        if (acc != 1.0) {
            F.impexp = true;
        }
        if (model == 0 && F.sawLibImport) {
            F.revisit = true;
        }
        if (model > 0) {
            F.sawLibImport = true;
        }
        if (u->undef == 0) {
            walkFeat(P, R, u->impModel, u->impRef, acc, F);
        }
        return;
    }
    for (const auto &k : u->kids) {
        bool scaled = k.p != 0 || k.m != 1.0;
        bool s = isStd(k.ref);
        if (scaled && k.e != 1.0) {
            F.inelig = true;
        }
        if (s) {
            if ((scaled || stdTable().at(k.ref).scale != 0.0) && acc != 1.0) {
                F.outerexp = true;
            }
        } else {
            F.nested = true;
            if (scaled && R.reduce(model, k.ref).leaves != 1) {
                F.fan = true;
            }
            walkFeat(P, R, model, k.ref, acc * k.e, F);
        }
    }
}

// ---------------------------------------------------------------------------------------------------------
// Pool generator
// ---------------------------------------------------------------------------------------------------------
const std::vector<double> kExponents = {-1, 2, -2, 3, -3, 0.5, -0.5, 1.5};
const std::vector<double> kMultipliers = {1000, 0.001, 2, 0.5, 10, 0.1, 60, 3600, 1e-6, 2.54, 4.184, 1e6};
const double kAbsScaleMax = 100.0;
const int kMaxDepth = 4;

struct PoolGen
{
    Rng &rng;
    PoolIR &P;
    std::vector<std::string> palette;
    int counter = 0;

    PoolGen(Rng &r, PoolIR &p)
        : rng(r)
        , P(p)
    {
    }

    std::string fresh(int model, const std::string &stem)
    {
        static const char *pre[3] = {"", "l1_", "l2_"};
        return std::string(pre[model]) + stem + std::to_string(counter++);
    }

    void setPrefix(Child &c)
    {
        int k = rng.range(0, 2);
        if (k == 0) {
            const auto &pr = rng.pick(prefixTable());
            c.prefix = pr.first;
            c.p = pr.second;
            c.form = rng.chance(0.3) ? 2 : 0;
        } else {
            int v = rng.range(-12, 12);
            if (v == 0) {
                v = 3;
            }
            c.p = v;
            c.prefix = std::to_string(v);
            c.form = k == 1 ? 0 : 1;
        }
    }

    void maybeScale(Child &c, double pPrefixE1, double pMultE1, double pIneligible)
    {
        if (c.e == 1.0) {
            if (rng.chance(pPrefixE1)) {
                setPrefix(c);
            }
            if (rng.chance(pMultE1)) {
                c.m = rng.pick(kMultipliers);
            }
        } else if (rng.chance(pIneligible)) {
            if (rng.chance(0.7)) {
                setPrefix(c);
            } else {
                c.m = rng.pick(kMultipliers);
            }
        }
    }

    Red red(int model, const UDef &u)
    {
        // reduce a candidate that is not yet in the pool
        PoolIR tmp = P;
        tmp.mdl[model].push_back(u);
        Reducer R(tmp);
        return R.reduce(model, u.name);
    }

    std::vector<std::string> userRefs(int model, int maxDepth)
    {
        std::vector<std::string> out;
        Reducer R(P);
        for (const auto &u : P.mdl[model]) {
            if (u.undef == 0 && u.how != "lonely-base" && R.reduce(model, u.name).depth <= maxDepth) {
                out.push_back(u.name);
            }
        }
        return out;
    }

    Child randChild(int model, int maxRefDepth, double pUser)
    {
        Child c;
        auto refs = userRefs(model, maxRefDepth);
        if (!refs.empty() && rng.chance(pUser)) {
            c.ref = rng.pick(refs);
        } else {
            c.ref = rng.pick(palette);
        }
        if (rng.chance(0.5)) {
            c.e = rng.pick(kExponents);
        }
        maybeScale(c, 0.35, 0.2, 0.12);
        return c;
    }

    // Add a definition if it respects the depth and magnitude bounds; returns success.
    bool add(int model, UDef u)
    {
        if (u.kind == K_DERIVED && u.undef == 0) {
            Red r = red(model, u);
            if (!r.defined || r.depth > kMaxDepth) {
                return false;
            }
            if (r.absScale > kAbsScaleMax) {
                for (auto &k : u.kids) {
                    k.prefix.clear();
                    k.p = 0;
                    k.m = 1.0;
                    k.form = 0;
                }
                r = red(model, u);
                if (r.absScale > kAbsScaleMax) {
                    return false;
                }
            }
        } else if (u.kind == K_IMPORT && u.undef == 0) {
            Red r = red(model, u);
            if (!r.defined || r.depth > kMaxDepth) {
                return false;
            }
        }
        P.mdl[model].push_back(u);
        return true;
    }

    void addRandomDerived(int model, const std::string &stem, int maxRefDepth, double pUser)
    {
        for (int attempt = 0; attempt < 6; ++attempt) {
            UDef u;
            u.name = fresh(model, stem);
            int n = rng.range(1, 3);
            for (int i = 0; i < n; ++i) {
                u.kids.push_back(randChild(model, maxRefDepth, pUser));
            }
            if (add(model, u)) {
                return;
            }
        }
    }

    void addImport(int model, const std::string &target, const std::string &how = "import")
    {
        UDef u;
        u.name = fresh(model, "imp");
        u.kind = K_IMPORT;
        u.impModel = model + 1;
        u.impRef = target;
        u.how = how;
        add(model, u);
    }

    bool stdOnly(const UDef &u) const
    {
        if (u.kind != K_DERIVED) {
            return false;
        }
        for (const auto &k : u.kids) {
            if (!isStd(k.ref)) {
                return false;
            }
        }
        return true;
    }

    void addVariant()
    {
        // choose a defined main-model units to derive a variant from
        std::vector<size_t> cands;
        for (size_t i = 0; i < P.mdl[0].size(); ++i) {
            if (P.mdl[0][i].undef == 0) {
                cands.push_back(i);
            }
        }
        const UDef s = P.mdl[0][rng.pick(cands)];
        int t = rng.range(0, 9);
        UDef u;
        if (t == 0 && s.kind == K_DERIVED) { // rescale
            u = s;
            u.name = fresh(0, "rs");
            u.how = "rescale";
            u.variantOf.clear();
            for (auto &k : u.kids) {
                if (rng.chance(0.6)) {
                    k.prefix.clear();
                    k.p = 0;
                    k.m = 1.0;
                    k.form = 0;
                    maybeScale(k, 0.6, 0.3, 0.15);
                }
            }
            add(0, u);
        } else if (t == 1 && s.kind == K_DERIVED && s.kids.size() >= 2) { // same children, other order
            u = s;
            u.name = fresh(0, "pm");
            u.how = "perm";
            u.variantOf = s.name;
            std::rotate(u.kids.begin(), u.kids.begin() + 1 + static_cast<long>(rng.below(u.kids.size() - 1)), u.kids.end());
            add(0, u);
        } else if (t == 2) { // alias
            u.name = fresh(0, "al");
            u.how = "alias";
            u.variantOf = s.name;
            Child c;
            c.ref = s.name;
            u.kids.push_back(c);
            add(0, u);
        } else if (t == 3) { // scaled alias (exponent 1: eligible)
            u.name = fresh(0, "sa");
            u.how = "scaled-alias";
            Child c;
            c.ref = s.name;
            maybeScale(c, 0.8, 0.4, 0);
            u.kids.push_back(c);
            add(0, u);
        } else if (t == 4 && s.kind == K_DERIVED && s.kids.size() >= 2) { // split through an intermediate units
            UDef mid;
            mid.name = fresh(0, "mid");
            mid.how = "split-part";
            u.name = fresh(0, "sp");
            u.how = "split";
            auto kids = s.kids;
            rng.shuffle(kids);
            size_t cut = 1 + rng.below(kids.size() - 1);
            for (size_t i = 0; i < kids.size(); ++i) {
                (i < cut ? mid.kids : u.kids).push_back(kids[i]);
            }
            Child c;
            c.ref = mid.name;
            u.kids.insert(u.kids.begin() + static_cast<long>(rng.below(u.kids.size() + 1)), c);
            if (add(0, mid)) {
                if (!add(0, u)) {
                    // keep mid; harmless
                }
            }
        } else if (t == 5) { // power of an existing units, and the same thing written out where possible
            double k = rng.pick(kExponents);
            u.name = fresh(0, "pw");
            u.how = "power";
            Child c;
            c.ref = s.name;
            c.e = k;
            maybeScale(c, 0, 0, 0.1);
            u.kids.push_back(c);
            add(0, u);
            const UDef *def = &s;
            int dm = 0;
            if (s.kind == K_IMPORT) {
                def = P.find(s.impModel, s.impRef);
                dm = s.impModel;
            }
            if (def != nullptr && def->kind == K_DERIVED && (dm == 0 || stdOnly(*def))) {
                UDef x;
                x.name = fresh(0, "px");
                x.how = "power-expanded";
                for (auto kid : def->kids) {
                    kid.e *= k;
                    x.kids.push_back(kid);
                }
                rng.shuffle(x.kids);
                add(0, x);
            }
        } else if (t == 6 && s.kind == K_DERIVED) { // replace a derived standard unit by its base-unit expansion
            std::vector<size_t> idx;
            for (size_t i = 0; i < s.kids.size(); ++i) {
                const auto &k = s.kids[i];
                if (isStd(k.ref) && !(stdTable().at(k.ref).dim.size() == 1 && stdTable().at(k.ref).dim[0].first == k.ref) && !stdTable().at(k.ref).dim.empty()) {
                    idx.push_back(i);
                }
            }
            if (idx.empty()) {
                return;
            }
            size_t at = rng.pick(idx);
            u = s;
            u.name = fresh(0, "ex");
            u.how = "std-expanded";
            u.variantOf.clear();
            Child old = u.kids[at];
            u.kids.erase(u.kids.begin() + static_cast<long>(at));
            const auto &sd = stdTable().at(old.ref);
            for (const auto &kv : sd.dim) {
                Child c;
                c.ref = kv.first;
                c.e = kv.second * old.e;
                u.kids.push_back(c);
            }
            // carry the scale of the replaced child on a dimensionless child: (m 10^p 10^std)^e
            Child sc;
            sc.ref = "dimensionless";
            sc.e = old.e;
            sc.m = old.m;
            sc.p = old.p + static_cast<int>(sd.scale);
            sc.prefix = sc.p == 0 ? "" : std::to_string(sc.p);
            sc.form = rng.range(0, 1);
            if (sc.p != 0 || sc.m != 1.0) {
                u.kids.push_back(sc);
            }
            rng.shuffle(u.kids);
            add(0, u);
        } else if (t == 7 && stdOnly(s)) { // same definition (rescaled) placed in lib1 and imported
            UDef l = s;
            l.name = fresh(1, "cp");
            l.how = "copy-of-main";
            l.variantOf.clear();
            for (auto &k : l.kids) {
                if (rng.chance(0.4)) {
                    k.prefix.clear();
                    k.p = 0;
                    k.m = 1.0;
                    k.form = 0;
                    maybeScale(k, 0.6, 0.3, 0.1);
                }
            }
            if (add(1, l)) {
                addImport(0, l.name, "import-of-copy");
            }
        } else if (t == 8) { // random derived over anything already there
            addRandomDerived(0, "d", 3, 0.6);
        } else if (t == 9) { // product with its own inverse and something else: cancelling exponents
            u.name = fresh(0, "cn");
            u.how = "cancel";
            Child a;
            a.ref = s.name;
            a.e = 2;
            Child b;
            b.ref = s.name;
            b.e = -1;
            u.kids = {a, b};
            if (rng.chance(0.5)) {
                u.kids.push_back(randChild(0, 2, 0.3));
            }
            rng.shuffle(u.kids);
            add(0, u);
        }
    }

    void generate()
    {
        // palette of standard units for this pool (small, so that accidental compatibility is common)
        std::vector<std::string> all;
        for (const auto &kv : stdTable()) {
            all.push_back(kv.first);
        }
        rng.shuffle(all);
        palette.assign(all.begin(), all.begin() + 5);
        for (const char *must : {"metre", "second"}) {
            if (rng.chance(0.7)) {
                palette.push_back(must);
            }
        }
        for (const char *opt : {"gram", "litre", "kilogram", "newton", "dimensionless"}) {
            if (rng.chance(0.35)) {
                palette.push_back(opt);
            }
        }

        // lib2
        {
            UDef b;
            b.name = fresh(2, "base");
            b.kind = K_BASE;
            b.how = "user-base";
            add(2, b);
        }
        // user base names are only valid in their own model: they join the palette only while that model is generated
        auto withBase = [&](int model, const std::string &baseName, const std::function<void()> &f) {
            (void)model;
            palette.push_back(baseName);
            f();
            palette.pop_back();
        };
        withBase(2, P.mdl[2][0].name, [&] {
            int n = rng.range(2, 3);
            for (int i = 0; i < n; ++i) {
                addRandomDerived(2, "u", 1, 0.3);
            }
        });
        // lib1
        {
            UDef b;
            b.name = fresh(1, "base");
            b.kind = K_BASE;
            b.how = "user-base";
            add(1, b);
            UDef l;
            l.name = fresh(1, "lonely");
            l.kind = K_BASE;
            l.how = "lonely-base"; // never referenced inside lib1: may be imported directly
            add(1, l);
        }
        withBase(1, P.mdl[1][0].name, [&] {
            int n = rng.range(2, 3);
            for (int i = 0; i < n; ++i) {
                addRandomDerived(1, "u", 1, 0.3);
            }
            int ni = rng.range(1, 2);
            for (int i = 0; i < ni; ++i) {
                // import from lib2 (not its base unit: see notes, identity of a base unit imported under another name is debatable)
                std::vector<std::string> t;
                for (const auto &u : P.mdl[2]) {
                    if (u.kind != K_BASE) {
                        t.push_back(u.name);
                    }
                }
                if (!t.empty()) {
                    addImport(1, rng.pick(t));
                }
            }
            addRandomDerived(1, "v", 2, 0.8);
        });
        // main
        std::string ub0;
        {
            UDef b;
            b.name = fresh(0, "ub");
            b.kind = K_BASE;
            b.how = "user-base";
            add(0, b);
            ub0 = b.name;
            if (rng.chance(0.5)) {
                UDef b2;
                b2.name = fresh(0, "ub");
                b2.kind = K_BASE;
                b2.how = "user-base";
                add(0, b2);
            }
        }
        withBase(0, ub0, [&] {
            int seeds = rng.range(5, 7);
            for (int i = 0; i < seeds; ++i) {
                addRandomDerived(0, "s", 2, i < 2 ? 0.0 : 0.35);
            }
            // imports from lib1
            std::vector<std::string> t;
            for (const auto &u : P.mdl[1]) {
                if (u.kind != K_BASE) {
                    t.push_back(u.name);
                }
            }
            rng.shuffle(t);
            size_t ni = std::min<size_t>(t.size(), static_cast<size_t>(rng.range(2, 3)));
            for (size_t i = 0; i < ni; ++i) {
                addImport(0, t[i]);
            }
            if (rng.chance(0.5)) {
                addImport(0, P.mdl[1][1].name, "import-of-base");
            }
            size_t target = static_cast<size_t>(rng.range(22, 28));
            for (int guard = 0; P.mdl[0].size() < target && guard < 200; ++guard) {
                addVariant();
            }
        });
        // undefined members
        {
            UDef u1;
            u1.name = fresh(0, "und");
            u1.how = "undefined:missing-reference";
            u1.undef = 1;
            Child c;
            c.ref = "no_such_units";
            u1.kids.push_back(c);
            Child c2;
            c2.ref = "metre";
            if (rng.chance(0.5)) {
                u1.kids.push_back(c2);
            }
            P.mdl[0].push_back(u1);
            UDef u2;
            u2.name = fresh(0, "und");
            u2.kind = K_IMPORT;
            u2.how = "undefined:unresolved-import";
            u2.undef = 2;
            u2.impRef = P.mdl[1][0].name;
            P.mdl[0].push_back(u2);
            UDef u3;
            u3.name = fresh(0, "und");
            u3.kind = K_IMPORT;
            u3.how = "undefined:import-of-missing-name";
            u3.undef = 3;
            u3.impModel = 1;
            u3.impRef = "no_such_units";
            P.mdl[0].push_back(u3);
            UDef u4;
            u4.name = fresh(0, "und");
            u4.how = "undefined:built-on-undefined";
            u4.undef = 4;
            Child c4;
            c4.ref = rng.pick(std::vector<std::string> {u1.name, u2.name, u3.name});
            c4.e = rng.chance(0.5) ? 1.0 : 2.0;
            u4.kids.push_back(c4);
            u4.kids.push_back(c2);
            P.mdl[0].push_back(u4);
        }
        // bare standard units
        {
            std::set<std::string> b;
            for (const char *n : {"gram", "litre", "kilogram", "metre"}) {
                if (rng.chance(0.5)) {
                    b.insert(n);
                }
            }
            for (const auto &n : palette) {
                if (isStd(n) && rng.chance(0.4)) {
                    b.insert(n);
                }
            }
            if (b.empty()) {
                b.insert("second");
            }
            P.bare.assign(b.begin(), b.end());
        }
    }
};

// ---------------------------------------------------------------------------------------------------------
// Building libcellml objects from the IR
// ---------------------------------------------------------------------------------------------------------
Units::Prefix prefixEnum(const std::string &n)
{
    static const std::map<std::string, Units::Prefix> t = {
        {"yotta", Units::Prefix::YOTTA}, {"zetta", Units::Prefix::ZETTA}, {"exa", Units::Prefix::EXA}, {"peta", Units::Prefix::PETA}, {"tera", Units::Prefix::TERA},
        {"giga", Units::Prefix::GIGA}, {"mega", Units::Prefix::MEGA}, {"kilo", Units::Prefix::KILO}, {"hecto", Units::Prefix::HECTO}, {"deca", Units::Prefix::DECA},
        {"deci", Units::Prefix::DECI}, {"centi", Units::Prefix::CENTI}, {"milli", Units::Prefix::MILLI}, {"micro", Units::Prefix::MICRO}, {"nano", Units::Prefix::NANO},
        {"pico", Units::Prefix::PICO}, {"femto", Units::Prefix::FEMTO}, {"atto", Units::Prefix::ATTO}, {"zepto", Units::Prefix::ZEPTO}, {"yocto", Units::Prefix::YOCTO}};
    return t.at(n);
}

UnitsPtr buildUnits(const UDef &d)
{
    auto u = Units::create(d.name);
    for (const auto &k : d.kids) {
        bool named = !k.prefix.empty() && !(std::isdigit(static_cast<unsigned char>(k.prefix[0])) || k.prefix[0] == '-');
        if (k.prefix.empty() && k.m == 1.0 && k.form == 0) {
            if (k.e == 1.0) {
                u->addUnit(k.ref);
            } else {
                u->addUnit(k.ref, k.e);
            }
        } else if (k.form == 2 && named) {
            u->addUnit(k.ref, prefixEnum(k.prefix), k.e, k.m);
        } else if (k.form == 1 && !named) {
            u->addUnit(k.ref, k.p, k.e, k.m);
        } else {
            u->addUnit(k.ref, k.prefix, k.e, k.m);
        }
    }
    return u;
}

struct Built
{
    ModelPtr model[3];
    ImportSourcePtr src[2];
    ImportSourcePtr unresolved;
};

// `only`: when non-null, restrict the main model to these names (and build no libraries)
Built buildPool(const PoolIR &P, const std::set<std::string> *only)
{
    Built B;
    static const char *names[3] = {"main", "lib1", "lib2"};
    for (int m = 2; m >= 0; --m) {
        if (only != nullptr && m != 0) {
            continue;
        }
        B.model[m] = Model::create(names[m]);
        if (m < 2 && only == nullptr) {
            B.src[m] = ImportSource::create();
            B.src[m]->setUrl(std::string(names[m + 1]) + ".cellml");
            B.src[m]->setModel(B.model[m + 1]);
        }
        for (const auto &d : P.mdl[m]) {
            if (only != nullptr && only->count(d.name) == 0) {
                continue;
            }
            auto u = buildUnits(d);
            if (d.kind == K_IMPORT) {
                if (d.undef == 2) {
                    if (B.unresolved == nullptr) {
                        B.unresolved = ImportSource::create();
                        B.unresolved->setUrl("nowhere.cellml");
                    }
                    u->setSourceUnits(B.unresolved, d.impRef);
                } else {
                    u->setSourceUnits(B.src[m], d.impRef);
                }
            }
            B.model[m]->addUnits(u);
        }
    }
    return B;
}

// ---------------------------------------------------------------------------------------------------------
// Members and verdict helpers
// ---------------------------------------------------------------------------------------------------------
struct Member
{
    std::string name;
    bool bare = false;
    int undef = 0;
    UnitsPtr u;
    Red red;
    Feat feat;
    bool bareScaled = false; // stand-alone "gram" / "litre"
    std::string how;
    std::string variantOf;
};

bool relClose(double a, double b, double tol)
{
    if (a == b) {
        return true;
    }
    if (!std::isfinite(a) || !std::isfinite(b)) {
        return false;
    }
    return std::fabs(a - b) <= tol * std::max(std::fabs(a), std::fabs(b));
}

std::string eligStr(const Member &a, const Member &b)
{
    return (a.feat.inelig || b.feat.inelig) ? "ineligible" : "eligible";
}

std::string joinFlags(const std::vector<std::pair<bool, const char *>> &flags)
{
    std::string s;
    for (const auto &f : flags) {
        if (f.first) {
            s += (s.empty() ? "" : "+") + std::string(f.second);
        }
    }
    return s.empty() ? "plain" : s;
}

std::string dimStr(const Dim &d)
{
    std::string s;
    for (const auto &kv : d) {
        s += kv.first + "^" + num(kv.second) + " ";
    }
    return s.empty() ? "(dimensionless)" : s;
}

// std::to_string + the validator's way of trimming (which removes *any* last character, not just a full stop)
std::string validatorRender(double k)
{
    std::string n = std::to_string(k);
    n.erase(n.find_last_not_of('0') + 1, n.length());
    if (!n.empty()) {
        n.pop_back();
    }
    return n;
}

std::string runCmd(const std::string &cmd, int *rc)
{
    std::string out;
    FILE *f = popen(cmd.c_str(), "r");
    if (f == nullptr) {
        *rc = -1;
        return out;
    }
    char buf[4096];
    size_t n;
    while ((n = fread(buf, 1, sizeof buf, f)) > 0) {
        out.append(buf, n);
    }
    *rc = pclose(f);
    return out;
}

std::string eqMath(const std::vector<std::pair<std::string, std::string>> &eqs)
{
    std::string s = "<math xmlns=\"http://www.w3.org/1998/Math/MathML\">";
    for (const auto &e : eqs) {
        s += "<apply><eq/><ci>" + e.first + "</ci><ci>" + e.second + "</ci></apply>";
    }
    return s + "</math>";
}

} // namespace

int64_t vh_case_count(const std::string &tier, uint64_t)
{
    return tier == "thorough" ? 12000 : 1600;
}

static double nowMs()
{
    struct timespec ts;
    clock_gettime(CLOCK_MONOTONIC, &ts);
    return ts.tv_sec * 1e3 + ts.tv_nsec / 1e6;
}

void vh_run_case(Ctx &ctx)
{
    static const bool timing = getenv("C08_TIMING") != nullptr;
    double t0 = nowMs();
    auto lap = [&](const char *what) {
        if (timing) {
            double t = nowMs();
            fprintf(stderr, "T %s %.1f\n", what, t - t0);
            t0 = t;
        }
    };
    Rng &rng = ctx.rng;
    PoolIR P;
    {
        PoolGen g(rng, P);
        g.generate();
    }
    const std::string poolText = describePool(P);
    Reducer R(P);

    lap("gen");
    stage("build");
    Built B = buildPool(P, nullptr);
    std::vector<Member> mem;
    for (const auto &d : P.mdl[0]) {
        Member m;
        m.name = d.name;
        m.undef = d.undef;
        m.u = B.model[0]->units(d.name);
        m.red = R.reduce(0, d.name);
        walkFeat(P, R, 0, d.name, 1.0, m.feat);
        m.how = d.how;
        m.variantOf = d.variantOf;
        mem.push_back(m);
        seen("construction", d.how);
    }
    for (const auto &b : P.bare) {
        Member m;
        m.name = b;
        m.bare = true;
        m.u = Units::create(b);
        m.red = R.reduce(0, b);
        m.bareScaled = stdTable().at(b).scale != 0.0;
        m.how = "bare-standard";
        mem.push_back(m);
    }
    for (const auto &d : P.mdl[0]) {
        for (const auto &k : d.kids) {
            if (k.e != 1.0) {
                seen("exponent", num(k.e));
            }
            if (!k.prefix.empty()) {
                seen("prefix", k.prefix + "/form" + std::to_string(k.form));
            }
        }
    }
    std::vector<size_t> defd;
    std::vector<size_t> undefd;
    for (size_t i = 0; i < mem.size(); ++i) {
        if (mem[i].undef != 0) {
            undefd.push_back(i);
            if (mem[i].red.defined) {
                viol("C08", "harness:reference-says-defined", mem[i].name, poolText);
            }
        } else {
            defd.push_back(i);
            if (!mem[i].red.defined) {
                viol("C08", "harness:reference-says-undefined", mem[i].name, poolText);
                caseInfo("bad", false);
                return;
            }
        }
    }
    const size_t N = mem.size();
    auto pairReplay = [&](size_t i, size_t j) {
        return "pair: " + mem[i].name + " , " + mem[j].name + "\n" + describeClosure(P, {mem[i].name, mem[j].name}) + "--- whole pool ---\n" + poolText;
    };

    lap("build");
    // ---------------- (1) the Units functions ----------------
    stage("units-functions");
    std::vector<std::vector<char>> comp(N, std::vector<char>(N, 0));
    std::vector<std::vector<char>> eqv(N, std::vector<char>(N, 0));
    std::vector<std::vector<double>> fac(N, std::vector<double>(N, 0.0));
    for (size_t i : defd) {
        for (size_t j : defd) {
            comp[i][j] = Units::compatible(mem[i].u, mem[j].u) ? 1 : 0;
            fac[i][j] = Units::scalingFactor(mem[i].u, mem[j].u);
            eqv[i][j] = Units::equivalent(mem[i].u, mem[j].u) ? 1 : 0;
        }
    }
    bool haveScaledCompat = false;
    bool haveIncompat = false;
    int64_t nPairs = 0;
    int64_t nEligible = 0;
    int64_t nCompat = 0;
    int64_t nSiJudged = 0;
    int64_t nSiIneligibleDiffers = 0;
    for (size_t i : defd) {
        for (size_t j : defd) {
            const Member &a = mem[i];
            const Member &b = mem[j];
            ++nPairs;
            bool refCompat = a.red.dim == b.red.dim;
            bool elig = !a.feat.inelig && !b.feat.inelig;
            std::string el = elig ? "eligible" : "ineligible";
            nEligible += elig ? 1 : 0;
            double fref = static_cast<double>(powl(10.0L, b.red.scale - a.red.scale));
            if (i != j && refCompat && !relClose(fref, 1.0, 1e-6)) {
                haveScaledCompat = true;
            }
            if (!refCompat) {
                haveIncompat = true;
            }
            bool c = comp[i][j] != 0;
            double f = fac[i][j];
            nCompat += c ? 1 : 0;
            if (c != refCompat) {
                std::string cls = (a.feat.revisit || b.feat.revisit) ? "import-after-chain" : ((a.feat.impexp || b.feat.impexp) ? "imported-exp" : ((a.feat.imp || b.feat.imp) ? "imported" : "plain"));
                viol("C08", "compatible:vs-reference:" + cls,
                     "Units::compatible(" + a.name + ", " + b.name + ") = " + (c ? "true" : "false") + " but the definitions reduce to " + dimStr(a.red.dim) + " and " + dimStr(b.red.dim),
                     pairReplay(i, j));
            }
            if (i == j && !c) {
                viol("C08", std::string("compatible:reflexive") + (a.feat.revisit ? ":import-after-chain" : ""), "compatible(" + a.name + ", " + a.name + ") is false for a fully defined units", pairReplay(i, j));
            }
            if (i < j && comp[i][j] != comp[j][i]) {
                viol("C08", "compatible:symmetric", "compatible(" + a.name + ", " + b.name + ") != compatible(" + b.name + ", " + a.name + ")", pairReplay(i, j));
            }
            if (!std::isfinite(f) || f < 0.0) {
                viol("C08", "scaling:not-finite-or-negative:" + el, "scalingFactor(" + a.name + ", " + b.name + ") = " + num(f), pairReplay(i, j));
                continue;
            }
            if ((f > 0.0) != c) {
                viol("C08", "scaling:positive-iff-compatible:" + el, "scalingFactor(" + a.name + ", " + b.name + ") = " + num(f) + " while compatible() = " + (c ? "true" : "false"),
                     pairReplay(i, j));
            }
            if (c && i <= j && !relClose(f * fac[j][i], 1.0, 1e-9)) {
                viol("C08", "scaling:inverse:" + el, "f(a,b) = " + num(f) + ", f(b,a) = " + num(fac[j][i]) + ", product " + num(f * fac[j][i]), pairReplay(i, j));
            }
            // equivalent <=> compatible and factor 1 (pairs whose factor is within rounding noise of 1 are not judged)
            bool e = eqv[i][j] != 0;
            bool exactlyOne = c && f == 1.0;
            bool clearlyNotOne = !c || !relClose(f, 1.0, 1e-9);
            if ((e && clearlyNotOne) || (!e && exactlyOne)) {
                viol("C08", "equivalent:iff-compatible-and-factor-1:" + el,
                     "equivalent(" + a.name + ", " + b.name + ") = " + (e ? "true" : "false") + ", compatible = " + (c ? "true" : "false") + ", factor = " + num(f), pairReplay(i, j));
            }
            // SI ratio (claimed for eligible pairs only)
            if (c && refCompat) {
                bool same = relClose(f, fref, 1e-9);
                if (elig) {
                    ++nSiJudged;
                    if (!same) {
                        std::string cls = joinFlags({{a.bareScaled || b.bareScaled, "bare-standard"}, {a.feat.imp || b.feat.imp, "imported"}});
                        viol("C08", "scaling:si-ratio:eligible:" + cls,
                             "scalingFactor(" + a.name + ", " + b.name + ") = " + num(f) + " but SI(" + b.name + ")/SI(" + a.name + ") = " + num(fref), pairReplay(i, j));
                    }
                } else if (!same) {
                    ++nSiIneligibleDiffers;
                }
            }
        }
    }
    stat("pairs_judged", nPairs);
    stat("pairs_eligible", nEligible);
    stat("pairs_compatible", nCompat);
    stat("si_ratio_judged", nSiJudged);
    stat("si_ratio_differs_on_ineligible_not_claimed", nSiIneligibleDiffers);

    // all triples of defined members
    {
        int64_t nTriples = 0;
        int64_t nChains = 0;
        bool reportedT = false;
        bool reportedC = false;
        for (size_t a : defd) {
            for (size_t b : defd) {
                if (comp[a][b] == 0) {
                    continue;
                }
                for (size_t c : defd) {
                    if (comp[b][c] == 0) {
                        continue;
                    }
                    ++nTriples;
                    if (comp[a][c] == 0) {
                        if (!reportedT) {
                            viol("C08", "compatible:transitive", mem[a].name + " ~ " + mem[b].name + " ~ " + mem[c].name + " but not " + mem[a].name + " ~ " + mem[c].name,
                                 "triple: " + mem[a].name + " " + mem[b].name + " " + mem[c].name + "\n" + poolText);
                            reportedT = true;
                        }
                        continue;
                    }
                    ++nChains;
                    if (!relClose(fac[a][c], fac[a][b] * fac[b][c], 1e-9) && !reportedC) {
                        bool elig = !mem[a].feat.inelig && !mem[b].feat.inelig && !mem[c].feat.inelig;
                        viol("C08", std::string("scaling:chain:") + (elig ? "eligible" : "ineligible"),
                             "f(a,c) = " + num(fac[a][c]) + " but f(a,b) f(b,c) = " + num(fac[a][b] * fac[b][c]),
                             "triple: " + mem[a].name + " " + mem[b].name + " " + mem[c].name + "\n" + poolText);
                        reportedC = true;
                    }
                }
            }
        }
        stat("triples_transitivity_judged", nTriples);
        stat("triples_chain_judged", nChains);
    }

    // independence from child order and aliasing
    for (size_t i : defd) {
        if (mem[i].variantOf.empty()) {
            continue;
        }
        size_t s = N;
        for (size_t k : defd) {
            if (mem[k].name == mem[i].variantOf) {
                s = k;
            }
        }
        if (s == N) {
            continue;
        }
        std::string law = mem[i].how == "perm" ? "child-order" : "alias";
        stat("variant_" + law + "_checked");
        std::string el = eligStr(mem[i], mem[s]) + ((mem[i].feat.revisit || mem[s].feat.revisit) ? ":import-after-chain" : "");
        if (comp[i][s] == 0 || !relClose(fac[i][s], 1.0, 1e-9)) {
            viol("C08", (comp[i][s] == 0 ? "compatible:" : "scaling:") + law + ":" + el,
                 mem[i].name + " is " + mem[i].how + " of " + mem[s].name + " but compatible = " + std::to_string(comp[i][s]) + ", factor = " + num(fac[i][s]), pairReplay(i, s));
        }
        for (size_t w : defd) {
            if (comp[i][w] != comp[s][w]) {
                viol("C08", "compatible:" + law + ":" + el, "compatible(" + mem[i].name + ", " + mem[w].name + ") differs from compatible(" + mem[s].name + ", " + mem[w].name + ")",
                     pairReplay(i, w));
            } else if (!relClose(fac[i][w], fac[s][w], 1e-9)) {
                viol("C08", "scaling:" + law + ":" + el, "f(" + mem[i].name + ", " + mem[w].name + ") = " + num(fac[i][w]) + " but f(" + mem[s].name + ", " + mem[w].name + ") = " + num(fac[s][w]),
                     pairReplay(i, w));
            }
        }
    }

    // undefined and null arguments
    {
        static const char *kinds[5] = {"", "missing-reference", "unresolved-import", "import-of-missing-name", "built-on-undefined"};
        int64_t n = 0;
        auto judge = [&](const UnitsPtr &x, const UnitsPtr &y, const std::string &kind, const std::string &what) {
            ++n;
            if (Units::compatible(x, y)) {
                viol("C08", "compatible:" + kind, "compatible(" + what + ") is true", what + "\n" + poolText);
            }
            double f = Units::scalingFactor(x, y);
            if (f != 0.0) {
                viol("C08", "scaling:zero-for:" + kind, "scalingFactor(" + what + ") = " + num(f), what + "\n" + poolText);
            }
            if (Units::equivalent(x, y)) {
                viol("C08", "equivalent:" + kind, "equivalent(" + what + ") is true", what + "\n" + poolText);
            }
        };
        for (size_t i : undefd) {
            std::string kind = std::string("undefined:") + kinds[mem[i].undef];
            seen("undefined_kind", kinds[mem[i].undef]);
            for (size_t j = 0; j < N; ++j) {
                judge(mem[i].u, mem[j].u, kind, mem[i].name + ", " + mem[j].name);
                judge(mem[j].u, mem[i].u, kind, mem[j].name + ", " + mem[i].name);
            }
            double f0 = Units::scalingFactor(mem[i].u, mem[defd[0]].u, false);
            if (f0 != 0.0) {
                viol("C08", "scaling:zero-for:" + kind + ":no-compatibility-check", "scalingFactor(" + mem[i].name + ", " + mem[defd[0]].name + ", false) = " + num(f0), poolText);
            }
        }
        UnitsPtr nul;
        for (size_t j = 0; j < N; ++j) {
            judge(nul, mem[j].u, "null", "null, " + mem[j].name);
            judge(mem[j].u, nul, "null", mem[j].name + ", null");
        }
        judge(nul, nul, "null", "null, null");
        if (Units::scalingFactor(nul, mem[defd[0]].u, false) != 0.0 || Units::scalingFactor(mem[defd[0]].u, nul, false) != 0.0) {
            viol("C08", "scaling:zero-for:null:no-compatibility-check", "non-zero factor for a null argument", poolText);
        }
        stat("undefined_or_null_pairs_judged", n);
    }

    lap("units");
    // ---------------- (2a) Validator: connected variables ----------------
    stage("validator");
    struct VPair
    {
        size_t a;
        size_t b;
    };
    std::vector<VPair> vpairs;
    {
        std::vector<VPair> compat;
        std::vector<VPair> other;
        for (size_t i : defd) {
            for (size_t j : defd) {
                if (i < j) {
                    VPair p {i, j};
                    if (rng.chance(0.5)) {
                        std::swap(p.a, p.b);
                    }
                    bool refCompat = mem[i].red.dim == mem[j].red.dim;
                    ((comp[i][j] != 0 || refCompat) ? compat : other).push_back(p);
                }
            }
        }
        rng.shuffle(compat);
        rng.shuffle(other);
        if (compat.size() > 140) {
            compat.resize(140);
        }
        if (other.size() > 80) {
            other.resize(80);
        }
        vpairs = compat;
        vpairs.insert(vpairs.end(), other.begin(), other.end());
    }
    {
        auto c1 = Component::create("c1");
        auto c2 = Component::create("c2");
        B.model[0]->addComponent(c1);
        B.model[0]->addComponent(c2);
        auto mkVar = [&](const std::string &name, const Member &m) {
            auto v = Variable::create(name);
            if (m.bare) {
                v->setUnits(m.name);
            } else {
                v->setUnits(m.u);
            }
            v->setInterfaceType("public");
            return v;
        };
        for (size_t k = 0; k < vpairs.size(); ++k) {
            auto x = mkVar("x" + std::to_string(k), mem[vpairs[k].a]);
            auto y = mkVar("y" + std::to_string(k), mem[vpairs[k].b]);
            c1->addVariable(x);
            c2->addVariable(y);
            Variable::addEquivalence(x, y);
        }
        auto validator = Validator::create();
        validator->validateModel(B.model[0]);
        monitorLogger(*validator, "Validator::validateModel", poolText);
        // collect verdicts
        std::map<size_t, std::pair<bool, std::string>> reported; // pair index -> (first variable is x, hint text or "" )
        std::map<size_t, std::string> descr;
        for (size_t i = 0; i < validator->issueCount(); ++i) {
            auto is = validator->issue(i);
            std::string d = is->description();
            size_t at = d.find("non-matching units");
            if (at == std::string::npos) {
                continue;
            }
            if (is->referenceRule() != Issue::ReferenceRule::MAP_VARIABLES_ELEMENT) {
                viol("C08", "units-3way:validator:units-mismatch-under-other-rule", d, poolText);
            }
            // "Variable 'x12' in component 'c1' has units ..."
            size_t q1 = d.find('\'');
            size_t q2 = d.find('\'', q1 + 1);
            std::string first = d.substr(q1 + 1, q2 - q1 - 1);
            bool firstIsX = first[0] == 'x';
            size_t idx = static_cast<size_t>(std::strtoul(first.c_str() + 1, nullptr, 10));
            std::string hint;
            bool hasHint = false;
            size_t h = d.find("multiplication factor of 10^");
            if (h != std::string::npos) {
                hint = d.substr(h + strlen("multiplication factor of 10^"));
                if (!hint.empty()) {
                    hint.pop_back(); // the sentence's full stop
                }
                hasHint = true;
            }
            if (reported.count(idx) != 0) {
                viol("C08", "units-3way:validator:mismatch-reported-twice", d, poolText);
            }
            reported[idx] = {firstIsX, hasHint ? "H" + hint : ""};
            descr[idx] = d;
        }
        for (size_t k = 0; k < vpairs.size(); ++k) {
            const Member &a = mem[vpairs[k].a];
            const Member &b = mem[vpairs[k].b];
            bool c = comp[vpairs[k].a][vpairs[k].b] != 0;
            bool rep = reported.count(k) != 0;
            bool imported = a.feat.imp || b.feat.imp;
            stat("validator_pairs_compared");
            seen("validator_pair_class", std::string(c ? "compatible" : "incompatible") + (imported ? ":imported" : "") + ":" + eligStr(a, b));
            if (rep == c) {
                viol("C08", std::string("units-3way:validator-vs-units:verdict:") + (imported ? "imported" : "plain"),
                     std::string("Units::compatible(") + a.name + ", " + b.name + ") = " + (c ? "true" : "false") + " but the validator " + (rep ? "reports: " + descr[k] : "reports no units mismatch for the connected variables"),
                     pairReplay(vpairs[k].a, vpairs[k].b));
                continue;
            }
            if (!rep) {
                continue;
            }
            // hint: the validator reports units(first)/units(second); Units gives log10 f(second, first)
            bool firstIsX = reported[k].first;
            const Member &u1 = firstIsX ? a : b;
            const Member &u2 = firstIsX ? b : a;
            double f0 = Units::scalingFactor(u2.u, u1.u, false);
            if (!(f0 > 0.0) || !std::isfinite(f0)) {
                stat("validator_hint_units_factor_undefined");
                continue;
            }
            double ku = std::log10(f0);
            stat("validator_hints_compared");
            std::string H = reported[k].second;
            bool agrees;
            bool textTruncated = false;
            if (H.empty()) {
                agrees = std::fabs(ku) < 1e-9; // no hint <=> the validator's log10 factor is exactly 0
            } else {
                H = H.substr(1);
                agrees = false;
                for (double dlt : {0.0, 1e-6, -1e-6}) {
                    std::string r = validatorRender(ku + dlt);
                    if (r == H || (r == "-0" && H == "0") || (r == "0" && H == "-0")) {
                        agrees = true;
                    }
                }
                if (agrees && std::fabs(std::strtod(H.c_str(), nullptr) - ku) > 2e-6) {
                    textTruncated = true;
                }
            }
            std::string cls = joinFlags({{a.feat.outerexp || b.feat.outerexp, "outer-exp"},
                                         {a.feat.fan || b.feat.fan, "fan-out"},
                                         {imported, "imported"},
                                         {a.bareScaled || b.bareScaled, "bare-standard"}});
            seen("validator_hint_class", eligStr(a, b) + ":" + cls);
            if (cls == "plain" && !a.feat.inelig && !b.feat.inelig) {
                stat("validator_hints_compared_eligible_plain");
            }
            if (!agrees) {
                viol("C08", "units-3way:validator-vs-units:hint:" + eligStr(a, b) + ":" + cls,
                     "validator: " + descr[k] + "\nUnits::scalingFactor(" + u2.name + ", " + u1.name + ", false) = " + num(f0) + " = 10^" + num(ku) + " (reference: 10^" + num(static_cast<double>(u1.red.scale - u2.red.scale)) + ")",
                     pairReplay(vpairs[k].a, vpairs[k].b));
            } else if (textTruncated) {
                viol("C08", "units-3way:validator-vs-units:hint-text:non-integer-truncated",
                     "validator: " + descr[k] + "\nthe factor is 10^" + num(ku) + " but the text reads 10^" + H, pairReplay(vpairs[k].a, vpairs[k].b));
            }
        }
        B.model[0]->removeComponent(c1);
        B.model[0]->removeComponent(c2);
    }

    lap("validator");
    // ---------------- (2b) Analyser and generator: import-free part of the pool ----------------
    stage("analyser");
    std::vector<size_t> plain; // members usable in an analysed model: defined, import-free
    std::set<std::string> plainNames;
    for (size_t i : defd) {
        if (!mem[i].feat.imp) {
            plain.push_back(i);
            if (!mem[i].bare) {
                plainNames.insert(mem[i].name);
            }
        }
    }
    bool doGenerate = ctx.thorough() || (ctx.index % 2 == 0);
    {
        Built A = buildPool(P, &plainNames);
        auto mdl = A.model[0];
        auto unitsOf = [&](size_t i) -> UnitsPtr {
            return mem[i].bare ? Units::create(mem[i].name) : mdl->units(mem[i].name);
        };
        // analyser pairs: p_k = q_k
        std::vector<VPair> ap;
        std::vector<VPair> gp;
        {
            std::vector<VPair> compat;
            std::vector<VPair> other;
            for (size_t i : plain) {
                for (size_t j : plain) {
                    if (i != j) {
                        (comp[i][j] != 0 ? compat : other).push_back({i, j});
                    }
                }
            }
            rng.shuffle(compat);
            rng.shuffle(other);
            for (size_t k = 0; k < compat.size() && k < 45; ++k) {
                ap.push_back(compat[k]);
            }
            for (size_t k = 0; k < other.size() && k < 12; ++k) {
                ap.push_back(other[k]);
            }
            // identical pairs too
            for (size_t k = 0; k < 3 && k < plain.size(); ++k) {
                size_t i = rng.pick(plain);
                ap.push_back({i, i});
            }
            rng.shuffle(compat);
            for (size_t k = 0; k < compat.size() && gp.size() < 30; ++k) {
                if (mem[compat[k].a].red.dim == mem[compat[k].b].red.dim) {
                    gp.push_back(compat[k]);
                }
            }
        }
        auto ca = Component::create("ca");
        mdl->addComponent(ca);
        std::vector<std::pair<std::string, std::string>> eqs;
        auto addVar = [&](const ComponentPtr &c, const std::string &name, size_t member, const std::string &init, bool pub) {
            auto v = Variable::create(name);
            if (mem[member].bare) {
                v->setUnits(mem[member].name);
            } else {
                v->setUnits(mdl->units(mem[member].name));
            }
            if (!init.empty()) {
                v->setInitialValue(init);
            }
            if (pub) {
                v->setInterfaceType("public");
            }
            c->addVariable(v);
            return v;
        };
        for (size_t k = 0; k < ap.size(); ++k) {
            addVar(ca, "p" + std::to_string(k), ap[k].a, "", false);
            addVar(ca, "q" + std::to_string(k), ap[k].b, "1.0", false);
            eqs.push_back({"p" + std::to_string(k), "q" + std::to_string(k)});
        }
        if (!eqs.empty()) {
            ca->setMath(eqMath(eqs));
        }
        std::vector<double> gval;
        if (doGenerate && !gp.empty()) {
            auto c1 = Component::create("c1");
            auto c2 = Component::create("c2");
            mdl->addComponent(c1);
            mdl->addComponent(c2);
            std::vector<std::pair<std::string, std::string>> geq;
            for (size_t k = 0; k < gp.size(); ++k) {
                double v = 0.5 * static_cast<double>(rng.range(1, 40));
                gval.push_back(v);
                auto x = addVar(c1, "x" + std::to_string(k), gp[k].a, "", true);
                addVar(c1, "z" + std::to_string(k), gp[k].a, "", false);
                auto y = addVar(c2, "y" + std::to_string(k), gp[k].b, num(v), true);
                Variable::addEquivalence(x, y);
                geq.push_back({"z" + std::to_string(k), "x" + std::to_string(k)});
            }
            c1->setMath(eqMath(geq));
        }
        std::string modelText;
        {
            auto printer = Printer::create();
            modelText = printer->printModel(mdl);
        }
        auto analyser = Analyser::create();
        analyser->analyseModel(mdl);
        monitorLogger(*analyser, "Analyser::analyseModel", modelText);
        bool failed = analyser->errorCount() != 0 || analyser->model() == nullptr || !analyser->model()->isValid();
        if (failed) {
            viol("C08", "harness:analyser-rejected-model", issueSummary(*analyser), modelText);
        } else {
            std::set<size_t> warned;
            std::map<size_t, std::string> wtext;
            for (size_t i = 0; i < analyser->issueCount(); ++i) {
                auto is = analyser->issue(i);
                if (is->referenceRule() != Issue::ReferenceRule::ANALYSER_UNITS) {
                    continue;
                }
                std::string d = is->description();
                // "The units in 'p3 = q3' in component 'ca' are not equivalent. ..."
                size_t q1 = d.find("'p");
                if (q1 == std::string::npos || d.find("in component 'ca'") == std::string::npos) {
                    viol("C08", "units-3way:analyser:unexpected-units-warning", d, modelText);
                    continue;
                }
                size_t idx = static_cast<size_t>(std::strtoul(d.c_str() + q1 + 2, nullptr, 10));
                warned.insert(idx);
                wtext[idx] = d;
            }
            for (size_t k = 0; k < ap.size(); ++k) {
                const Member &a = mem[ap[k].a];
                const Member &b = mem[ap[k].b];
                auto ua = unitsOf(ap[k].a);
                auto ub = unitsOf(ap[k].b);
                bool c = Units::compatible(ua, ub);
                double f = Units::scalingFactor(ua, ub);
                bool e = Units::equivalent(ua, ub);
                if (c && !e && relClose(f, 1.0, 1e-9)) {
                    stat("analyser_pairs_skipped_factor_within_noise_of_1");
                    continue;
                }
                bool w = warned.count(k) != 0;
                stat("analyser_pairs_compared");
                std::string cls = joinFlags({{a.feat.fan || b.feat.fan, "fan-out"}, {a.bareScaled || b.bareScaled, "bare-standard"}});
                seen("analyser_pair_class", eligStr(a, b) + ":" + cls + ":" + (e ? "equivalent" : (c ? "scaled" : "incompatible")));
                bool eligPlain = !a.feat.inelig && !b.feat.inelig && cls == "plain";
                if (eligPlain) {
                    stat("analyser_pairs_compared_eligible_plain");
                }
                if (w == e) {
                    // a warning on units that are equivalent for Units::equivalent *and* for the reference (scales equal to 1e-12) can only
                    // come from rounding in the analyser's own accumulation: keyed apart
                    bool noise = w && eligPlain && a.red.dim == b.red.dim && fabsl(a.red.scale - b.red.scale) < 1e-12L;
                    viol("C08", "units-3way:analyser-vs-units:" + eligStr(a, b) + ":" + cls + ":" + (w ? "warned" : "silent") + (noise ? "-on-rounding-noise" : ""),
                         "p = q with p in " + a.name + " and q in " + b.name + ": Units::equivalent = " + (e ? "true" : "false") + " (compatible = " + (c ? "true" : "false") + ", factor = " + num(f) + ") but the analyser "
                             + (w ? "warns: " + wtext[k] : "gives no units warning"),
                         pairReplay(ap[k].a, ap[k].b));
                }
            }
            lap("analyser");
            // generator
            if (doGenerate && !gp.empty()) {
                stage("generator");
                auto generator = Generator::create();
                generator->setModel(analyser->model());
                std::string hdr = generator->interfaceCode();
                std::string impl = generator->implementationCode();
                std::string dir = scratchDir() + "/c08";
                mkdir(dir.c_str(), 0700);
                writeFile(dir + "/model.h", hdr);
                writeFile(dir + "/model.c", impl);
                writeFile(dir + "/main.c",
                          "#include \"model.h\"\n#include <stdio.h>\nint main(void){double *v=createVariablesArray();initialiseVariables(v);computeComputedConstants(v);computeVariables(v);"
                          "for(size_t i=0;i<VARIABLE_COUNT;++i){printf(\"%s %s %.17g\\n\",VARIABLE_INFO[i].component,VARIABLE_INFO[i].name,v[i]);}deleteArray(v);return 0;}\n");
                int rc = 0;
                std::string out = runCmd("cd '" + dir + "' && /usr/bin/gcc -std=c99 -O0 -w model.c main.c -lm -o run 2>&1 && ./run 2>&1", &rc);
                if (rc != 0) {
                    viol("C08", "harness:generated-code-did-not-build-or-run", truncateForLog(out, 1500), modelText + "\n" + impl);
                } else {
                    std::map<std::string, double> val;
                    std::istringstream is(out);
                    std::string comp_;
                    std::string name;
                    std::string v;
                    while (is >> comp_ >> name >> v) {
                        val[name] = std::strtod(v.c_str(), nullptr);
                    }
                    for (size_t k = 0; k < gp.size(); ++k) {
                        const Member &a = mem[gp[k].a];
                        const Member &b = mem[gp[k].b];
                        auto it = val.find("z" + std::to_string(k));
                        if (it == val.end()) {
                            viol("C08", "harness:generated-variable-missing", "z" + std::to_string(k), modelText + "\n" + impl);
                            continue;
                        }
                        double f = Units::scalingFactor(unitsOf(gp[k].a), unitsOf(gp[k].b));
                        double expect = gval[k] * f; // value in a = value in b * f(a, b)
                        bool elig = !a.feat.inelig && !b.feat.inelig;
                        std::string cls = joinFlags({{a.feat.fan || b.feat.fan, "fan-out"}, {a.bareScaled || b.bareScaled, "bare-standard"}});
                        stat("generator_values_compared");
                        if (!relClose(f, 1.0, 1e-9)) {
                            stat("generator_values_compared_scaled");
                        }
                        if (!relClose(it->second, expect, 1e-12)) {
                            viol("C08", "units-3way:generator-vs-units:" + eligStr(a, b) + ":" + cls,
                                 "x (in " + a.name + ") ~ y (in " + b.name + ") = " + num(gval[k]) + ", z = x: generated code computes z = " + num(it->second) + " but y * scalingFactor(" + a.name + ", " + b.name + ") = " + num(expect),
                                 pairReplay(gp[k].a, gp[k].b) + "\n" + impl);
                        }
                        if (elig) {
                            double fref = static_cast<double>(powl(10.0L, b.red.scale - a.red.scale));
                            stat("generator_values_compared_with_si");
                            if (!relClose(it->second, gval[k] * fref, 1e-9)) {
                                viol("C08", "units-3way:generator-vs-si:eligible:" + cls,
                                     "x (in " + a.name + ") ~ y (in " + b.name + ") = " + num(gval[k]) + ", z = x: generated code computes z = " + num(it->second) + " but the SI ratio gives " + num(gval[k] * fref),
                                     pairReplay(gp[k].a, gp[k].b) + "\n" + impl);
                            }
                        }
                    }
                }
            }
        }
    }

    lap("generator+rest");
    // ---------------- evidence ----------------
    std::string h;
    for (int m = 0; m < 3; ++m) {
        for (const auto &d : P.mdl[m]) {
            h += describe(d, m) + ";";
        }
    }
    for (const auto &b : P.bare) {
        h += b + ",";
    }
    size_t nImp = 0;
    size_t nInelig = 0;
    for (size_t i : defd) {
        nImp += mem[i].feat.imp ? 1 : 0;
        nInelig += mem[i].feat.inelig ? 1 : 0;
    }
    stat("members", static_cast<int64_t>(N));
    stat("members_ineligible", static_cast<int64_t>(nInelig));
    stat("members_reaching_imports", static_cast<int64_t>(nImp));
    std::string witness;
    for (size_t i : defd) {
        for (size_t j : defd) {
            if (witness.empty() && i != j && comp[i][j] != 0 && !relClose(fac[i][j], 1.0, 1e-6) && mem[i].red.depth + mem[j].red.depth >= 3) {
                witness = " | one compatible pair: scalingFactor(" + mem[i].name + ", " + mem[j].name + ") = " + num(fac[i][j]) + " with " + describeClosure(P, {mem[i].name, mem[j].name});
                std::replace(witness.begin(), witness.end(), '\n', ';');
            }
        }
    }
    std::string sample = "members=" + std::to_string(N) + " (main " + std::to_string(P.mdl[0].size()) + ", lib1 " + std::to_string(P.mdl[1].size()) + ", lib2 " + std::to_string(P.mdl[2].size()) + ", bare " + std::to_string(P.bare.size())
                         + ") ineligible=" + std::to_string(nInelig) + " via-import=" + std::to_string(nImp) + " compatible-ordered-pairs=" + std::to_string(nCompat) + " e.g. " + describe(P.mdl[0][P.mdl[0].size() / 2], 0) + truncateForLog(witness, 900);
    caseInfo(hex64(fnv1a(h)), haveScaledCompat && haveIncompat, sample);
}
