#!/usr/bin/env python3
"""C09 part B header audit (informative).

Parses the public headers in /repo/src/api/libcellml and lists every public method that takes a
shared-pointer entity (*Ptr), a size_t index or a std::string parameter and is neither in the cell table of
harness/drivers/c09b.cpp (CELL / cellsX lines) nor in its NA(...) list; also lists table entries whose
signature matches no header method (typos).  Signatures are normalised to  Class::method(T1,T2,...)  with
const, &, std:: and default values stripped.

usage: tools/c09_header_audit.py [--json]
exit status is always 0 unless the sources cannot be read: the audit is informative.
"""
import json
import os
import re
import sys

VERIF = os.path.dirname(os.path.dirname(os.path.abspath(__file__)))
REPO = os.environ.get("VERIF_REPO", "/repo")
HDR = os.path.join(REPO, "src", "api", "libcellml")
DRIVER = os.path.join(VERIF, "harness", "drivers", "c09b.cpp")
# generatorprofile.h: ~300 free-text string setters of the code-generation profile, no entity / index / lookup name
SKIP_HEADERS = {"generatorprofile.h", "undefines.h", "version.h", "enums.h", "exportdefinitions.h"}


def strip_comments(s):
    s = re.sub(r"/\*.*?\*/", "", s, flags=re.S)
    return re.sub(r"//[^\n]*", "", s)


def norm_type(t):
    t = t.strip()
    t = re.sub(r"=.*$", "", t).strip()          # default value
    t = re.sub(r"\bconst\b", "", t)
    t = t.replace("&", " ").replace("std::", "")
    parts = t.split()
    if not parts:
        return ""
    # drop the parameter name if there is one ("ModelPtr model" -> ModelPtr)
    if len(parts) >= 2:
        parts = parts[:-1]
    return "".join(parts)


def split_params(p):
    out, depth, cur = [], 0, ""
    for ch in p:
        if ch in "<(":
            depth += 1
        elif ch in ">)":
            depth -= 1
        if ch == "," and depth == 0:
            out.append(cur)
            cur = ""
        else:
            cur += ch
    if cur.strip():
        out.append(cur)
    return out


def header_methods():
    methods = {}
    for f in sorted(os.listdir(HDR)):
        if not f.endswith(".h") or f in SKIP_HEADERS:
            continue
        text = strip_comments(open(os.path.join(HDR, f)).read())
        # walk classes
        for m in re.finditer(r"class\s+LIBCELLML_EXPORT\s+(\w+)[^{;]*\{", text):
            cls = m.group(1)
            depth, i = 1, m.end()
            while i < len(text) and depth > 0:
                if text[i] == "{":
                    depth += 1
                elif text[i] == "}":
                    depth -= 1
                i += 1
            body = text[m.end():i - 1]
            # remove nested enum / inline bodies
            body = re.sub(r"enum\s+class\s+\w+\s*\{[^}]*\};", "", body)
            body = re.sub(r"\{[^{}]*\}", ";", body)
            access = "private"
            body = re.sub(r"\b(public|protected|private)\s*:(?!:)", r";@\1;", body)
            for stmt in body.split(";"):
                st = " ".join(stmt.split())
                am = re.match(r"^@(public|protected|private)$", st)
                if am:
                    access = am.group(1)
                    continue
                st += ";"
                if access != "public" or "(" not in st or "delete" in st or st.startswith("friend"):
                    continue
                fm = re.match(r"^(?:static\s+|virtual\s+|explicit\s+)*(.*?)\b(\w+)\s*\((.*)\)\s*(?:const)?\s*(?:noexcept)?\s*(?:override)?\s*(?:=\s*0)?\s*;$", st)
                if not fm:
                    continue
                name = fm.group(2)
                if name == cls or name.startswith("~") or "operator" in st or fm.group(1).strip() == "":
                    continue
                params = [norm_type(x) for x in split_params(fm.group(3))]
                params = [x for x in params if x]
                sig = "%s::%s(%s)" % (cls, name, ",".join(params))
                methods[sig] = params
    return methods


def qualifying(params):
    for p in params:
        if p.endswith("Ptr") or p == "size_t" or p == "string":
            return True
    return False


def table():
    src = open(DRIVER).read()
    cells = set(re.findall(r'\b(?:CELL|cells[CVURIM]|annC)\(\s*"([A-Za-z]+::[^"]+\))"', src))
    # signatures built by concatenation in the Annotator lookup loop
    for name in re.findall(r'^\s*\{"(\w+)", "\w+", \[\]\(Annotator &a', src, flags=re.M):
        cells.add("Annotator::%s(string)" % name)
        cells.add("Annotator::%s(string,size_t)" % name)
    cells |= set(re.findall(r'methods\.push_back\(\{"([^"]+)"', src))
    na = dict(re.findall(r'\bNA\(\s*"([^"]+)"\s*,\s*"([^"]*)"', src))
    return cells, na


def main():
    methods = header_methods()
    cells, na = table()
    missing = sorted(s for s, p in methods.items() if qualifying(p) and s not in cells and s not in na)
    unknown = sorted(s for s in (cells | set(na)) if s not in methods and re.sub(r"^\w+::", "", s) not in
                     {re.sub(r"^\w+::", "", k) for k in methods})
    inherited = sorted(s for s in (cells | set(na)) if s not in methods and s not in unknown)
    covered = sorted(s for s, p in methods.items() if qualifying(p) and s in cells)
    if "--json" in sys.argv:
        print(json.dumps({"qualifying": sum(1 for p in methods.values() if qualifying(p)), "covered": covered,
                          "not_applicable": na, "missing": missing, "unknown_in_table": unknown}, indent=1))
        return 0
    print("public methods parsed: %d, taking a *Ptr / size_t / string parameter: %d" %
          (len(methods), sum(1 for p in methods.values() if qualifying(p))))
    print("in the cell table: %d   declared not applicable: %d" % (len(covered), sum(1 for s in na if s in methods)))
    print("MISSING from the table (%d):" % len(missing))
    for s in missing:
        print("  " + s)
    print("table entries without a matching header signature (%d):" % len(unknown))
    for s in unknown:
        print("  " + s)
    if inherited:
        print("table entries naming a method through another class than the declaring one (%d): %s" % (len(inherited), ", ".join(inherited)))
    print("no-argument / receiver-state cells are not subject to this audit")
    return 0


if __name__ == "__main__":
    sys.exit(main())
