// Core of the verification harness: PRNG, JSON helpers, driver protocol.
#pragma once
#include <cstdint>
#include <cstdio>
#include <map>
#include <string>
#include <vector>
#include <sstream>
#include <functional>

namespace vh {

// ---------- PRNG (xoshiro256** seeded through splitmix64) ----------
struct Rng
{
    uint64_t s[4];
    explicit Rng(uint64_t seed = 1, uint64_t stream = 0);
    uint64_t next();
    // uniform in [0, n)
    uint64_t below(uint64_t n);
    int range(int lo, int hi); // inclusive
    bool chance(double p);
    double unit(); // [0,1)
    template<class T> const T &pick(const std::vector<T> &v) { return v[below(v.size())]; }
    template<class T> void shuffle(std::vector<T> &v)
    {
        for (size_t i = v.size(); i > 1; --i) {
            size_t j = below(i);
            std::swap(v[i - 1], v[j]);
        }
    }
};

uint64_t fnv1a(const std::string &s, uint64_t h = 1469598103934665603ULL);
std::string hex64(uint64_t v);
std::string jsonEscape(const std::string &s);
std::string readFile(const std::string &path, bool *ok = nullptr);
bool writeFile(const std::string &path, const std::string &data);
std::vector<std::string> listFiles(const std::string &dir, bool recursive);
std::string truncateForLog(const std::string &s, size_t n = 600);

// ---------- driver protocol ----------
struct Ctx
{
    uint64_t seed = 1;
    std::string tier = "quick";
    int64_t index = 0;
    Rng rng;
    bool thorough() const { return tier == "thorough"; }
};

// Report a violation of `prop` (e.g. "C07").  key: stable signature, detail: free text,
// replay: data needed to reproduce (input text, op history).
void viol(const std::string &prop, const std::string &key, const std::string &detail, const std::string &replay = "");
// Named counters (summed by the supervisor over all cases).
void stat(const std::string &name, int64_t inc = 1);
// Set-valued observations: supervisor reports the number of distinct values per name.
void seen(const std::string &name, const std::string &value);
// Mark what the current case was, for evidence: structural hash for distinctness, non-trivial flag,
// and (optionally) a short printable sample.
void caseInfo(const std::string &structHash, bool nontrivial, const std::string &sample = "");
// Free-form note (goes to the run log)
void note(const std::string &text);
// Stage marker: printed immediately so that the supervisor can tell where a crash happened.
void stage(const std::string &name);
// the directory for scratch files of this worker (under /verif/.cache/tmp/<pid>)
std::string scratchDir();
// true when running a single case for replay (drivers may print more)
bool verbose();

} // namespace vh

// Every driver defines these two.
int64_t vh_case_count(const std::string &tier, uint64_t seed);
void vh_run_case(vh::Ctx &ctx);
