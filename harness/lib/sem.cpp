#include "sem.h"

#include <algorithm>
#include <cmath>
#include <cstdlib>
#include <cstring>
#include <sys/stat.h>
#include <unistd.h>

namespace vh {

// =====================================================================================================
// reference evaluator
// =====================================================================================================
double ulpOf(double v)
{
    if (!std::isfinite(v)) {
        return 0.0;
    }
    double a = std::fabs(v);
    if (a < 1e-300) {
        return 1e-316;
    }
    return std::nextafter(a, INFINITY) - a;
}

double cnValue(const Expr &e)
{
    std::string t = trim(e.cnText);
    if (!e.cnExp.empty()) {
        t += "e" + trim(e.cnExp);
    }
    return strtod(t.c_str(), nullptr);
}

bool consistent(const Val &ref, double got)
{
    if (!ref.ok) {
        return true;
    }
    if (!std::isfinite(got)) {
        return false;
    }
    double tol = 4.0 * ref.e + 1e-10 * std::fabs(ref.v) + 1e-300;
    return std::fabs(got - ref.v) <= tol;
}

namespace {

Val fin(double v, double e)
{
    if (!std::isfinite(v) || !std::isfinite(e)) {
        return Val::bad("non-finite");
    }
    Val x;
    x.v = v;
    x.e = e + 4.0 * ulpOf(v);
    if (x.e > 1e-6 * std::max(1.0, std::fabs(v))) {
        return Val::bad("ill-conditioned");
    }
    return x;
}

// truth value of an operand: decidable only if clearly zero or clearly non-zero
int truth(const Val &a)
{
    if (!a.ok) {
        return -1;
    }
    if (a.v == 0.0 && a.e < 1e-290) {
        // an exact zero carried through operations that map 0 to 0 (0*x, abs(0), sin(0) ...): the error terms added on
        // the way are multiples of the smallest denormal, no faithful evaluation gives anything but 0
        return 0;
    }
    if (std::fabs(a.v) > a.e + 1e-12) {
        return 1;
    }
    return -1;
}

Val boolean(bool b)
{
    return Val::exact(b ? 1.0 : 0.0);
}

using F1 = double (*)(double);
using Dom = bool (*)(double);

Val unary(const Val &a, F1 f, Dom dom)
{
    if (!a.ok) {
        return a;
    }
    double r = a.e + 1e-6 * std::max(1.0, std::fabs(a.v));
    if (!dom(a.v) || !dom(a.v - r) || !dom(a.v + r)) {
        return Val::bad("domain");
    }
    double v = f(a.v);
    double fl = f(a.v - r);
    double fh = f(a.v + r);
    if (!std::isfinite(v) || !std::isfinite(fl) || !std::isfinite(fh)) {
        return Val::bad("non-finite");
    }
    double slope = std::fabs(fh - fl) / (2.0 * r);
    double curv = std::fabs(fh - 2.0 * v + fl) / (r * r);
    return fin(v, (slope + curv * r) * a.e * 1.5);
}

bool anyReal(double)
{
    return true;
}
bool positive(double x)
{
    return x > 1e-9;
}
bool nonzero(double x)
{
    return std::fabs(x) > 1e-6;
}
bool nonzeroExpRange(double x)
{
    // Python's math.sinh/cosh raise OverflowError where C returns inf: keep hyperbolic arguments moderate
    return std::fabs(x) > 1e-6 && std::fabs(x) < 300.0;
}
bool cosNonzero(double x)
{
    return std::fabs(std::cos(x)) > 1e-3 && std::fabs(x) < 1e6;
}
bool sinNonzero(double x)
{
    return std::fabs(std::sin(x)) > 1e-3 && std::fabs(x) < 1e6;
}
bool trigRange(double x)
{
    return std::fabs(x) < 1e6;
}
bool expRange(double x)
{
    return std::fabs(x) < 300.0;
}
bool insideUnit(double x)
{
    return std::fabs(x) < 1.0 - 1e-6;
}
bool outsideUnit(double x)
{
    return std::fabs(x) > 1.0 + 1e-6;
}
bool outsideUnitModerate(double x)
{
    // acoth(x) = atanh(1/x) is written with logarithms in the profiles: keep away from cancellation at large |x|
    return std::fabs(x) > 1.0 + 1e-3 && std::fabs(x) < 1e3;
}
bool moderateNonzero(double x)
{
    return std::fabs(x) > 1e-3 && std::fabs(x) < 1e3;
}
bool openUnitPositiveModerate(double x)
{
    return x > 1e-3 && x < 1.0 - 1e-3;
}
bool aboveOne(double x)
{
    return x > 1.0 + 1e-6;
}
bool openUnitPositive(double x)
{
    return x > 1e-6 && x < 1.0 - 1e-6;
}

double f_sec(double x) { return 1.0 / std::cos(x); }
double f_csc(double x) { return 1.0 / std::sin(x); }
double f_cot(double x) { return std::cos(x) / std::sin(x); }
double f_sech(double x) { return 1.0 / std::cosh(x); }
double f_csch(double x) { return 1.0 / std::sinh(x); }
double f_coth(double x) { return std::cosh(x) / std::sinh(x); }
double f_asec(double x) { return std::acos(1.0 / x); }
double f_acsc(double x) { return std::asin(1.0 / x); }
double f_acot(double x) { return std::atan(1.0 / x); }
double f_asech(double x) { return std::acosh(1.0 / x); }
double f_acsch(double x) { return std::asinh(1.0 / x); }
double f_acoth(double x) { return std::atanh(1.0 / x); }
double f_sin(double x) { return std::sin(x); }
double f_cos(double x) { return std::cos(x); }
double f_tan(double x) { return std::tan(x); }
double f_sinh(double x) { return std::sinh(x); }
double f_cosh(double x) { return std::cosh(x); }
double f_tanh(double x) { return std::tanh(x); }
double f_asin(double x) { return std::asin(x); }
double f_acos(double x) { return std::acos(x); }
double f_atan(double x) { return std::atan(x); }
double f_asinh(double x) { return std::asinh(x); }
double f_acosh(double x) { return std::acosh(x); }
double f_atanh(double x) { return std::atanh(x); }
double f_exp(double x) { return std::exp(x); }
double f_ln(double x) { return std::log(x); }
double f_log10(double x) { return std::log10(x); }
double f_sqrt(double x) { return std::sqrt(x); }

Val add(const Val &a, const Val &b, double sign)
{
    if (!a.ok) {
        return a;
    }
    if (!b.ok) {
        return b;
    }
    return fin(a.v + sign * b.v, a.e + b.e);
}

Val mul(const Val &a, const Val &b)
{
    if (!a.ok) {
        return a;
    }
    if (!b.ok) {
        return b;
    }
    return fin(a.v * b.v, std::fabs(a.v) * b.e + std::fabs(b.v) * a.e + a.e * b.e);
}

Val divide(const Val &a, const Val &b)
{
    if (!a.ok) {
        return a;
    }
    if (!b.ok) {
        return b;
    }
    if (std::fabs(b.v) <= b.e * 4.0 + 1e-9) {
        return Val::bad("division by ~0");
    }
    double v = a.v / b.v;
    return fin(v, a.e / std::fabs(b.v) + std::fabs(v) * b.e / std::fabs(b.v) * 1.5);
}

Val power(const Val &a, const Val &b)
{
    if (!a.ok) {
        return a;
    }
    if (!b.ok) {
        return b;
    }
    bool intExp = b.e == 0.0 && std::floor(b.v) == b.v && std::fabs(b.v) < 64;
    if (a.v > a.e + 1e-9) {
        double v = std::pow(a.v, b.v);
        if (!std::isfinite(v) || std::fabs(b.v) > 200) {
            return Val::bad("pow range");
        }
        double da = std::fabs(b.v * std::pow(a.v, b.v - 1.0));
        double db = std::fabs(v * std::log(a.v));
        return fin(v, (da * a.e + db * b.e) * 1.5);
    }
    if (intExp && std::fabs(a.v) > a.e + 1e-9) {
        double v = std::pow(a.v, b.v);
        double da = std::fabs(b.v * std::pow(a.v, b.v - 1.0));
        return fin(v, da * a.e * 1.5);
    }
    if (intExp && a.v == 0.0 && a.e == 0.0 && b.v > 0) {
        return Val::exact(0.0);
    }
    return Val::bad("pow domain");
}

bool nearEqual(const Val &a, const Val &b)
{
    return std::fabs(a.v - b.v) <= a.e + b.e + 1e-12 * std::max(std::fabs(a.v), std::fabs(b.v)) + 1e-300;
}

} // namespace

Val evalExpr(const ExprP &e, const LeafFn &leaf)
{
    if (e == nullptr) {
        return Val::bad("null");
    }
    auto K = [&](size_t i) { return evalExpr(e->kids[i], leaf); };
    switch (e->op) {
    case Op::CI:
        return leaf(*e);
    case Op::CN: {
        double v = cnValue(*e);
        if (!std::isfinite(v)) {
            return Val::bad("cn");
        }
        return Val::exact(v);
    }
    case Op::TRUE_:
        return Val::exact(1.0);
    case Op::FALSE_:
        return Val::exact(0.0);
    case Op::E:
    case Op::PI: {
        // generator profiles write these constants with 15 significant digits
        Val c;
        c.v = e->op == Op::E ? std::exp(1.0) : std::acos(-1.0);
        c.e = 5e-15 * c.v;
        return c;
    }
    case Op::INF:
    case Op::NAN_:
        return Val::bad("non-finite constant");
    case Op::DIFF:
        return Val::bad("diff in value expression");
    case Op::EQ:
    case Op::NEQ:
    case Op::LT:
    case Op::LEQ:
    case Op::GT:
    case Op::GEQ: {
        Val a = K(0);
        Val b = K(1);
        if (!a.ok) {
            return a;
        }
        if (!b.ok) {
            return b;
        }
        bool exactBoth = a.e == 0.0 && b.e == 0.0;
        if (!exactBoth && nearEqual(a, b)) {
            return Val::bad("comparison within error");
        }
        switch (e->op) {
        case Op::EQ: return boolean(a.v == b.v);
        case Op::NEQ: return boolean(a.v != b.v);
        case Op::LT: return boolean(a.v < b.v);
        case Op::LEQ: return boolean(a.v <= b.v);
        case Op::GT: return boolean(a.v > b.v);
        default: return boolean(a.v >= b.v);
        }
    }
    case Op::AND:
    case Op::OR:
    case Op::XOR: {
        int acc = e->op == Op::AND ? 1 : 0;
        for (size_t i = 0; i < e->kids.size(); ++i) {
            int t = truth(K(i));
            if (t < 0) {
                return Val::bad("truth value within error");
            }
            if (e->op == Op::AND) {
                acc = acc & t;
            } else if (e->op == Op::OR) {
                acc = acc | t;
            } else {
                acc = acc ^ t;
            }
        }
        return boolean(acc != 0);
    }
    case Op::NOT: {
        int t = truth(K(0));
        if (t < 0) {
            return Val::bad("truth value within error");
        }
        return boolean(t == 0);
    }
    case Op::PLUS: {
        Val acc = K(0);
        for (size_t i = 1; i < e->kids.size(); ++i) {
            acc = add(acc, K(i), 1.0);
        }
        return acc;
    }
    case Op::MINUS: {
        Val a = K(0);
        if (e->kids.size() == 1) {
            if (!a.ok) {
                return a;
            }
            return fin(-a.v, a.e);
        }
        return add(a, K(1), -1.0);
    }
    case Op::TIMES: {
        Val acc = K(0);
        for (size_t i = 1; i < e->kids.size(); ++i) {
            acc = mul(acc, K(i));
        }
        return acc;
    }
    case Op::DIVIDE:
        return divide(K(0), K(1));
    case Op::POWER:
        return power(K(0), K(1));
    case Op::ROOT: {
        if (!e->hasQualifier) {
            return unary(K(0), f_sqrt, positive);
        }
        Val n = K(0);
        Val x = K(1);
        Val inv = divide(Val::exact(1.0), n);
        if (!x.ok) {
            return x;
        }
        if (!(x.v > x.e + 1e-9)) {
            return Val::bad("root domain");
        }
        return power(x, inv);
    }
    case Op::ABS: {
        Val a = K(0);
        if (!a.ok) {
            return a;
        }
        return fin(std::fabs(a.v), a.e);
    }
    case Op::EXP:
        return unary(K(0), f_exp, expRange);
    case Op::LN:
        return unary(K(0), f_ln, positive);
    case Op::LOG: {
        if (!e->hasQualifier) {
            return unary(K(0), f_log10, positive);
        }
        Val b = unary(K(0), f_ln, positive);
        Val x = unary(K(1), f_ln, positive);
        return divide(x, b);
    }
    case Op::CEILING:
    case Op::FLOOR: {
        Val a = K(0);
        if (!a.ok) {
            return a;
        }
        double nearest = std::round(a.v);
        if (a.e > 0.0 && std::fabs(a.v - nearest) <= a.e * 2.0 + 1e-9) {
            return Val::bad("floor/ceiling at a step");
        }
        if (std::fabs(a.v) > 1e15) {
            return Val::bad("range");
        }
        return Val::exact(e->op == Op::FLOOR ? std::floor(a.v) : std::ceil(a.v));
    }
    case Op::MIN:
    case Op::MAX: {
        Val acc = K(0);
        for (size_t i = 1; i < e->kids.size(); ++i) {
            Val b = K(i);
            if (!acc.ok) {
                return acc;
            }
            if (!b.ok) {
                return b;
            }
            double v = e->op == Op::MIN ? std::min(acc.v, b.v) : std::max(acc.v, b.v);
            acc = fin(v, std::max(acc.e, b.e));
        }
        return acc;
    }
    case Op::REM: {
        Val a = K(0);
        Val b = K(1);
        if (!a.ok) {
            return a;
        }
        if (!b.ok) {
            return b;
        }
        if (std::fabs(b.v) <= b.e * 4 + 1e-9) {
            return Val::bad("rem by ~0");
        }
        double qv = a.v / b.v;
        double qe = a.e / std::fabs(b.v) + std::fabs(qv) * b.e / std::fabs(b.v);
        // (also when both operands are exact here: the generated code may read them through a units conversion, and one
        // ulp decides on which side of the step an exactly integral ratio falls)
        if (std::fabs(qv - std::round(qv)) <= 2.0 * qe + 1e-9 || std::fabs(qv) > 1e9) {
            return Val::bad("rem at a step");
        }
        return fin(std::fmod(a.v, b.v), a.e + std::fabs(std::trunc(qv)) * b.e);
    }
    case Op::SIN: return unary(K(0), f_sin, trigRange);
    case Op::COS: return unary(K(0), f_cos, trigRange);
    case Op::TAN: return unary(K(0), f_tan, cosNonzero);
    case Op::SEC: return unary(K(0), f_sec, cosNonzero);
    case Op::CSC: return unary(K(0), f_csc, sinNonzero);
    case Op::COT: return unary(K(0), f_cot, sinNonzero);
    case Op::SINH: return unary(K(0), f_sinh, expRange);
    case Op::COSH: return unary(K(0), f_cosh, expRange);
    case Op::TANH: return unary(K(0), f_tanh, expRange);
    case Op::SECH: return unary(K(0), f_sech, expRange);
    case Op::CSCH: return unary(K(0), f_csch, nonzeroExpRange);
    case Op::COTH: return unary(K(0), f_coth, nonzeroExpRange);
    case Op::ASIN: return unary(K(0), f_asin, insideUnit);
    case Op::ACOS: return unary(K(0), f_acos, insideUnit);
    case Op::ATAN: return unary(K(0), f_atan, anyReal);
    case Op::ASEC: return unary(K(0), f_asec, outsideUnit);
    case Op::ACSC: return unary(K(0), f_acsc, outsideUnit);
    case Op::ACOT: return unary(K(0), f_acot, positive); // principal-value conventions differ for negative arguments: not judged
    case Op::ASINH: return unary(K(0), f_asinh, trigRange);
    case Op::ACOSH: return unary(K(0), f_acosh, aboveOne);
    case Op::ATANH: return unary(K(0), f_atanh, insideUnit);
    case Op::ASECH:
    case Op::ACSCH:
    case Op::ACOTH: {
        // the profiles implement these three with logarithms of sums (log(1/x + sqrt(1/x^2 +- 1)), 0.5*log((x+1)/(x-1))):
        // accurate to ~1e-12 relative on the moderate domain, which is carried as an error bound
        Val r = e->op == Op::ASECH ? unary(K(0), f_asech, openUnitPositiveModerate) : (e->op == Op::ACSCH ? unary(K(0), f_acsch, moderateNonzero) : unary(K(0), f_acoth, outsideUnitModerate));
        if (r.ok) {
            r.e += 4e-12 * std::fabs(r.v);
        }
        return r;
    }
    case Op::PIECEWISE: {
        size_t n = e->kids.size();
        size_t pairs = e->hasOtherwise ? (n - 1) / 2 : n / 2;
        for (size_t i = 0; i < pairs; ++i) {
            int t = truth(K(2 * i + 1));
            if (t < 0) {
                return Val::bad("piecewise condition within error");
            }
            if (t == 1) {
                return K(2 * i);
            }
        }
        if (e->hasOtherwise) {
            return K(n - 1);
        }
        return Val::bad("piecewise without a true branch");
    }
    default:
        break;
    }
    return Val::bad("unsupported");
}

const std::vector<OpInfo> &valueOps()
{
    static const std::vector<OpInfo> ops = {
        {Op::EQ, 2, 2, false, true}, {Op::NEQ, 2, 2, false, true}, {Op::LT, 2, 2, false, true}, {Op::LEQ, 2, 2, false, true},
        {Op::GT, 2, 2, false, true}, {Op::GEQ, 2, 2, false, true}, {Op::AND, 2, -1, false, true}, {Op::OR, 2, -1, false, true},
        {Op::XOR, 2, -1, false, true}, {Op::NOT, 1, 1, false, true}, {Op::PLUS, 1, -1, false, false}, {Op::MINUS, 1, 2, false, false},
        {Op::TIMES, 2, -1, false, false}, {Op::DIVIDE, 2, 2, false, false}, {Op::POWER, 2, 2, false, false}, {Op::ROOT, 1, 1, false, false},
        {Op::ROOT, 2, 2, true, false}, {Op::ABS, 1, 1, false, false}, {Op::EXP, 1, 1, false, false}, {Op::LN, 1, 1, false, false},
        {Op::LOG, 1, 1, false, false}, {Op::LOG, 2, 2, true, false}, {Op::CEILING, 1, 1, false, false}, {Op::FLOOR, 1, 1, false, false},
        {Op::MIN, 2, -1, false, false}, {Op::MAX, 2, -1, false, false}, {Op::REM, 2, 2, false, false},
        {Op::SIN, 1, 1, false, false}, {Op::COS, 1, 1, false, false}, {Op::TAN, 1, 1, false, false}, {Op::SEC, 1, 1, false, false},
        {Op::CSC, 1, 1, false, false}, {Op::COT, 1, 1, false, false}, {Op::SINH, 1, 1, false, false}, {Op::COSH, 1, 1, false, false},
        {Op::TANH, 1, 1, false, false}, {Op::SECH, 1, 1, false, false}, {Op::CSCH, 1, 1, false, false}, {Op::COTH, 1, 1, false, false},
        {Op::ASIN, 1, 1, false, false}, {Op::ACOS, 1, 1, false, false}, {Op::ATAN, 1, 1, false, false}, {Op::ASEC, 1, 1, false, false},
        {Op::ACSC, 1, 1, false, false}, {Op::ACOT, 1, 1, false, false}, {Op::ASINH, 1, 1, false, false}, {Op::ACOSH, 1, 1, false, false},
        {Op::ATANH, 1, 1, false, false}, {Op::ASECH, 1, 1, false, false}, {Op::ACSCH, 1, 1, false, false}, {Op::ACOTH, 1, 1, false, false},
        {Op::PIECEWISE, 2, -1, false, false}};
    return ops;
}

const char *qkindName(QKind k)
{
    switch (k) {
    case QKind::CONSTANT: return "constant";
    case QKind::COMPUTED_CONSTANT: return "computed_constant";
    case QKind::VOI: return "variable_of_integration";
    case QKind::STATE: return "state";
    case QKind::ALGEBRAIC: return "algebraic";
    case QKind::NLA_UNKNOWN: return "algebraic";
    case QKind::EXTERNAL: return "external";
    }
    return "?";
}

// =====================================================================================================
// semantic models
// =====================================================================================================
namespace {

struct UnitsChoice
{
    std::string name;
    double scale;
};

// family -> available units (name, scale w.r.t. the family's SI unit); user units are defined by semToIr
const std::vector<std::vector<UnitsChoice>> &families()
{
    static const std::vector<std::vector<UnitsChoice>> f = {
        {{"dimensionless", 1.0}, {"percent_like", 0.01}, {"kilo_dimensionless", 1000.0}},
        {{"volt", 1.0}, {"millivolt", 1e-3}, {"kilovolt", 1e3}, {"decivolt", 0.1}},
        {{"second", 1.0}, {"millisecond", 1e-3}, {"minute_like", 60.0}},
        // compound units: several unit children, some referencing user-defined units that carry a scale
        {{"volt_per_second", 1.0}, {"millivolt_per_millisecond", 1.0}, {"kilovolt_per_millisecond", 1e6}, {"millivolt_per_minute", 1e-3 / 60.0}, {"kilovolt_per_second", 1e3}}};
    return f;
}

double niceValue(Rng &rng)
{
    static const std::vector<double> v = {0.5, 1.25, 2.0, 3.0, 0.75, 1.5, 4.0, 0.3, 2.5, 7.0, 0.125, 1.1, 0.9, 5.5, 12.0, -1.5, -0.5, -2.0, 0.05, 30.0};
    return rng.pick(v);
}

// random value expression over the given leaves, valid at the given reference valuation
ExprP randomValueExpr(Rng &rng, const std::vector<int> &leaves, int depth, bool wantBool);

ExprP randomLeaf(Rng &rng, const std::vector<int> &leaves)
{
    if (!leaves.empty() && rng.chance(0.7)) {
        int q = rng.pick(leaves);
        return mkCi("", q);
    }
    if (rng.chance(0.1)) {
        return mkOp(rng.chance(0.5) ? Op::PI : Op::E, {});
    }
    double v = niceValue(rng);
    return mkCnD(v);
}

ExprP randomValueExpr(Rng &rng, const std::vector<int> &leaves, int depth, bool wantBool)
{
    if (depth <= 0) {
        if (wantBool) {
            static const std::vector<Op> rel = {Op::LT, Op::GT, Op::LEQ, Op::GEQ, Op::EQ, Op::NEQ};
            return mkOp(rng.pick(rel), {randomLeaf(rng, leaves), randomLeaf(rng, leaves)});
        }
        return randomLeaf(rng, leaves);
    }
    const auto &ops = valueOps();
    for (int attempt = 0; attempt < 20; ++attempt) {
        const OpInfo &oi = rng.pick(ops);
        if (oi.boolean != wantBool) {
            continue;
        }
        auto e = mkOp(oi.op, {});
        e->hasQualifier = oi.qualifier;
        if (oi.op == Op::PIECEWISE) {
            int pieces = rng.range(1, 2);
            for (int i = 0; i < pieces; ++i) {
                e->kids.push_back(randomValueExpr(rng, leaves, depth - 1, false));
                e->kids.push_back(randomValueExpr(rng, leaves, depth - 1, true));
            }
            e->hasOtherwise = true;
            e->kids.push_back(randomValueExpr(rng, leaves, depth - 1, false));
            return e;
        }
        int n = oi.maxArity < 0 ? rng.range(oi.minArity, 3) : rng.range(oi.minArity, oi.maxArity);
        bool kidsBool = oi.op == Op::AND || oi.op == Op::OR || oi.op == Op::XOR || oi.op == Op::NOT;
        for (int i = 0; i < n; ++i) {
            e->kids.push_back(randomValueExpr(rng, leaves, depth - 1 - (rng.chance(0.3) ? 1 : 0), kidsBool));
        }
        return e;
    }
    return randomLeaf(rng, leaves);
}

} // namespace

std::vector<int> stateQuantities(const SemModel &m)
{
    std::vector<int> s;
    for (size_t i = 0; i < m.q.size(); ++i) {
        if (m.q[i].kind == QKind::STATE) {
            s.push_back(static_cast<int>(i));
        }
    }
    return s;
}

static bool anyScaledInstance(const Quantity &q)
{
    for (const auto &in : q.inst) {
        if (in.scale != q.inst[0].scale) {
            return true;
        }
    }
    return false;
}

// value of quantity `qi` as seen through instance `inst` (in that instance's units), given home-unit values
static Val seenThrough(const SemModel &m, const std::vector<Val> &home, int qi, int comp)
{
    const auto &q = m.q[static_cast<size_t>(qi)];
    const Val &h = home[static_cast<size_t>(qi)];
    if (!h.ok) {
        return h;
    }
    double sHome = q.inst[0].scale;
    double sHere = sHome;
    for (const auto &in : q.inst) {
        if (in.comp == comp) {
            sHere = in.scale;
            break;
        }
    }
    double f = sHome / sHere;
    Val r;
    r.v = h.v * f;
    // The analyser's primary variable of a class need not be the home variable: even a copy with the home's units may
    // be read through a scaling (there and back), so every read of a non-constant carries a couple of ulps.
    bool exactRead = f == 1.0 && (q.kind == QKind::CONSTANT || q.kind == QKind::VOI || q.kind == QKind::STATE) && !anyScaledInstance(q);
    r.e = h.e * std::fabs(f) + (exactRead ? 0.0 : 4.0 * ulpOf(r.v));
    return r;
}

static double instScale(const Quantity &q, int comp)
{
    for (const auto &in : q.inst) {
        if (in.comp == comp) {
            return in.scale;
        }
    }
    return q.inst[0].scale;
}

SemEval evaluateSem(const SemModel &m, const SemPoint &pt)
{
    SemEval ev;
    ev.value.assign(m.q.size(), Val::bad("not evaluated"));
    ev.rate.assign(m.q.size(), Val::bad("not a state"));
    auto states = stateQuantities(m);
    for (size_t k = 0; k < states.size(); ++k) {
        ev.value[static_cast<size_t>(states[k])] = Val::exact(pt.stateValues[k]);
    }
    if (m.voi >= 0) {
        ev.value[static_cast<size_t>(m.voi)] = Val::exact(pt.voi);
    }
    for (size_t i = 0; i < m.q.size(); ++i) {
        const auto &q = m.q[i];
        if (q.kind == QKind::CONSTANT) {
            ev.value[i] = Val::exact(q.init);
        } else if (q.kind == QKind::NLA_UNKNOWN) {
            ev.value[i] = Val::exact(q.planted);
            ev.value[i].e = 1e-7 * std::max(1.0, std::fabs(q.planted)); // the solver's tolerance
        } else if (q.kind == QKind::EXTERNAL) {
            ev.value[i] = Val::exact(q.init);
        }
    }
    for (int qi : m.order) {
        const auto &q = m.q[static_cast<size_t>(qi)];
        if (q.kind != QKind::COMPUTED_CONSTANT && q.kind != QKind::ALGEBRAIC && q.kind != QKind::STATE) {
            continue;
        }
        int comp = q.inst[static_cast<size_t>(q.defInst)].comp;
        Val r = evalExpr(q.def, [&](const Expr &leaf) { return seenThrough(m, ev.value, leaf.quantity, comp); });
        if (q.kind == QKind::STATE) {
            // r = d(value in defining component's units)/d(voi in that component's units)
            if (r.ok) {
                double sy = instScale(q, comp);
                double st = m.voi >= 0 ? instScale(m.q[static_cast<size_t>(m.voi)], comp) : 1.0;
                double sy0 = q.inst[0].scale;
                double st0 = m.voi >= 0 ? m.q[static_cast<size_t>(m.voi)].inst[0].scale : 1.0;
                double f = (sy / sy0) / (st / st0);
                r.v *= f;
                r.e = r.e * std::fabs(f) + 2.0 * ulpOf(r.v);
            }
            ev.rate[static_cast<size_t>(qi)] = r;
        } else {
            if (r.ok) {
                double f = instScale(q, comp) / q.inst[0].scale; // back to home units
                r.v *= f;
                r.e = r.e * std::fabs(f) + (f == 1.0 ? 0.0 : 2.0 * ulpOf(r.v));
            }
            ev.value[static_cast<size_t>(qi)] = r;
        }
    }
    return ev;
}

SemPoint initialPoint(const SemModel &m)
{
    SemPoint p;
    p.voi = 0.0;
    for (int s : stateQuantities(m)) {
        const auto &q = m.q[static_cast<size_t>(s)];
        double v = q.init;
        if (q.initByQuantity >= 0) {
            // initialised by the value of a constant as seen in the state's home component, read as a number in the state's home units
            const auto &c = m.q[static_cast<size_t>(q.initByQuantity)];
            v = c.init * c.inst[0].scale / instScale(c, q.inst[0].comp);
        }
        p.stateValues.push_back(v);
    }
    return p;
}

SemModel generateSemModel(Rng &rng, const SemOptions &opt)
{
    for (int attempt = 0; attempt < 200; ++attempt) {
        SemModel m;
        m.ncomp = rng.range(1, opt.maxComponents);
        m.compParent.assign(static_cast<size_t>(m.ncomp), -1);
        if (opt.encapsulation) {
            for (int c = 1; c < m.ncomp; ++c) {
                if (rng.chance(0.4)) {
                    m.compParent[static_cast<size_t>(c)] = static_cast<int>(rng.below(static_cast<uint64_t>(c)));
                }
            }
        }
        int counter = 0;
        auto newQuantity = [&](QKind kind, int family) {
            Quantity q;
            q.kind = kind;
            q.family = family;
            SemInstance in;
            in.comp = static_cast<int>(rng.below(static_cast<uint64_t>(m.ncomp)));
            in.name = std::string(kind == QKind::VOI ? "t" : (kind == QKind::STATE ? "s" : (kind == QKind::CONSTANT ? "k" : (kind == QKind::COMPUTED_CONSTANT ? "cc" : (kind == QKind::NLA_UNKNOWN ? "u" : "a"))))) + std::to_string(counter++);
            const auto &fam = families()[static_cast<size_t>(family)];
            const auto &uc = opt.scaledUnits ? rng.pick(fam) : fam[0];
            in.units = uc.name;
            in.scale = uc.scale;
            q.inst.push_back(in);
            m.q.push_back(q);
            return static_cast<int>(m.q.size()) - 1;
        };
        // make sure quantity `qi` has an instance in component `comp`; components must be able to connect:
        // siblings or parent/child.  Unreachable pairs are routed by simply putting everything that has to talk in
        // reachable components: if not reachable, the use is dropped by the caller.
        auto reachableComp = [&](int a, int b) {
            if (a == b) {
                return true;
            }
            return m.compParent[static_cast<size_t>(a)] == b || m.compParent[static_cast<size_t>(b)] == a || m.compParent[static_cast<size_t>(a)] == m.compParent[static_cast<size_t>(b)];
        };
        const UnitsChoice *forcedUnits = nullptr;
        auto ensureInstance = [&](int qi, int comp) -> bool {
            auto &q = m.q[static_cast<size_t>(qi)];
            for (const auto &in : q.inst) {
                if (in.comp == comp) {
                    return forcedUnits == nullptr || in.units == forcedUnits->name;
                }
            }
            // connect to an existing instance in a reachable component
            bool ok = false;
            for (const auto &in : q.inst) {
                ok = ok || reachableComp(in.comp, comp);
            }
            if (!ok) {
                return false;
            }
            SemInstance ni;
            ni.comp = comp;
            ni.name = q.inst[0].name + "_in" + std::to_string(comp);
            const auto &fam = families()[static_cast<size_t>(q.family)];
            const auto &uc = forcedUnits != nullptr ? *forcedUnits : (opt.scaledUnits ? rng.pick(fam) : fam[0]);
            // the VOI and everything else may be scaled
            ni.units = uc.name;
            ni.scale = uc.scale;
            q.inst.push_back(ni);
            return true;
        };
        std::vector<int> usable; // quantities that may appear in later definitions
        if (opt.ode) {
            m.voi = newQuantity(QKind::VOI, 2);
        }
        for (int i = 0; i < opt.constants; ++i) {
            int qi = newQuantity(QKind::CONSTANT, (opt.compoundUnits && rng.chance(0.4)) ? 3 : static_cast<int>(rng.below(2)));
            m.q[static_cast<size_t>(qi)].init = niceValue(rng);
            usable.push_back(qi);
        }
        bool failed = false;
        auto define = [&](int qi, const std::vector<int> &candidates, int depth) {
            auto &q = m.q[static_cast<size_t>(qi)];
            int comp = q.inst[0].comp;
            // leaves: candidates that can get an instance in this component
            std::vector<int> leaves;
            for (int c : candidates) {
                if (c != qi && ensureInstance(c, comp)) {
                    leaves.push_back(c);
                }
            }
            q.defInst = 0;
            q.def = randomValueExpr(rng, leaves, depth, false);
            q.lhsOnRight = rng.chance(0.15);
        };
        for (int i = 0; i < opt.computedConstants; ++i) {
            int qi = newQuantity(QKind::COMPUTED_CONSTANT, (opt.compoundUnits && rng.chance(0.4)) ? 3 : static_cast<int>(rng.below(2)));
            define(qi, usable, rng.chance(0.12) ? 0 : rng.range(1, opt.exprDepth)); // depth 0: cc = (copy of) k, or a literal
            // a computed constant must read at least one quantity or literal: fine either way
            m.order.push_back(qi);
            usable.push_back(qi);
        }
        std::vector<int> stateIds;
        if (opt.ode) {
            for (int i = 0; i < opt.states; ++i) {
                int qi = newQuantity(QKind::STATE, static_cast<int>(rng.below(2)));
                auto &q = m.q[static_cast<size_t>(qi)];
                q.init = niceValue(rng);
                if (opt.initByConstant && rng.chance(0.3)) {
                    // a constant that lives (or gets a copy) in the state's home component
                    // The constant is referenced through a variable of the state's home component that has the SAME units
                    // as the state (whether initial_value="name" converts between different units is debatable: not generated).
                    std::vector<int> consts;
                    for (int c : usable) {
                        if (m.q[static_cast<size_t>(c)].kind == QKind::CONSTANT && m.q[static_cast<size_t>(c)].family == q.family) {
                            consts.push_back(c);
                        }
                    }
                    if (!consts.empty()) {
                        int c = rng.pick(consts);
                        UnitsChoice same {q.inst[0].units, q.inst[0].scale};
                        forcedUnits = &same;
                        if (ensureInstance(c, q.inst[0].comp)) {
                            q.initByQuantity = c;
                        }
                        forcedUnits = nullptr;
                    }
                }
                stateIds.push_back(qi);
            }
            for (int s : stateIds) {
                usable.push_back(s);
            }
            usable.push_back(m.voi);
        }
        // algebraic variables depend on at least one state or the VOI (otherwise they would be computed constants)
        std::vector<int> algebraicIds;
        if (opt.ode) {
            for (int i = 0; i < opt.algebraics; ++i) {
                int qi = newQuantity(QKind::ALGEBRAIC, (opt.compoundUnits && rng.chance(0.4)) ? 3 : static_cast<int>(rng.below(2)));
                auto &q = m.q[static_cast<size_t>(qi)];
                int comp = q.inst[0].comp;
                std::vector<int> dyn = stateIds;
                dyn.push_back(m.voi);
                for (int a : algebraicIds) {
                    dyn.push_back(a);
                }
                rng.shuffle(dyn);
                int must = -1;
                for (int d : dyn) {
                    if (ensureInstance(d, comp)) {
                        must = d;
                        break;
                    }
                }
                if (must < 0) {
                    failed = true;
                    break;
                }
                std::vector<int> leaves;
                for (int c : usable) {
                    if (c != qi && ensureInstance(c, comp)) {
                        leaves.push_back(c);
                    }
                }
                ExprP inner = randomValueExpr(rng, leaves, rng.range(0, opt.exprDepth - 1), false);
                // guarantee the dependence on a dynamic quantity through a benign operator
                q.def = mkOp(rng.chance(0.5) ? Op::PLUS : Op::TIMES, {mkCi("", must), inner});
                if (rng.chance(0.12)) {
                    q.def = mkCi("", must); // a bare reference: a = (copy of) s, the right-hand side is a single variable
                }
                q.lhsOnRight = rng.chance(0.15);
                m.order.push_back(qi);
                algebraicIds.push_back(qi);
                usable.push_back(qi);
            }
            // rates may read anything
            for (int s : stateIds) {
                auto &q = m.q[static_cast<size_t>(s)];
                // the ODE may be written in another component than the state's home
                int comp = q.inst[0].comp;
                if (rng.chance(0.3)) {
                    int other = static_cast<int>(rng.below(static_cast<uint64_t>(m.ncomp)));
                    if (ensureInstance(s, other)) {
                        comp = other;
                    }
                }
                if (!ensureInstance(m.voi, comp)) {
                    failed = true;
                    break;
                }
                for (size_t k = 0; k < q.inst.size(); ++k) {
                    if (q.inst[k].comp == comp) {
                        q.defInst = static_cast<int>(k);
                    }
                }
                std::vector<int> leaves;
                for (int c : usable) {
                    if (ensureInstance(c, comp)) {
                        leaves.push_back(c);
                    }
                }
                q.def = randomValueExpr(rng, leaves, rng.range(0, opt.exprDepth), false);
                // dx/dt = x (the right-hand side is a bare reference to the state itself) is a scenario of its own
                for (int guard = 0; guard < 20 && q.def->op == Op::CI && q.def->quantity == s; ++guard) {
                    q.def = randomValueExpr(rng, leaves, rng.range(0, opt.exprDepth), false);
                }
                if (q.def->op == Op::CI && q.def->quantity == s) {
                    q.def = mkCnD(1.5);
                }
                if (opt.odeSelfRate && s == stateIds[0]) {
                    q.def = mkCi("", s);
                }
                m.order.push_back(s);
            }
        }
        if (failed) {
            continue;
        }
        // implicit systems
        for (int sysIndex = 0; opt.nla && sysIndex < std::max(1, opt.nlaSystems); ++sysIndex) {
            NlaSystem sys;
            sys.comp = static_cast<int>(rng.below(static_cast<uint64_t>(m.ncomp)));
            int n = rng.range(1, 3);
            if (opt.nlaInterleave) {
                sys.comp = m.nla.empty() ? sys.comp : m.nla[0].comp;
                n = rng.range(2, 3);
                m.nlaInterleave = true;
            }
            for (int i = 0; i < n; ++i) {
                int qi = newQuantity(QKind::NLA_UNKNOWN, 0);
                auto &q = m.q[static_cast<size_t>(qi)];
                q.inst[0].comp = sys.comp;
                q.inst[0].units = "dimensionless";
                q.inst[0].scale = 1.0;
                q.planted = niceValue(rng);
                q.init = q.planted + (rng.chance(0.5) ? 0.2 : -0.15); // initial guess near the planted solution
                q.nla = sysIndex;
                sys.unknowns.push_back(qi);
            }
            // equations: diagonally dominant linear combination + mild nonlinearity, right-hand side planted
            for (int i = 0; i < n; ++i) {
                std::vector<ExprP> terms;
                double rhs = 0.0;
                for (int j = 0; j < n; ++j) {
                    double coef = i == j ? 4.0 + static_cast<double>(rng.range(0, 3)) : static_cast<double>(rng.range(-1, 1));
                    if (opt.nlaDense && coef == 0.0) {
                        coef = 1.0;
                    }
                    if (coef == 0.0) {
                        continue;
                    }
                    double x = m.q[static_cast<size_t>(sys.unknowns[static_cast<size_t>(j)])].planted;
                    terms.push_back(mkOp(Op::TIMES, {mkCnD(coef), mkCi("", sys.unknowns[static_cast<size_t>(j)])}));
                    rhs += coef * x;
                }
                if (rng.chance(0.5)) {
                    double x = m.q[static_cast<size_t>(sys.unknowns[static_cast<size_t>(i)])].planted;
                    terms.push_back(mkOp(Op::SIN, {mkCi("", sys.unknowns[static_cast<size_t>(i)])}));
                    rhs += std::sin(x);
                }
                NlaEquation eq;
                eq.lhs = terms.size() == 1 ? terms[0] : mkOp(Op::PLUS, terms);
                eq.rhs = mkCnD(rhs);
                sys.equations.push_back(eq);
            }
            m.nla.push_back(sys);
            m.nlaGuess = opt.nlaGuess;
        }
        // all definitions must be decidable at the initial point and at two more points
        bool good = true;
        for (int probe = 0; probe < 3 && good; ++probe) {
            SemPoint pt = initialPoint(m);
            if (probe > 0) {
                pt.voi = probe == 1 ? 0.7 : 2.3;
                for (auto &s : pt.stateValues) {
                    s = s * (probe == 1 ? 1.3 : 0.6) + (probe == 1 ? 0.21 : -0.17);
                }
            }
            SemEval ev = evaluateSem(m, pt);
            for (size_t i = 0; i < m.q.size(); ++i) {
                if (m.q[i].kind == QKind::COMPUTED_CONSTANT || m.q[i].kind == QKind::ALGEBRAIC) {
                    good = good && ev.value[i].ok;
                }
                if (m.q[i].kind == QKind::STATE) {
                    good = good && ev.rate[i].ok;
                }
            }
        }
        if (good) {
            return m;
        }
    }
    // fallback: trivial model
    SemModel m;
    m.ncomp = 1;
    m.compParent = {-1};
    Quantity k;
    k.kind = QKind::CONSTANT;
    k.init = 1.0;
    SemInstance in;
    in.name = "k0";
    in.units = "dimensionless";
    k.inst.push_back(in);
    m.q.push_back(k);
    return m;
}

static ExprP nameLeaves(const SemModel &m, const ExprP &e, int comp)
{
    auto c = std::make_shared<Expr>(*e);
    if (c->op == Op::CI && c->quantity >= 0) {
        const auto &q = m.q[static_cast<size_t>(c->quantity)];
        c->var = q.inst[0].name;
        for (const auto &in : q.inst) {
            if (in.comp == comp) {
                c->var = in.name;
            }
        }
    }
    for (auto &k : c->kids) {
        k = nameLeaves(m, k, comp);
    }
    return c;
}

IrModel semToIr(const SemModel &m)
{
    IrModel ir;
    ir.name = "sem_model";
    // units used
    std::set<std::string> used;
    for (const auto &q : m.q) {
        for (const auto &in : q.inst) {
            used.insert(in.units);
        }
    }
    auto addScaled = [&](const std::string &name, const std::string &ref, const std::string &prefix, const std::string &mult) {
        if (used.count(name) == 0U || ir.findUnits(name) >= 0) {
            return;
        }
        IrUnits u;
        u.name = name;
        IrUnit k;
        k.ref = ref;
        k.prefix = prefix;
        if (!mult.empty()) {
            k.hasMult = true;
            k.mult = mult;
        }
        u.units.push_back(k);
        ir.units.push_back(u);
    };
    addScaled("percent_like", "dimensionless", "centi", "");
    addScaled("kilo_dimensionless", "dimensionless", "3", "");
    addScaled("millivolt", "volt", "milli", "");
    addScaled("kilovolt", "volt", "kilo", "");
    addScaled("decivolt", "volt", "", "0.1");
    addScaled("millisecond", "second", "-3", "");
    addScaled("minute_like", "second", "", "60");
    // compound units: each child references a user-defined units (which are added below if not yet present)
    auto addCompound = [&](const std::string &name, const std::string &num, const std::string &den) {
        if (used.count(name) == 0U) {
            return;
        }
        IrUnits u;
        u.name = name;
        IrUnit a;
        a.ref = num;
        u.units.push_back(a);
        IrUnit b;
        b.ref = den;
        b.hasExp = true;
        b.exp = "-1";
        u.units.push_back(b);
        ir.units.push_back(u);
        used.insert(num);
        used.insert(den);
    };
    addCompound("volt_per_second", "volt", "second");
    addCompound("millivolt_per_millisecond", "millivolt", "millisecond");
    addCompound("kilovolt_per_millisecond", "kilovolt", "millisecond");
    addCompound("millivolt_per_minute", "millivolt", "minute_like");
    addCompound("kilovolt_per_second", "kilovolt", "second");
    // (the user units the compounds are built from)
    addScaled("millivolt", "volt", "milli", "");
    addScaled("kilovolt", "volt", "kilo", "");
    addScaled("millisecond", "second", "-3", "");
    addScaled("minute_like", "second", "", "60");
    for (int c = 0; c < m.ncomp; ++c) {
        IrComponent comp;
        comp.name = m.compName.size() == static_cast<size_t>(m.ncomp) ? m.compName[static_cast<size_t>(c)] : "comp" + std::to_string(c);
        comp.parent = m.compParent[static_cast<size_t>(c)];
        ir.comps.push_back(comp);
    }
    for (int c = 0; c < m.ncomp; ++c) {
        if (ir.comps[static_cast<size_t>(c)].parent >= 0) {
            ir.comps[static_cast<size_t>(ir.comps[static_cast<size_t>(c)].parent)].children.push_back(c);
        }
    }
    char buf[64];
    for (const auto &q : m.q) {
        for (size_t k = 0; k < q.inst.size(); ++k) {
            IrVariable v;
            v.name = q.inst[k].name;
            v.units = q.inst[k].units;
            if (k == 0 && (q.kind == QKind::CONSTANT || q.kind == QKind::STATE || (q.kind == QKind::NLA_UNKNOWN && m.nlaGuess) || q.kind == QKind::EXTERNAL)) {
                if (q.kind == QKind::STATE && q.initByQuantity >= 0) {
                    const auto &c = m.q[static_cast<size_t>(q.initByQuantity)];
                    for (const auto &ci : c.inst) {
                        if (ci.comp == q.inst[0].comp) {
                            v.init = ci.name;
                        }
                    }
                } else {
                    snprintf(buf, sizeof buf, "%.17g", q.init);
                    std::string s = buf;
                    v.init = s;
                }
            }
            ir.comps[static_cast<size_t>(q.inst[k].comp)].vars.push_back(v);
        }
        // connect every non-home instance to an instance in a reachable component that is already connected
        std::vector<size_t> connected = {0};
        std::vector<size_t> pending;
        for (size_t k = 1; k < q.inst.size(); ++k) {
            pending.push_back(k);
        }
        int guard = 0;
        while (!pending.empty() && guard++ < 100) {
            for (size_t pi = 0; pi < pending.size(); ++pi) {
                size_t k = pending[pi];
                bool done = false;
                for (size_t c : connected) {
                    if (reachable(ir, q.inst[k].comp, q.inst[c].comp)) {
                        int a = q.inst[c].comp;
                        int b = q.inst[k].comp;
                        IrConnection *conn = nullptr;
                        for (auto &cn : ir.conns) {
                            if ((cn.c1 == a && cn.c2 == b) || (cn.c1 == b && cn.c2 == a)) {
                                conn = &cn;
                            }
                        }
                        if (conn == nullptr) {
                            IrConnection cn;
                            cn.c1 = a;
                            cn.c2 = b;
                            ir.conns.push_back(cn);
                            conn = &ir.conns.back();
                        }
                        IrMap mp;
                        if (conn->c1 == a) {
                            mp.v1 = q.inst[c].name;
                            mp.v2 = q.inst[k].name;
                        } else {
                            mp.v1 = q.inst[k].name;
                            mp.v2 = q.inst[c].name;
                        }
                        conn->maps.push_back(mp);
                        connected.push_back(k);
                        pending.erase(pending.begin() + static_cast<long>(pi));
                        done = true;
                        break;
                    }
                }
                if (done) {
                    break;
                }
            }
        }
    }
    for (size_t c = 0; c < ir.comps.size(); ++c) {
        for (auto &v : ir.comps[c].vars) {
            v.iface = requiredInterface(ir, static_cast<int>(c), v.name);
        }
    }
    // equations, one <math> per component
    std::vector<std::vector<ExprP>> eqs(static_cast<size_t>(m.ncomp));
    for (size_t qi = 0; qi < m.q.size(); ++qi) {
        const auto &q = m.q[qi];
        if (q.def == nullptr) {
            continue;
        }
        const auto &di = q.inst[static_cast<size_t>(q.defInst)];
        ExprP rhs = nameLeaves(m, q.def, di.comp);
        ExprP lhs;
        if (q.kind == QKind::STATE) {
            std::string tname = "t";
            const auto &t = m.q[static_cast<size_t>(m.voi)];
            tname = t.inst[0].name;
            for (const auto &in : t.inst) {
                if (in.comp == di.comp) {
                    tname = in.name;
                }
            }
            lhs = mkDiff(di.name, tname);
        } else {
            lhs = mkCi(di.name);
        }
        eqs[static_cast<size_t>(di.comp)].push_back(q.lhsOnRight && q.kind != QKind::STATE ? mkOp(Op::EQ, {rhs, lhs}) : mkOp(Op::EQ, {lhs, rhs}));
    }
    if (m.nlaInterleave) {
        for (size_t i = 0; i < 4; ++i) {
            for (const auto &sys : m.nla) {
                if (i < sys.equations.size()) {
                    const auto &eq = sys.equations[i];
                    eqs[static_cast<size_t>(sys.comp)].push_back(mkOp(Op::EQ, {nameLeaves(m, eq.lhs, sys.comp), nameLeaves(m, eq.rhs, sys.comp)}));
                }
            }
        }
    } else {
        for (const auto &sys : m.nla) {
            for (const auto &eq : sys.equations) {
                eqs[static_cast<size_t>(sys.comp)].push_back(mkOp(Op::EQ, {nameLeaves(m, eq.lhs, sys.comp), nameLeaves(m, eq.rhs, sys.comp)}));
            }
        }
    }
    for (size_t c = 0; c < eqs.size(); ++c) {
        if (!eqs[c].empty()) {
            ir.comps[c].math.push_back(eqs[c]);
        }
    }
    return ir;
}

// =====================================================================================================
// running generated code
// =====================================================================================================
static std::string hexd(double d)
{
    char b[64];
    snprintf(b, sizeof b, "%a", d);
    return b;
}

static std::string runnerC(const RunSpec &s)
{
    std::string r;
    r += "#include \"model.h\"\n#include <stdio.h>\n#include <stdlib.h>\n#include <math.h>\n#include <string.h>\n";
    r += "static int gSolves = 0; static double gWorst = 0.0;\n";
    r += R"(void nlaSolve(void (*objectiveFunction)(double *, double *, void *), double *u, size_t n, void *data)
{
    double f[16], f2[16], J[16][16], dx[16];
    if (n > 16) { return; }
    ++gSolves;
    for (int it = 0; it < 60; ++it) {
        objectiveFunction(u, f, data);
        double norm = 0.0;
        for (size_t i = 0; i < n; ++i) { norm += f[i] * f[i]; }
        if (sqrt(norm) < 1e-13) { break; }
        for (size_t j = 0; j < n; ++j) {
            double h = 1e-7 * (fabs(u[j]) > 1.0 ? fabs(u[j]) : 1.0);
            double keep = u[j];
            u[j] = keep + h;
            objectiveFunction(u, f2, data);
            u[j] = keep;
            for (size_t i = 0; i < n; ++i) { J[i][j] = (f2[i] - f[i]) / h; }
        }
        /* Gaussian elimination with partial pivoting: J dx = -f */
        double A[16][17];
        for (size_t i = 0; i < n; ++i) { for (size_t j = 0; j < n; ++j) { A[i][j] = J[i][j]; } A[i][n] = -f[i]; }
        int singular = 0;
        for (size_t c = 0; c < n; ++c) {
            size_t p = c;
            for (size_t i = c + 1; i < n; ++i) { if (fabs(A[i][c]) > fabs(A[p][c])) { p = i; } }
            if (fabs(A[p][c]) < 1e-300) { singular = 1; break; }
            if (p != c) { for (size_t j = 0; j <= n; ++j) { double t = A[c][j]; A[c][j] = A[p][j]; A[p][j] = t; } }
            for (size_t i = c + 1; i < n; ++i) { double m = A[i][c] / A[c][c]; for (size_t j = c; j <= n; ++j) { A[i][j] -= m * A[c][j]; } }
        }
        if (singular) { break; }
        for (size_t ii = n; ii > 0; --ii) { size_t i = ii - 1; double s = A[i][n]; for (size_t j = i + 1; j < n; ++j) { s -= A[i][j] * dx[j]; } dx[i] = s / A[i][i]; }
        for (size_t i = 0; i < n; ++i) { u[i] += dx[i]; }
    }
    objectiveFunction(u, f, data);
    for (size_t i = 0; i < n; ++i) { if (fabs(f[i]) > gWorst) { gWorst = fabs(f[i]); } }
}
)";
    std::string extArgs;
    if (s.hasExternals) {
        r += "static size_t gStateCount = " + std::to_string(s.stateCount) + ";\n";
        std::string sig = s.hasVoi ? "double voi, double *states, double *rates, double *variables, size_t index" : "double *variables, size_t index";
        r += "static double externalVariable(" + sig + ")\n{\n";
        if (!s.hasVoi) {
            r += "    double voi = 0.0; double *states = NULL; double *rates = NULL;\n";
        }
        r += "    (void) voi; (void) states; (void) rates; (void) gStateCount;\n    printf(\"EXT %zu\", index);\n";
        r += "    switch (index) {\n";
        for (const auto &kv : s.externalValues) {
            r += "    case " + std::to_string(kv.first) + ":\n";
            auto it = s.externalDeps.find(kv.first);
            if (it != s.externalDeps.end()) {
                for (const auto &d : it->second) {
                    if (d.first == 's') {
                        r += "        printf(\" s" + std::to_string(d.second) + "=%a\", states != NULL ? states[" + std::to_string(d.second) + "] : NAN);\n";
                    } else {
                        r += "        printf(\" v" + std::to_string(d.second) + "=%a\", variables[" + std::to_string(d.second) + "]);\n";
                    }
                }
            }
            r += "        printf(\"\\n\");\n        return " + hexd(kv.second) + ";\n";
        }
        r += "    default: printf(\" UNEXPECTED\\n\"); return NAN;\n    }\n}\n";
        extArgs = ", externalVariable";
    }
    r += "static void dump(const char *tag, double *a, size_t n)\n{\n    printf(\"%s\", tag);\n    for (size_t i = 0; i < n; ++i) { printf(\" %a\", a[i]); }\n    printf(\"\\n\");\n}\n";
    r += "int main(void)\n{\n";
    if (s.hasVoi) {
        r += "    double voi = 0.0;\n    double *states = createStatesArray();\n    double *rates = createStatesArray();\n";
    }
    r += "    double *variables = createVariablesArray();\n";
    std::string svr = s.hasVoi ? "states, rates, variables" : "variables";
    std::string vsvr = s.hasVoi ? "voi, states, rates, variables" : "variables";
    if (s.hasVoi && s.hasExternals) {
        r += "    initialiseVariables(voi, " + svr + extArgs + ");\n";
    } else {
        r += "    initialiseVariables(" + svr + extArgs + ");\n";
    }
    r += "    computeComputedConstants(variables);\n";
    size_t points = 1 + s.pointVoi.size();
    for (size_t p = 0; p < points; ++p) {
        if (p > 0 && s.hasVoi) {
            r += "    voi = " + hexd(s.pointVoi[p - 1]) + ";\n";
            for (size_t i = 0; i < s.pointStates[p - 1].size(); ++i) {
                r += "    states[" + std::to_string(i) + "] = " + hexd(s.pointStates[p - 1][i]) + ";\n";
            }
        }
        r += "    printf(\"POINT " + std::to_string(p) + "\\n\");\n";
        if (s.hasVoi) {
            r += "    computeRates(" + vsvr + extArgs + ");\n";
        }
        r += "    computeVariables(" + vsvr + extArgs + ");\n";
        if (s.hasVoi) {
            r += "    dump(\"STATES\", states, STATE_COUNT);\n    dump(\"RATES\", rates, STATE_COUNT);\n";
        }
        r += "    dump(\"VARIABLES\", variables, VARIABLE_COUNT);\n";
    }
    r += "    printf(\"NLA %d %a\\n\", gSolves, gWorst);\n";
    if (s.hasVoi) {
        r += "    deleteArray(states);\n    deleteArray(rates);\n";
    }
    r += "    deleteArray(variables);\n    return 0;\n}\n";
    return r;
}

static std::string shellOut(const std::string &cmd, int &rc)
{
    std::string out;
    FILE *p = popen((cmd + " 2>&1").c_str(), "r");
    if (p == nullptr) {
        rc = -1;
        return out;
    }
    char buf[4096];
    size_t n;
    while ((n = fread(buf, 1, sizeof buf, p)) > 0) {
        out.append(buf, n);
        if (out.size() > (1U << 22)) {
            break;
        }
    }
    rc = pclose(p);
    return out;
}

static void parseRun(const std::string &out, CodeRun &r)
{
    std::stringstream ss(out);
    std::string line;
    auto nums = [](const std::string &l) {
        std::vector<double> v;
        std::stringstream s(l);
        std::string tok;
        s >> tok;
        while (s >> tok) {
            v.push_back(strtod(tok.c_str(), nullptr));
        }
        return v;
    };
    while (std::getline(ss, line)) {
        if (line.rfind("STATES", 0) == 0) {
            r.states.push_back(nums(line));
        } else if (line.rfind("RATES", 0) == 0) {
            r.rates.push_back(nums(line));
        } else if (line.rfind("VARIABLES", 0) == 0) {
            r.variables.push_back(nums(line));
        } else if (line.rfind("EXT", 0) == 0) {
            r.externalCalls.push_back(line);
        } else if (line.rfind("POINT", 0) == 0) {
            r.externalCalls.push_back(line);
        } else if (line.rfind("NLA", 0) == 0) {
            auto v = nums(line);
            if (v.size() == 2) {
                r.nlaSolves = static_cast<int>(v[0]);
                r.worstResidual = v[1];
            }
        }
    }
}

CodeRun runGeneratedC(const std::string &interfaceCode, const std::string &implementationCode, const RunSpec &spec, const std::string &workDir)
{
    CodeRun r;
    mkdir(workDir.c_str(), 0777);
    writeFile(workDir + "/model.h", interfaceCode);
    writeFile(workDir + "/model.c", implementationCode);
    writeFile(workDir + "/runner.c", runnerC(spec));
    int rc = 0;
    // the model is compiled on its own with the documented warning level; the runner separately (its warnings are ours)
    std::string diag = shellOut("cd '" + workDir + "' && gcc -std=c99 -O0 -g -Wall -Wextra -fsanitize=address,undefined -fno-sanitize-recover=undefined -c model.c -o model.o", rc);
    r.diagnostics = diag;
    if (rc != 0) {
        r.error = "model.c does not compile:\n" + diag;
        return r;
    }
    std::string d2 = shellOut("cd '" + workDir + "' && gcc -std=c99 -O0 -g -fsanitize=address,undefined -fno-sanitize-recover=undefined -Wl,--no-undefined runner.c model.o -lm -o run", rc);
    if (rc != 0) {
        r.error = "runner does not build/link:\n" + d2;
        return r;
    }
    std::string out = shellOut("cd '" + workDir + "' && ASAN_OPTIONS=detect_leaks=0 timeout 60 ./run", rc);
    if (rc != 0) {
        r.error = "generated program failed (rc=" + std::to_string(rc) + "):\n" + truncateForLog(out, 3000);
        return r;
    }
    parseRun(out, r);
    r.ok = true;
    return r;
}

static std::string pyFloat(double d)
{
    return "float.fromhex('" + hexd(d) + "')";
}

CodeRun runGeneratedPython(const std::string &implementationCode, const RunSpec &s, const std::string &workDir)
{
    CodeRun r;
    mkdir(workDir.c_str(), 0777);
    writeFile(workDir + "/model.py", implementationCode);
    writeFile(workDir + "/nlasolver.py", R"(import math
solves = 0
worst = 0.0
def nla_solve(objective_function, u, n, data):
    global solves, worst
    solves += 1
    u = list(u)
    for it in range(60):
        f = [0.0] * n
        objective_function(u, f, data)
        if math.sqrt(sum(x * x for x in f)) < 1e-13:
            break
        J = [[0.0] * n for _ in range(n)]
        for j in range(n):
            h = 1e-7 * max(1.0, abs(u[j]))
            keep = u[j]
            u[j] = keep + h
            f2 = [0.0] * n
            objective_function(u, f2, data)
            u[j] = keep
            for i in range(n):
                J[i][j] = (f2[i] - f[i]) / h
        A = [J[i][:] + [-f[i]] for i in range(n)]
        singular = False
        for c in range(n):
            p = max(range(c, n), key=lambda i: abs(A[i][c]))
            if abs(A[p][c]) < 1e-300:
                singular = True
                break
            A[c], A[p] = A[p], A[c]
            for i in range(c + 1, n):
                m = A[i][c] / A[c][c]
                for j in range(c, n + 1):
                    A[i][j] -= m * A[c][j]
        if singular:
            break
        dx = [0.0] * n
        for i in range(n - 1, -1, -1):
            s = A[i][n] - sum(A[i][j] * dx[j] for j in range(i + 1, n))
            dx[i] = s / A[i][i]
        for i in range(n):
            u[i] += dx[i]
    f = [0.0] * n
    objective_function(u, f, data)
    worst = max([worst] + [abs(x) for x in f])
    return u
)");
    std::string run = "import sys\nsys.path.insert(0, '.')\nimport model\nimport nlasolver\n";
    run += "def dump(tag, a):\n    print(tag + ''.join(' ' + float(x).hex() for x in a))\n";
    std::string ext;
    if (s.hasExternals) {
        std::string sig = s.hasVoi ? "voi, states, rates, variables, index" : "variables, index";
        run += "def external_variable(" + sig + "):\n";
        if (!s.hasVoi) {
            run += "    states = None\n";
        }
        run += "    line = 'EXT %d' % index\n";
        bool first = true;
        for (const auto &kv : s.externalValues) {
            run += std::string("    ") + (first ? "if" : "elif") + " index == " + std::to_string(kv.first) + ":\n";
            first = false;
            auto it = s.externalDeps.find(kv.first);
            if (it != s.externalDeps.end()) {
                for (const auto &d : it->second) {
                    if (d.first == 's') {
                        run += "        line += ' s" + std::to_string(d.second) + "=' + float(states[" + std::to_string(d.second) + "]).hex()\n";
                    } else {
                        run += "        line += ' v" + std::to_string(d.second) + "=' + float(variables[" + std::to_string(d.second) + "]).hex()\n";
                    }
                }
            }
            run += "        print(line)\n        return " + pyFloat(kv.second) + "\n";
        }
        run += "    print(line + ' UNEXPECTED')\n    return float('nan')\n";
        ext = ", external_variable";
    }
    if (s.hasVoi) {
        run += "voi = 0.0\nstates = model.create_states_array()\nrates = model.create_states_array()\n";
    }
    run += "variables = model.create_variables_array()\n";
    std::string svr = s.hasVoi ? "states, rates, variables" : "variables";
    std::string vsvr = s.hasVoi ? "voi, states, rates, variables" : "variables";
    if (s.hasVoi && s.hasExternals) {
        run += "model.initialise_variables(voi, " + svr + ext + ")\n";
    } else {
        run += "model.initialise_variables(" + svr + ext + ")\n";
    }
    run += "model.compute_computed_constants(variables)\n";
    size_t points = 1 + s.pointVoi.size();
    for (size_t p = 0; p < points; ++p) {
        if (p > 0 && s.hasVoi) {
            run += "voi = " + pyFloat(s.pointVoi[p - 1]) + "\n";
            for (size_t i = 0; i < s.pointStates[p - 1].size(); ++i) {
                run += "states[" + std::to_string(i) + "] = " + pyFloat(s.pointStates[p - 1][i]) + "\n";
            }
        }
        run += "print('POINT " + std::to_string(p) + "')\n";
        if (s.hasVoi) {
            run += "model.compute_rates(" + vsvr + ext + ")\n";
        }
        run += "model.compute_variables(" + vsvr + ext + ")\n";
        if (s.hasVoi) {
            run += "dump('STATES', states)\ndump('RATES', rates)\n";
        }
        run += "dump('VARIABLES', variables)\n";
    }
    run += "print('NLA %d %s' % (nlasolver.solves, float(nlasolver.worst).hex()))\n";
    writeFile(workDir + "/runner.py", run);
    int rc = 0;
    std::string out = shellOut("cd '" + workDir + "' && timeout 60 python3 -B runner.py", rc);
    if (rc != 0) {
        r.error = "generated Python failed (rc=" + std::to_string(rc) + "):\n" + truncateForLog(out, 3000);
        return r;
    }
    parseRun(out, r);
    r.ok = true;
    return r;
}

} // namespace vh
