#include "semjudge.h"

#include <algorithm>
#include <cmath>

namespace vh {

// Run the model through analyse -> generate -> run for both profiles and compare with the reference.
// `labels[qi]` = structural label of quantity qi used in violation keys ("" = use the kind).
void judgeModel(Ctx &ctx, const std::string &prop, const SemModel &m, const ModelPtr &model, const std::string &text, const std::vector<std::string> &labels, const std::vector<SemPoint> &points, const std::string &caseTag, Judged &jd, const JudgeExternals *ext)
{
    stage("analyse " + caseTag);
    auto analyser = ext != nullptr && ext->analyser != nullptr ? ext->analyser : Analyser::create();
    analyser->analyseModel(model);
    monitorLogger(*analyser, "Analyser::analyseModel", text);
    auto am = analyser->model();
    bool expectOde = m.voi >= 0 && !stateQuantities(m).empty();
    bool expectNla = !m.nla.empty();
    std::string wantType = expectOde ? (expectNla ? "dae" : "ode") : (expectNla ? "nla" : "algebraic");
    std::string gotType = am != nullptr ? AnalyserModel::typeAsString(am->type()) : "null";
    seen("model_type", gotType);
    if (am == nullptr || !am->isValid()) {
        // classification is C05's property; without a valid analysis there is nothing to run
        std::string rule = analyser->errorCount() != 0 ? ruleName(analyser->error(0)->referenceRule()) : "none";
        // (a model that went through flattenModel and can no longer be analysed is the flattener's doing)
        viol(prop == "C06" ? "C06" : "C05", "valid-model-not-analysable:" + gotType + ":" + rule + ":" + caseTag.substr(0, caseTag.find(' ')), "expected " + wantType + "\n" + issueSummary(*analyser), text);
        stat("models_not_analysable");
        return;
    }
    if (gotType != wantType) {
        viol("C05", "model-type:" + gotType + "-expected-" + wantType, "", text);
    }
    // map analyser variables to quantities by the primary variable's (component, name)
    std::map<std::string, int> instToQ;
    for (size_t qi = 0; qi < m.q.size(); ++qi) {
        for (const auto &in : m.q[qi].inst) {
            instToQ["comp" + std::to_string(in.comp) + "." + in.name] = static_cast<int>(qi);
        }
    }
    auto quantityOf = [&](const AnalyserVariablePtr &av, double &scaleOfPrimary) -> int {
        auto v = av->variable();
        auto c = std::dynamic_pointer_cast<Component>(v->parent());
        std::string key = (c != nullptr ? c->name() : "?") + "." + v->name();
        auto it = instToQ.find(key);
        if (it == instToQ.end()) {
            return -1;
        }
        const auto &q = m.q[static_cast<size_t>(it->second)];
        scaleOfPrimary = q.inst[0].scale;
        for (const auto &in : q.inst) {
            if ("comp" + std::to_string(in.comp) == (c != nullptr ? c->name() : "") && in.name == v->name()) {
                scaleOfPrimary = in.scale;
            }
        }
        return it->second;
    };
    stage("generate " + caseTag);
    auto gen = Generator::create();
    gen->setModel(am);
    std::string cIface = gen->interfaceCode();
    std::string cImpl = gen->implementationCode();
    gen->setProfile(GeneratorProfile::create(GeneratorProfile::Profile::PYTHON));
    std::string pyImpl = gen->implementationCode();

    RunSpec spec;
    spec.hasVoi = expectOde;
    spec.stateCount = am->stateCount();
    spec.variableCount = am->variableCount();
    // the order of states in the generated arrays: map state index -> quantity
    std::vector<int> stateQ(am->stateCount(), -1);
    std::vector<double> stateScale(am->stateCount(), 1.0);
    for (size_t i = 0; i < am->stateCount(); ++i) {
        double sc = 1.0;
        stateQ[i] = quantityOf(am->state(i), sc);
        stateScale[i] = sc;
    }
    double voiScale = 1.0;
    if (expectOde && am->voi() != nullptr) {
        (void)quantityOf(am->voi(), voiScale);
    }
    auto sq = stateQuantities(m);
    for (size_t p = 1; p < points.size(); ++p) {
        // points are given in HOME units; the arrays hold values in the PRIMARY variable's units
        double homeVoiScale = m.voi >= 0 ? m.q[static_cast<size_t>(m.voi)].inst[0].scale : 1.0;
        spec.pointVoi.push_back(points[p].voi * homeVoiScale / voiScale);
        std::vector<double> sv(am->stateCount(), 0.0);
        for (size_t i = 0; i < am->stateCount(); ++i) {
            for (size_t k = 0; k < sq.size(); ++k) {
                if (sq[k] == stateQ[i]) {
                    sv[i] = points[p].stateValues[k] * m.q[static_cast<size_t>(sq[k])].inst[0].scale / stateScale[i];
                }
            }
        }
        spec.pointStates.push_back(sv);
    }
    // external variables: the callback returns the planted value (converted to the primary variable's units) and logs
    // the current values of the declared dependencies
    std::map<size_t, int> extIndexToQ;
    if (ext != nullptr) {
        std::map<int, std::pair<char, size_t>> whereIs; // quantity -> ('s'|'v', index)
        for (size_t i = 0; i < am->stateCount(); ++i) {
            if (stateQ[i] >= 0) {
                whereIs[stateQ[i]] = {'s', i};
            }
        }
        std::map<int, double> scaleOfQ;
        for (size_t i = 0; i < am->variableCount(); ++i) {
            double sc = 1.0;
            int qi = quantityOf(am->variable(i), sc);
            if (qi >= 0) {
                whereIs[qi] = {'v', i};
                scaleOfQ[qi] = sc;
            }
        }
        for (size_t qi = 0; qi < m.q.size(); ++qi) {
            if (m.q[qi].kind != QKind::EXTERNAL || whereIs.count(static_cast<int>(qi)) == 0U) {
                continue;
            }
            size_t idx = whereIs[static_cast<int>(qi)].second;
            spec.hasExternals = true;
            spec.externalValues[idx] = m.q[qi].init * m.q[qi].inst[0].scale / scaleOfQ[static_cast<int>(qi)];
            extIndexToQ[idx] = static_cast<int>(qi);
            auto d = ext->deps.find(static_cast<int>(qi));
            if (d != ext->deps.end()) {
                for (int dq : d->second) {
                    if (whereIs.count(dq) != 0U) {
                        spec.externalDeps[idx].push_back(whereIs[dq]);
                    }
                }
            }
        }
        spec.hasExternals = spec.hasExternals || am->hasExternalVariables();
    }
    std::string wd = scratchDir() + "/run_" + std::to_string(ctx.index);
    stage("run-c " + caseTag);
    CodeRun rc = runGeneratedC(cIface, cImpl, spec, wd);
    stage("run-py " + caseTag);
    CodeRun rp = runGeneratedPython(pyImpl, spec, wd);
    std::string replay = text + "\n/* ---- generated C ---- */\n" + cImpl;
    if (!rc.ok) {
        viol(prop, "c-run-failed:" + caseTag.substr(0, caseTag.find(' ')), rc.error, replay);
    }
    stat("models_run");
    if (rc.ok && rc.nlaSolves > 0) {
        stat("nla_solves", rc.nlaSolves);
        if (rc.worstResidual > 1e-9) {
            viol(prop, "nla:residual-not-zero:C", "worst |f| after solve = " + std::to_string(rc.worstResidual), replay);
        }
    }
    std::set<std::string> reported;
    if (ext != nullptr) {
        for (int profile = 0; profile < 2; ++profile) {
            const CodeRun &run = profile == 0 ? rc : rp;
            const char *pn = profile == 0 ? "C" : "Python";
            if (!run.ok) {
                continue;
            }
            int point = -1; // -1 = initialiseVariables phase
            std::map<size_t, int> callsAtPoint;
            SemEval ev = evaluateSem(m, points[0]);
            auto closePoint = [&]() {
                if (point < 0) {
                    return;
                }
                for (const auto &kv : extIndexToQ) {
                    if (callsAtPoint[kv.first] == 0) {
                        viol(prop, std::string("ext-callback-not-called:") + pn, "variables[" + std::to_string(kv.first) + "] is external but the callback was not invoked for it at point " + std::to_string(point), replay);
                    }
                }
            };
            for (const auto &line : run.externalCalls) {
                if (line.rfind("POINT", 0) == 0) {
                    closePoint();
                    point = atoi(line.substr(6).c_str());
                    callsAtPoint.clear();
                    ev = evaluateSem(m, points[static_cast<size_t>(std::min<int>(point, static_cast<int>(points.size()) - 1))]);
                    continue;
                }
                std::stringstream ls(line);
                std::string tok;
                ls >> tok; // EXT
                size_t idx = 0;
                ls >> idx;
                stat("external_callback_invocations");
                ++callsAtPoint[idx];
                if (line.find("UNEXPECTED") != std::string::npos || extIndexToQ.count(idx) == 0U) {
                    viol(prop, std::string("ext-callback-for-non-external-index:") + pn, line, replay);
                    continue;
                }
                // declared dependencies hold their current value
                size_t k = 0;
                auto depsOf = spec.externalDeps.find(idx);
                while (ls >> tok) {
                    size_t eq = tok.find('=');
                    if (eq == std::string::npos || depsOf == spec.externalDeps.end() || k >= depsOf->second.size()) {
                        break;
                    }
                    double got = strtod(tok.substr(eq + 1).c_str(), nullptr);
                    auto dep = depsOf->second[k++];
                    // which quantity is that?
                    int dq = -1;
                    double sc = 1.0;
                    if (dep.first == 's') {
                        dq = stateQ[dep.second];
                        sc = stateScale[dep.second];
                    } else {
                        dq = quantityOf(am->variable(dep.second), sc);
                    }
                    if (dq < 0 || !ev.value[static_cast<size_t>(dq)].ok) {
                        continue;
                    }
                    Val ref = ev.value[static_cast<size_t>(dq)];
                    double f = m.q[static_cast<size_t>(dq)].inst[0].scale / sc;
                    ref.v *= f;
                    ref.e = ref.e * std::fabs(f) + 4.0 * ulpOf(ref.v);
                    stat("external_dependency_values_checked");
                    if (!consistent(ref, got)) {
                        std::string phase = point < 0 ? "initialise" : "compute";
                        std::string key = std::string("ext-callback-before-dependency:") + pn + ":" + phase + ":" + qkindName(m.q[static_cast<size_t>(dq)].kind);
                        if (reported.insert(key).second) {
                            char buf[300];
                            snprintf(buf, sizeof buf, "callback for variables[%zu] invoked (%s phase, point %d) while declared dependency %s holds %.17g instead of %.17g", idx, phase.c_str(), point, m.q[static_cast<size_t>(dq)].inst[0].name.c_str(), got, ref.v);
                            viol(prop, key, buf, replay);
                        }
                    }
                }
            }
            closePoint();
        }
    }
    bool cMismatch = false; // the C profile's values already disagree with the reference
    for (int profile = 0; profile < 2; ++profile) {
        const CodeRun &run = profile == 0 ? rc : rp;
        const char *pn = profile == 0 ? "C" : "Python";
        if (profile == 1 && !rp.ok) {
            // Python raises (OverflowError, ZeroDivisionError, math domain error) where C yields inf/nan.  Where the
            // reference decides every value no such exception can occur unless a value is already wrong, and then the C
            // profile (same equations, same order) has reported that wrong value: the exception is its consequence.
            bool arithmetic = rp.error.find("OverflowError") != std::string::npos || rp.error.find("ZeroDivisionError") != std::string::npos || rp.error.find("math domain error") != std::string::npos;
            if (arithmetic && rc.ok && cMismatch) {
                stat("python_exception_after_c_mismatch_not_reported");
            } else {
                viol(prop, "python-run-failed:" + caseTag.substr(0, caseTag.find(' ')), rp.error, text + "\n# ---- generated Python ----\n" + pyImpl);
            }
        }
        if (!run.ok) {
            continue;
        }
        if (run.variables.size() != points.size()) {
            viol(prop, std::string("runner-output-incomplete:") + pn, "", replay);
            continue;
        }
        for (size_t p = 0; p < points.size(); ++p) {
            SemEval ev = evaluateSem(m, points[p]);
            struct Miss
            {
                std::string what;
                int qi;
                double got;
                Val ref;
            };
            std::vector<Miss> misses;
            std::set<int> wrongValue; // quantities whose VALUE is wrong at this point
            auto check = [&](const char *what, int qi, const Val &refHome, double got, double primaryScale, double extraScale) {
                // refHome is in home units (extraScale converts rates); value in primary units = home * sHome/sPrimary
                if (qi < 0) {
                    return;
                }
                const auto &q = m.q[static_cast<size_t>(qi)];
                if (!refHome.ok) {
                    ++jd.undecidable;
                    return;
                }
                Val ref = refHome;
                double f = q.inst[0].scale / primaryScale * extraScale;
                ref.v *= f;
                ref.e = ref.e * std::fabs(f) + 2.0 * ulpOf(ref.v);
                ++jd.compared;
                if (!consistent(ref, got)) {
                    cMismatch = cMismatch || profile == 0;
                    misses.push_back({what, qi, got, ref});
                    if (std::string(what) != "rate") {
                        wrongValue.insert(qi);
                    }
                }
            };
            for (size_t i = 0; i < am->variableCount() && i < run.variables[p].size(); ++i) {
                double sc = 1.0;
                int qi = quantityOf(am->variable(i), sc);
                if (qi >= 0) {
                    check("variable", qi, ev.value[static_cast<size_t>(qi)], run.variables[p][i], sc, 1.0);
                }
            }
            if (expectOde && p < run.rates.size()) {
                for (size_t i = 0; i < am->stateCount() && i < run.rates[p].size(); ++i) {
                    int qi = stateQ[i];
                    if (qi < 0) {
                        continue;
                    }
                    // rate in primary units per primary voi unit
                    double homeVoiScale = m.q[static_cast<size_t>(m.voi)].inst[0].scale;
                    check("rate", qi, ev.rate[static_cast<size_t>(qi)], run.rates[p][i], stateScale[i], voiScale / homeVoiScale);
                    if (p == 0) {
                        check("initial-state", qi, ev.value[static_cast<size_t>(qi)], run.states[p][i], stateScale[i], 1.0);
                    }
                }
            }
            // report only root causes: a wrong quantity all of whose inputs are right
            std::function<void(const ExprP &, std::set<int> &)> deps = [&](const ExprP &e, std::set<int> &out) {
                if (e == nullptr) {
                    return;
                }
                if (e->op == Op::CI && e->quantity >= 0) {
                    out.insert(e->quantity);
                }
                for (const auto &k : e->kids) {
                    deps(k, out);
                }
            };
            for (const auto &ms : misses) {
                const auto &q = m.q[static_cast<size_t>(ms.qi)];
                std::set<int> d;
                if (ms.what != "initial-state") {
                    deps(q.def, d);
                }
                if (ms.what == "initial-state" && q.initByQuantity >= 0) {
                    d.insert(q.initByQuantity);
                }
                bool cascade = false;
                for (int x : d) {
                    // a rate may read its own state: a wrong state value then explains the wrong rate
                    cascade = cascade || ((x != ms.qi || ms.what == "rate") && wrongValue.count(x) != 0U);
                }
                if (cascade) {
                    stat("cascaded_mismatches_not_reported");
                    continue;
                }
                std::string label = labels.size() > static_cast<size_t>(ms.qi) && !labels[static_cast<size_t>(ms.qi)].empty() ? labels[static_cast<size_t>(ms.qi)] : std::string(qkindName(q.kind));
                std::string key = std::string("value:") + pn + ":" + ms.what + ":" + label;
                if (reported.insert(key).second) {
                    char buf[400];
                    snprintf(buf, sizeof buf, "%s of %s at point %zu: generated %s gives %.17g, reference %.17g (+-%.3g); definition: %s", ms.what.c_str(), q.inst[0].name.c_str(), p, pn, ms.got, ms.ref.v, ms.ref.e,
                             q.def != nullptr ? exprToString(q.def).c_str() : "(none)");
                    viol(prop, key, buf, replay);
                }
            }
        }
    }
    // the two profiles agree with each other (bitwise on decidable entries is too strict: compare within 1e-9)
    if (rc.ok && rp.ok && rc.variables.size() == rp.variables.size()) {
        for (size_t p = 0; p < rc.variables.size(); ++p) {
            for (size_t i = 0; i < rc.variables[p].size() && i < rp.variables[p].size(); ++i) {
                double a = rc.variables[p][i];
                double b = rp.variables[p][i];
                if (std::isfinite(a) && std::isfinite(b) && std::fabs(a - b) > 1e-9 * std::max(1.0, std::max(std::fabs(a), std::fabs(b)))) {
                    double sc = 1.0;
                    int qi = quantityOf(am->variable(i), sc);
                    SemEval ev = evaluateSem(m, points[p]);
                    if (qi >= 0 && ev.value[static_cast<size_t>(qi)].ok) {
                        std::string label = labels.size() > static_cast<size_t>(qi) && !labels[static_cast<size_t>(qi)].empty() ? labels[static_cast<size_t>(qi)] : std::string(qkindName(m.q[static_cast<size_t>(qi)].kind));
                        std::string key = "profiles-disagree:" + label;
                        if (reported.insert(key).second) {
                            viol(prop, key, "variables[" + std::to_string(i) + "] C=" + std::to_string(a) + " Python=" + std::to_string(b), replay);
                        }
                    }
                }
            }
        }
    }
}


} // namespace vh
