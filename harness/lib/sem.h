// Semantic layer: reference evaluator for expression trees (value + propagated error bound, "undecidable" near
// discontinuities and domain borders), models with known meaning (quantities with roles, defining equations, copies in
// other components with scaled units), and runners for generated C / Python code.
#pragma once
#include "gen.h"

namespace vh {

// ---------- reference evaluation ----------
struct Val
{
    double v = 0.0;
    double e = 0.0;    // absolute error bound of the reference w.r.t. any faithful double evaluation
    bool ok = true;    // false => undecidable (domain border, discontinuity within error, non-finite)
    std::string why;
    static Val bad(const std::string &w)
    {
        Val x;
        x.ok = false;
        x.why = w;
        return x;
    }
    static Val exact(double d)
    {
        Val x;
        x.v = d;
        return x;
    }
};
using LeafFn = std::function<Val(const Expr &)>;   // value of a CI leaf
Val evalExpr(const ExprP &e, const LeafFn &leaf);
// value of a CN leaf exactly as strtod sees it
double cnValue(const Expr &e);
// is `got` consistent with the reference?  tolerance = 4*e + 1e-10*|v| + 1e-300
bool consistent(const Val &ref, double got);
double ulpOf(double v);

// ---------- operator catalogue for shape enumeration ----------
struct OpInfo
{
    Op op;
    int minArity;
    int maxArity;   // -1 = n-ary
    bool qualifier; // root/log variant with degree/logbase
    bool boolean;   // result is a truth value
};
const std::vector<OpInfo> &valueOps(); // every operator usable inside a value expression (no DIFF, CI, CN)

// ---------- semantic models ----------
enum class QKind
{
    CONSTANT,
    COMPUTED_CONSTANT,
    VOI,
    STATE,
    ALGEBRAIC,
    NLA_UNKNOWN,
    EXTERNAL
};
const char *qkindName(QKind k);

struct SemInstance
{
    int comp = 0;
    std::string name;
    std::string units;
    double scale = 1.0; // value in these units = physical value / scale
};
struct Quantity
{
    QKind kind = QKind::CONSTANT;
    int family = 0;                      // 0 dimensionless, 1 volt-like, 2 second-like, 3 volt-per-second-like (compound user units)
    std::vector<SemInstance> inst;       // inst[0] is the home variable
    int defInst = 0;                     // instance (component) in which the defining equation is written
    ExprP def;                           // CI leaves carry the quantity index in Expr::quantity; for STATE: the rate
    double init = 0.0;                   // CONSTANT value / STATE initial value / NLA initial guess, in home units
    int initByQuantity = -1;             // STATE initialised by reference to this CONSTANT quantity (same component copy)
    int nla = -1;                        // index of the implicit system
    double planted = 0.0;                // NLA_UNKNOWN: planted solution in home units
    bool lhsOnRight = false;             // write the defining equation as  expr = y  instead of  y = expr
};
struct NlaEquation
{
    ExprP lhs;
    ExprP rhs;
};
struct NlaSystem
{
    std::vector<int> unknowns;
    std::vector<NlaEquation> equations;  // leaves refer to quantities; written in component `comp`
    int comp = 0;
};
struct SemModel
{
    std::vector<Quantity> q;
    std::vector<NlaSystem> nla;
    int ncomp = 1;
    std::vector<int> compParent;         // encapsulation (-1 = top level)
    std::vector<std::string> compName;   // optional component names (default comp<i>)
    int voi = -1;
    bool nlaGuess = true;
    bool nlaInterleave = false;          // write the equations of the implicit systems round-robin (system 0 eq 0, system 1 eq 0, ...)
    std::vector<int> order;              // evaluation order of non-NLA quantities (topological)
};
struct SemOptions
{
    int maxComponents = 4;
    int constants = 3;
    int computedConstants = 2;
    int states = 2;
    int algebraics = 3;
    bool ode = true;
    bool nla = false;
    bool scaledUnits = true;
    bool compoundUnits = false;          // some quantities use units built from two user-defined units (family 3)
    bool encapsulation = true;
    int exprDepth = 2;
    bool initByConstant = true;
    int nlaSystems = 1;                  // number of independent implicit systems (when nla)
    bool nlaInterleave = false;          // all systems in ONE component, >= 2 equations each, equations written round-robin
    bool nlaGuess = true;                // unknowns of implicit systems carry an initial_value (the solver's initial guess)
    bool nlaDense = false;               // every equation of an implicit system reads every unknown
    bool odeSelfRate = false;            // force one ODE of the form dx/dt = x (a bare reference to its own state)
};
SemModel generateSemModel(Rng &rng, const SemOptions &opt);
// CellML description of the semantic model (valid by construction)
IrModel semToIr(const SemModel &m);
// Reference values: physical value of every quantity at a point.  States/VOI values are given in HOME units.
struct SemPoint
{
    double voi = 0.0;
    std::vector<double> stateValues;     // per STATE quantity (in order of appearance), home units
};
struct SemEval
{
    std::vector<Val> value;              // per quantity, in HOME units (states: the given value)
    std::vector<Val> rate;               // per STATE quantity index (same indexing as q), d(home)/d(voi home)
};
SemEval evaluateSem(const SemModel &m, const SemPoint &pt);
SemPoint initialPoint(const SemModel &m);
std::vector<int> stateQuantities(const SemModel &m);

// ---------- running generated code ----------
struct CodeRun
{
    bool ok = false;
    std::string error;                   // compile/run failure text
    std::string diagnostics;             // compiler diagnostics (C)
    // per evaluation point: arrays after the documented call sequence
    std::vector<std::vector<double>> states;
    std::vector<std::vector<double>> rates;
    std::vector<std::vector<double>> variables;
    std::vector<std::string> externalCalls; // log lines of the external-variable callback
    int nlaSolves = 0;
    double worstResidual = 0.0;
};
struct RunSpec
{
    bool hasVoi = false;                 // ODE / DAE signatures
    bool hasExternals = false;
    size_t stateCount = 0;
    size_t variableCount = 0;
    // point 0 is always "after initialiseVariables"; further points overwrite voi/states with these values
    std::vector<double> pointVoi;
    std::vector<std::vector<double>> pointStates;
    // external variable callback: value returned for variables[index]
    std::map<size_t, double> externalValues;
    // indices whose current value is logged at each callback invocation (declared dependencies): index -> list
    std::map<size_t, std::vector<std::pair<char, size_t>>> externalDeps; // ('s'|'v', index)
};
CodeRun runGeneratedC(const std::string &interfaceCode, const std::string &implementationCode, const RunSpec &spec, const std::string &workDir);
CodeRun runGeneratedPython(const std::string &implementationCode, const RunSpec &spec, const std::string &workDir);

} // namespace vh
