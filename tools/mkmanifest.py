#!/usr/bin/env python3
"""Regenerates /verif/MANIFEST.json from /verif/checks/*.json (one file per claimed property)."""
import json
import os
import subprocess
import sys

VERIF = os.path.dirname(os.path.dirname(os.path.abspath(__file__)))
sys.path.insert(0, os.path.join(VERIF, "tools"))
import registry  # noqa: E402

props = [json.loads(l) for l in open(os.path.join(VERIF, "properties.jsonl")) if l.strip()]

NOT_APPLICABLE_REASONS = {}
na_path = os.path.join(VERIF, "checks", "not_applicable.txt")
if os.path.exists(na_path):
    for line in open(na_path):
        line = line.strip()
        if line and not line.startswith("#"):
            pid, _, reason = line.partition(" ")
            NOT_APPLICABLE_REASONS[pid] = reason


# only checks listed in checks/enabled.txt are claimed (others may still be under development)
ENABLED = set(open(os.path.join(VERIF, "checks", "enabled.txt")).read().split())


def hook_commits():
    try:
        out = subprocess.run(["git", "-C", "/repo", "log", "--format=%H %s"], stdout=subprocess.PIPE, check=True).stdout.decode()
    except Exception:
        return []
    return [l.split()[0] for l in out.splitlines() if " hook:" in l or l.split(" ", 1)[1].startswith("hook:")]


checks = []
na = []
for p in props:
    pid = p["id"]
    c = registry.CHECKS.get(pid) if pid in ENABLED else None
    if c is None:
        na.append({"property_id": pid, "reason": NOT_APPLICABLE_REASONS.get(pid, "no runtime-monitoring check has been built for this property yet; not claimed")})
        continue
    entry = {
        "property_id": pid,
        "quick_cmd": "./check %s --tier quick" % pid,
        "thorough_cmd": "./check %s --tier thorough" % pid,
        "evidence_file": "/verif/evidence/%s.json" % pid,
        "replay_cmd_template": "./check %s --replay {path}" % pid,
        "engine": "vh-supervisor",
        "level_claimed": {"category": c["level"], "text": c.get("level_text", ""), "design_ref": c.get("design_ref", "DESIGN.md section 3, " + pid)},
        "level_note": c.get("level_note", "Trusted: gcc sanitizer runtimes, the harness's reference models and generators (harness/lib), system libxml2 2.9.14. "
                                          "Decides only the executions produced; see evidence for counts."),
        "technique": c.get("technique", "runtime monitoring: sanitizer-instrumented execution with reference-model oracles"),
    }
    checks.append(entry)

manifest = {
    "version": 1,
    "setup_cmd": "python3 tools/vbuild.py all",
    "hooks": {
        "guard": "HSORBY_LIBCELLML_VERIF",
        "enable": "tools/vbuild.py configures /repo out of tree (cmake -S /repo -B /verif/.cache/build/<flavour>-<treehash>) with "
                  "-DCMAKE_CXX_FLAGS='... -DHSORBY_LIBCELLML_VERIF'; the tree hash covers CMakeLists.txt, cmake/ and src/ of the working tree",
        "baseline_off_cmd": "tools/baseline_off.sh /repo/_build",
        "source_commits": hook_commits(),
        "add_only": True,
    },
    "engines": [
        {"name": "vh-supervisor", "path": "/verif/check",
         "serves_properties": [c["property_id"] for c in checks],
         "kind_free_text": "python supervisor running C++ drivers (harness/drivers) linked against an ASan+UBSan build of /repo's working tree; "
                           "16 worker processes, crash/hang attribution per case, known-findings matching, evidence writer"},
    ],
    "checks": checks,
    "notes": "All checks rebuild the library from /repo's working tree (content hash) before running. Exit 2 = inconclusive/harness failure.",
    "not_applicable": na,
}
with open(os.path.join(VERIF, "MANIFEST.json"), "w") as fh:
    json.dump(manifest, fh, indent=1)
    fh.write("\n")
print("wrote MANIFEST.json: %d checks, %d not claimed" % (len(checks), len(na)))
try:
    import jsonschema
    jsonschema.validate(manifest, json.load(open("/root/.vp/MANIFEST.schema.json")))
    print("schema ok")
except ImportError:
    pass
