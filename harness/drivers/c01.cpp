// C01: no input can crash, hang or corrupt the pipeline.
// Oracle = the process itself (sanitizers, uncaught exceptions, signals, watchdog) + logger coherence monitor.
#include "pipeline.h"
#include "mutate.h"
#include "gen.h"
#include "vh.h"

#include <cstdlib>

using namespace vh;

static std::vector<std::string> gCorpus;

static const std::vector<std::string> &corpus()
{
    if (gCorpus.empty()) {
        const char *repo = getenv("VERIF_REPO");
        std::string root = std::string(repo != nullptr ? repo : "/repo") + "/tests/resources";
        for (const auto &f : listFiles(root, true)) {
            size_t n = f.size();
            bool ok = (n > 7 && f.substr(n - 7) == ".cellml") || (n > 4 && f.substr(n - 4) == ".xml");
            if (ok) {
                gCorpus.push_back(f);
            }
        }
    }
    return gCorpus;
}

static const int kGenerated = 60; // generated valid models used as seeds too

int64_t vh_case_count(const std::string &tier, uint64_t)
{
    int64_t base = static_cast<int64_t>(corpus().size()) + kGenerated;
    return base + (tier == "thorough" ? 24000 : 1100);
}

static std::string dirOf(const std::string &p)
{
    size_t s = p.rfind('/');
    return s == std::string::npos ? "." : p.substr(0, s);
}

static std::string seedText(Rng &rng, uint64_t seed, std::string &base, std::string &name, int64_t forced = -1)
{
    const auto &c = corpus();
    int64_t total = static_cast<int64_t>(c.size()) + kGenerated;
    int64_t k = forced >= 0 ? forced : static_cast<int64_t>(rng.below(static_cast<uint64_t>(total)));
    if (k < static_cast<int64_t>(c.size())) {
        base = dirOf(c[static_cast<size_t>(k)]);
        name = c[static_cast<size_t>(k)];
        return readFile(name);
    }
    int64_t g = k - static_cast<int64_t>(c.size());
    Rng gr(seed ^ 0xabcdefULL, static_cast<uint64_t>(g));
    GenOptions go;
    go.resets = gr.chance(0.5);
    go.imports = false;
    go.mathProbability = 0.8;
    auto ir = generateModel(gr, go);
    base = scratchDir();
    name = "generated#" + std::to_string(g);
    if (gr.chance(0.3)) {
        return writeCellml1x(ir, gr.chance(0.5) ? "1.0" : "1.1", gr);
    }
    return writeCellml2(ir, gr);
}

void vh_run_case(Ctx &ctx)
{
    const auto &c = corpus();
    int64_t nseeds = static_cast<int64_t>(c.size()) + kGenerated;
    std::string base;
    std::string name;
    std::string input;
    std::string desc;
    if (ctx.index < nseeds) {
        input = seedText(ctx.rng, ctx.seed, base, name, ctx.index);
        desc = "seed";
    } else {
        input = seedText(ctx.rng, ctx.seed, base, name);
        int kind = ctx.rng.range(0, 13);
        if (input.size() > 400000) {
            kind = 9; // huge corpus files: byte-level only on a prefix
            input.resize(65536);
        }
        if (kind >= 10) {
            // legal-but-unexpected XML: comments/PIs/CDATA in text, twin attributes, blown-up values, the library's own
            // string literals as names, DOCTYPE + entities, units DAGs; sometimes on top of a structural mutation
            if (kind == 13) {
                input = mutateStructured(input, ctx.rng, ctx.rng.range(1, 2), desc);
            }
            input = mutateHostileXml(input, ctx.rng, ctx.rng.range(1, 2), desc);
            stat("hostile_xml_inputs");
        } else if (kind <= 6) {
            input = mutateStructured(input, ctx.rng, ctx.rng.range(1, 4), desc);
        } else if (kind == 7) {
            input = truncateClass(input, ctx.rng.range(0, 4));
            desc = "truncclass;";
        } else if (kind == 8) {
            input = mutateStructured(input, ctx.rng, ctx.rng.range(1, 3), desc);
            input = mutateBytes(input, ctx.rng, ctx.rng.range(1, 2), desc);
        } else {
            std::string b2;
            std::string n2;
            std::string other = seedText(ctx.rng, ctx.seed, b2, n2);
            input = mutateBytes(input, ctx.rng, ctx.rng.range(1, 4), desc, other);
        }
    }
    if (verbose()) {
        fprintf(stderr, "---- input (%s; %s) ----\n%s\n----\n", name.c_str(), desc.c_str(), truncateForLog(input, 20000).c_str());
    }
    std::string replay = "seedfile=" + name + "\nmutations=" + desc + "\n" + input;
    bool any = false;
    std::string reach;
    for (int mode = 0; mode < 2; ++mode) {
        PipelineOptions po;
        po.strict = mode == 0;
        po.baseDir = base;
        po.replay = replay;
        stage(po.strict ? "mode-strict" : "mode-permissive");
        auto r = runPipeline(input, po);
        any = any || r.parsed;
        for (char ch : r.stagesReached) {
            stat(std::string("reach_") + (po.strict ? "strict_" : "perm_") + ch);
        }
        if (!r.analyserType.empty()) {
            seen("analyser_type", r.analyserType);
        }
        reach += r.stagesReached + "|";
    }
    caseInfo(hex64(fnv1a(input)), any, name.substr(name.rfind('/') == std::string::npos ? 0 : name.rfind('/') + 1) + " [" + truncateForLog(desc, 200) + "] reach=" + reach);
}
