#include "vh.h"

#include <cstdlib>
#include <cstring>
#include <dirent.h>
#include <fstream>
#include <set>
#include <sys/stat.h>
#include <unistd.h>
#include <algorithm>

namespace vh {

static uint64_t splitmix(uint64_t &x)
{
    uint64_t z = (x += 0x9e3779b97f4a7c15ULL);
    z = (z ^ (z >> 30)) * 0xbf58476d1ce4e5b9ULL;
    z = (z ^ (z >> 27)) * 0x94d049bb133111ebULL;
    return z ^ (z >> 31);
}

Rng::Rng(uint64_t seed, uint64_t stream)
{
    uint64_t x = seed * 0x9e3779b97f4a7c15ULL + stream * 0xd1342543de82ef95ULL + 0x1234567ULL;
    for (auto &v : s) {
        v = splitmix(x);
    }
}

static inline uint64_t rotl(uint64_t x, int k)
{
    return (x << k) | (x >> (64 - k));
}

uint64_t Rng::next()
{
    uint64_t result = rotl(s[1] * 5, 7) * 9;
    uint64_t t = s[1] << 17;
    s[2] ^= s[0];
    s[3] ^= s[1];
    s[1] ^= s[2];
    s[0] ^= s[3];
    s[2] ^= t;
    s[3] = rotl(s[3], 45);
    return result;
}

uint64_t Rng::below(uint64_t n)
{
    if (n <= 1) {
        return 0;
    }
    return next() % n;
}

int Rng::range(int lo, int hi)
{
    if (hi <= lo) {
        return lo;
    }
    return lo + static_cast<int>(below(static_cast<uint64_t>(hi - lo + 1)));
}

bool Rng::chance(double p)
{
    return unit() < p;
}

double Rng::unit()
{
    return static_cast<double>(next() >> 11) * (1.0 / 9007199254740992.0);
}

uint64_t fnv1a(const std::string &s, uint64_t h)
{
    for (unsigned char c : s) {
        h ^= c;
        h *= 1099511628211ULL;
    }
    return h;
}

std::string hex64(uint64_t v)
{
    char buf[32];
    snprintf(buf, sizeof buf, "%016llx", static_cast<unsigned long long>(v));
    return buf;
}

std::string jsonEscape(const std::string &s)
{
    std::string o;
    o.reserve(s.size() + 8);
    for (unsigned char c : s) {
        switch (c) {
        case '"': o += "\\\""; break;
        case '\\': o += "\\\\"; break;
        case '\n': o += "\\n"; break;
        case '\r': o += "\\r"; break;
        case '\t': o += "\\t"; break;
        default:
            if (c < 0x20 || c >= 0x7f) {
                // Emit every non-ASCII byte as \u00XX so that the line is always valid JSON/UTF-8.
                char buf[8];
                snprintf(buf, sizeof buf, "\\u%04x", c);
                o += buf;
            } else {
                o += static_cast<char>(c);
            }
        }
    }
    return o;
}

std::string readFile(const std::string &path, bool *ok)
{
    std::ifstream f(path, std::ios::binary);
    if (!f) {
        if (ok != nullptr) {
            *ok = false;
        }
        return {};
    }
    std::stringstream ss;
    ss << f.rdbuf();
    if (ok != nullptr) {
        *ok = true;
    }
    return ss.str();
}

bool writeFile(const std::string &path, const std::string &data)
{
    std::ofstream f(path, std::ios::binary | std::ios::trunc);
    if (!f) {
        return false;
    }
    f.write(data.data(), static_cast<std::streamsize>(data.size()));
    return bool(f);
}

static void listRec(const std::string &dir, bool recursive, std::vector<std::string> &out)
{
    DIR *d = opendir(dir.c_str());
    if (d == nullptr) {
        return;
    }
    std::vector<std::string> names;
    while (dirent *e = readdir(d)) {
        std::string n = e->d_name;
        if (n == "." || n == "..") {
            continue;
        }
        names.push_back(n);
    }
    closedir(d);
    std::sort(names.begin(), names.end());
    for (const auto &n : names) {
        std::string p = dir + "/" + n;
        struct stat st;
        if (stat(p.c_str(), &st) != 0) {
            continue;
        }
        if (S_ISDIR(st.st_mode)) {
            if (recursive) {
                listRec(p, recursive, out);
            }
        } else if (S_ISREG(st.st_mode)) {
            out.push_back(p);
        }
    }
}

std::vector<std::string> listFiles(const std::string &dir, bool recursive)
{
    std::vector<std::string> out;
    listRec(dir, recursive, out);
    return out;
}

std::string truncateForLog(const std::string &s, size_t n)
{
    if (s.size() <= n) {
        return s;
    }
    return s.substr(0, n) + "...[+" + std::to_string(s.size() - n) + " bytes]";
}

// ---------- protocol ----------
static FILE *gOut = nullptr;
static bool gVerbose = false;
static int64_t gCase = -1;
static std::map<std::string, int64_t> gStats;
static std::map<std::string, std::set<std::string>> gSeen;
static std::string gHash;
static bool gNontrivial = false;
static std::string gSample;
static std::string gScratch;

static void emit(const std::string &line)
{
    fputs("@@ ", gOut);
    fputs(line.c_str(), gOut);
    fputc('\n', gOut);
    fflush(gOut);
}

void viol(const std::string &prop, const std::string &key, const std::string &detail, const std::string &replay)
{
    emit("{\"ev\":\"viol\",\"case\":" + std::to_string(gCase) + ",\"prop\":\"" + jsonEscape(prop) + "\",\"key\":\"" + jsonEscape(key)
         + "\",\"detail\":\"" + jsonEscape(truncateForLog(detail, 4000)) + "\",\"replay\":\"" + jsonEscape(truncateForLog(replay, 200000)) + "\"}");
}

void stat(const std::string &name, int64_t inc)
{
    gStats[name] += inc;
}

void seen(const std::string &name, const std::string &value)
{
    auto &s = gSeen[name];
    if (s.size() < 400) {
        s.insert(value.size() > 120 ? value.substr(0, 120) : value);
    }
}

void caseInfo(const std::string &structHash, bool nontrivial, const std::string &sample)
{
    gHash = structHash;
    gNontrivial = nontrivial;
    gSample = sample;
}

void note(const std::string &text)
{
    emit("{\"ev\":\"note\",\"case\":" + std::to_string(gCase) + ",\"text\":\"" + jsonEscape(truncateForLog(text, 2000)) + "\"}");
}

void stage(const std::string &name)
{
    emit("{\"ev\":\"stage\",\"case\":" + std::to_string(gCase) + ",\"name\":\"" + jsonEscape(name) + "\"}");
}

bool verbose()
{
    return gVerbose;
}

std::string scratchDir()
{
    if (gScratch.empty()) {
        const char *base = getenv("VERIF_TMP");
        std::string b = base != nullptr ? base : "/verif/.cache/tmp";
        mkdir(b.c_str(), 0777);
        gScratch = b + "/w" + std::to_string(getpid());
        mkdir(gScratch.c_str(), 0777);
    }
    return gScratch;
}

static void rmTree(const std::string &dir)
{
    DIR *d = opendir(dir.c_str());
    if (d == nullptr) {
        return;
    }
    while (dirent *e = readdir(d)) {
        std::string n = e->d_name;
        if (n == "." || n == "..") {
            continue;
        }
        std::string p = dir + "/" + n;
        struct stat st;
        if (lstat(p.c_str(), &st) == 0 && S_ISDIR(st.st_mode)) {
            rmTree(p);
        } else {
            unlink(p.c_str());
        }
    }
    closedir(d);
    rmdir(dir.c_str());
}

static void runOne(Ctx &ctx, int64_t i)
{
    gCase = i;
    gStats.clear();
    gSeen.clear();
    gHash.clear();
    gNontrivial = false;
    gSample.clear();
    ctx.index = i;
    ctx.rng = Rng(ctx.seed, static_cast<uint64_t>(i));
    emit("{\"ev\":\"begin\",\"case\":" + std::to_string(i) + "}");
    vh_run_case(ctx);
    std::string s = "{\"ev\":\"end\",\"case\":" + std::to_string(i) + ",\"hash\":\"" + jsonEscape(gHash) + "\",\"nt\":" + (gNontrivial ? "true" : "false");
    if (!gSample.empty()) {
        s += ",\"sample\":\"" + jsonEscape(truncateForLog(gSample, 1500)) + "\"";
    }
    s += ",\"stats\":{";
    bool first = true;
    for (const auto &kv : gStats) {
        if (!first) {
            s += ",";
        }
        first = false;
        s += "\"" + jsonEscape(kv.first) + "\":" + std::to_string(kv.second);
    }
    s += "},\"seen\":{";
    first = true;
    for (const auto &kv : gSeen) {
        if (!first) {
            s += ",";
        }
        first = false;
        s += "\"" + jsonEscape(kv.first) + "\":[";
        bool f2 = true;
        for (const auto &v : kv.second) {
            if (!f2) {
                s += ",";
            }
            f2 = false;
            s += "\"" + jsonEscape(v) + "\"";
        }
        s += "]";
    }
    s += "}}";
    emit(s);
}

} // namespace vh

// Optional per-driver auxiliary entry point: `driver --seed S --tier T --aux <string>` calls it and exits
// (used to compute a result in a fresh process).
extern "C" __attribute__((weak)) void vh_aux(vh::Ctx &ctx, const char *arg);

int main(int argc, char **argv)
{
    using namespace vh;
    // Protocol goes to a private copy of stdout so that nothing the library (or a child) prints can
    // corrupt it; fd 1 is then pointed at stderr.
    int fd = dup(1);
    gOut = fdopen(fd, "w");
    dup2(2, 1);

    Ctx ctx;
    int64_t from = 0;
    int64_t to = -1;
    int64_t only = -1;
    bool count = false;
    bool haveAux = false;
    std::string aux;
    for (int i = 1; i < argc; ++i) {
        std::string a = argv[i];
        auto val = [&]() -> std::string { return (i + 1 < argc) ? argv[++i] : ""; };
        if (a == "--seed") {
            ctx.seed = strtoull(val().c_str(), nullptr, 10);
        } else if (a == "--tier") {
            ctx.tier = val();
        } else if (a == "--from") {
            from = strtoll(val().c_str(), nullptr, 10);
        } else if (a == "--to") {
            to = strtoll(val().c_str(), nullptr, 10);
        } else if (a == "--only") {
            only = strtoll(val().c_str(), nullptr, 10);
        } else if (a == "--count") {
            count = true;
        } else if (a == "--verbose") {
            gVerbose = true;
        } else if (a == "--aux") {
            aux = val();
            haveAux = true;
        }
    }
    if (haveAux) {
        if (vh_aux != nullptr) {
            vh_aux(ctx, aux.c_str());
        }
        if (!gScratch.empty()) {
            rmTree(gScratch);
        }
        return 0;
    }
    int64_t n = vh_case_count(ctx.tier, ctx.seed);
    if (count) {
        emit("{\"ev\":\"count\",\"n\":" + std::to_string(n) + "}");
        return 0;
    }
    if (only >= 0) {
        from = only;
        to = only + 1;
    }
    if (to < 0 || to > n) {
        to = n;
    }
    for (int64_t i = from; i < to; ++i) {
        runOne(ctx, i);
    }
    if (!gScratch.empty()) {
        rmTree(gScratch);
    }
    emit("{\"ev\":\"done\"}");
    return 0;
}
