#include <libcellml>
#include <iostream>
#include <string>
#include <cstring>
using namespace libcellml;
static const char *HDR = "<?xml version=\"1.0\" encoding=\"UTF-8\"?>\n<model xmlns=\"http://www.cellml.org/cellml/2.0#\" name=\"m\">\n";
static std::string cyc2 = std::string(HDR) +
 "<units name=\"a\"><unit units=\"b\"/></units><units name=\"b\"><unit units=\"a\"/></units>"
 "<component name=\"c\"><variable name=\"v\" units=\"a\" interface=\"public\"/></component>"
 "<component name=\"d\"><variable name=\"w\" units=\"b\" interface=\"public\"/></component>"
 "<connection component_1=\"c\" component_2=\"d\"><map_variables variable_1=\"v\" variable_2=\"w\"/></connection>"
 "</model>";
static std::string cyc1 = std::string(HDR) +
 "<units name=\"a\"><unit units=\"a\"/></units>"
 "<component name=\"c\"><variable name=\"v\" units=\"a\" interface=\"public\"/></component>"
 "<component name=\"d\"><variable name=\"w\" units=\"a\" interface=\"public\"/></component>"
 "<connection component_1=\"c\" component_2=\"d\"><map_variables variable_1=\"v\" variable_2=\"w\"/></connection>"
 "</model>";
static std::string missing = std::string(HDR) +
 "<units name=\"a\"><unit units=\"missing\"/></units>"
 "<component name=\"c\"><variable name=\"v\" units=\"a\"/></component>"
 "</model>";
static void issues(const char *who, const LoggerPtr &l) {
    std::cout << who << ": " << l->issueCount() << " issues\n";
    for (size_t i = 0; i < l->issueCount() && i < 6; ++i) std::cout << "   - " << l->issue(i)->description() << "\n";
}
int main(int argc, char **argv) {
    std::cout << std::unitbuf; std::string t = argc > 1 ? argv[1] : "";
    std::string src = (argc > 2 && !strcmp(argv[2], "1")) ? cyc1 : cyc2;
    auto parser = Parser::create();
    if (t == "B") {
        auto m = parser->parseModel(missing);
        std::cout << "isDefined " << m->component(0)->isDefined() << "\n";
        std::cout << "requiresImports " << m->component(0)->requiresImports() << "\n";
        auto imp = Importer::create();
        auto f = imp->flattenModel(m);
        std::cout << "flat " << (f != nullptr) << "\n"; issues("importer", imp);
        return 0;
    }
    auto m = parser->parseModel(src);
    if (t == "A1") std::cout << "hasImports " << m->hasImports() << "\n";
    else if (t == "A2") { auto v = Validator::create(); v->validateModel(m); issues("validator", v); }
    else if (t == "A3") {
        std::cout << "units isDefined " << m->units(0)->isDefined() << "\n";
        std::cout << "units isResolved " << m->units(0)->isResolved() << "\n";
        std::cout << "hasUnresolvedImports " << m->hasUnresolvedImports() << "\n";
        std::cout << "model isDefined " << m->isDefined() << "\n";
    } else if (t == "A4") {
        std::cout << "comp isDefined " << m->component(0)->isDefined() << "\n";
        std::cout << "comp requiresImports " << m->component(0)->requiresImports() << "\n";
    } else if (t == "A4f") {
        auto imp = Importer::create();
        auto f = imp->flattenModel(m);
        std::cout << "flat " << (f != nullptr) << "\n"; issues("importer", imp);
    } else if (t == "A5") {
        auto u0 = m->units(0); auto s = Units::create("second");
        std::cout << "compatible " << Units::compatible(u0, u0) << Units::compatible(u0, s) << "\n";
        std::cout << "equivalent " << Units::equivalent(u0, s) << "\n";
        std::cout << "scalingFactor " << Units::scalingFactor(u0, s) << "\n";
        std::cout << "scalingFactor nocheck " << Units::scalingFactor(u0, s, false) << " " << Units::scalingFactor(s, u0, false) << "\n";
    } else if (t == "A6") {
        std::cout << "units requiresImports " << m->units(0)->requiresImports() << "\n";
    } else if (t == "A7") {
        auto a = Analyser::create(); a->analyseModel(m); issues("analyser", a);
    } else if (t == "A8") {
        auto imp = Importer::create(); std::cout << "resolve " << imp->resolveImports(m, "/tmp/") << "\n"; issues("importer", imp);
    }
    return 0;
}
